"""Confirm a seeded change (tests pass, demo fails with it / passes without) and run the checks against it.
usage: seedcheck.py <prop> <k> <worktree> [extra props to check ...]"""
import json, os, shutil, subprocess, sys, time
prop, k, wt = sys.argv[1], sys.argv[2], sys.argv[3]
extra = sys.argv[4:]
out = '/verif/seeded/%s-%s' % (prop, int(k) + int(os.environ.get('SEED_ID_OFFSET', '0')))
os.makedirs(out, exist_ok=True)
src = os.path.join(wt, 'seeded_out')
for a, b in (('patch_%s.diff' % k, 'patch.diff'), ('demo_%s.py' % k, 'demo.py'), ('notes_%s.txt' % k, 'notes.txt')):
  if os.path.exists(os.path.join(src, a)):
    shutil.copy(os.path.join(src, a), os.path.join(out, b))
def run(cmd, cwd=None, env=None, timeout=1800):
  p = subprocess.run(cmd, shell=True, cwd=cwd, env=env, stdout=subprocess.PIPE, stderr=subprocess.STDOUT, timeout=timeout)
  return p.returncode, p.stdout.decode(errors='replace')
meta = {'property': prop, 'seed': str(int(k) + int(os.environ.get('SEED_ID_OFFSET', '0'))), 'ran': []}
env = dict(os.environ, PYTHONPATH=wt)
# 1. in the scratch worktree: demo passes without, fails with; tests pass with
rc0, o0 = run('/venv/bin/python %s/demo.py' % out, cwd=wt, env=env)
rc, o = run('git apply %s/patch.diff' % out, cwd=wt)
meta['applies'] = rc == 0
rct, ot = run('/venv/bin/python -m pytest -q -p no:cacheprovider --timeout=900 --continue-on-collection-errors 2>&1 | tail -1', cwd=wt)
rc1, o1 = run('/venv/bin/python %s/demo.py' % out, cwd=wt, env=env)
run('git checkout -- scales', cwd=wt)
meta['demo_without_patch_exit'] = rc0
meta['demo_with_patch_exit'] = rc1
meta['tests_with_patch'] = ot.strip()
meta['confirmed'] = (rc0 == 0 and rc1 != 0 and '52 passed' in ot and meta['applies'])
meta['demo_with_patch_tail'] = o1[-600:]
# 2. against /repo: apply, run the checks, undo
scratch = '/tmp/seedrepo_%s_%s' % (prop, k)
run('git -C /repo worktree remove --force %s' % scratch)
run('git -C /repo worktree add --detach %s HEAD' % scratch)
rc, o = run('git -C %s apply %s/patch.diff' % (scratch, out))
meta['applies_to_repo_head'] = rc == 0
meta['repo_head'] = run('git -C /repo rev-parse --short HEAD')[1].strip()
results = {}
if rc == 0:
  try:
    for p in [prop] + extra:
      t = time.time()
      rcc, oc = run('python3-vt -m pyvc.cli check %s --repo %s' % (p, scratch), cwd='/verif')
      results[p] = {'exit': rcc, 'wall_s': round(time.time() - t, 1),
                    'lines': [l for l in oc.split('\n') if l.startswith(('VIOLATION', 'UNDECIDED', 'OK', 'FAIL', '  failed'))][:12]}
  finally:
    pass
run('git -C /repo worktree remove --force %s' % scratch)
meta['checks'] = results
meta['detected'] = any(r['exit'] == 1 for r in results.values())
meta['alarm'] = any(r['exit'] != 0 for r in results.values())
json.dump(meta, open(os.path.join(out, 'meta.json'), 'w'), indent=1)
print(prop, k, 'confirmed' if meta['confirmed'] else 'NOT-CONFIRMED', 'detected' if meta['detected'] else ('alarm(undecided)' if meta['alarm'] else 'MISSED'),
      {p: r['exit'] for p, r in results.items()})
