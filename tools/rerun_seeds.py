"""Re-run the checks against every stored seeded change (and every stored behaviour-preserving change) without the
sub-agent worktrees: python3-vt tools/rerun_seeds.py [seeds|harmless|all] [id-prefix]
Each patch is applied to a scratch worktree of /repo under /tmp, which is removed afterwards."""
import glob, json, os, subprocess, sys, time
what = sys.argv[1] if len(sys.argv) > 1 else 'all'
prefix = sys.argv[2] if len(sys.argv) > 2 else ''
def run(cmd, cwd=None, timeout=3600):
  p = subprocess.run(cmd, shell=True, cwd=cwd, stdout=subprocess.PIPE, stderr=subprocess.STDOUT, timeout=timeout)
  return p.returncode, p.stdout.decode(errors='replace')
dirs = []
if what in ('seeds', 'all'):
  dirs += [d for d in sorted(glob.glob('/verif/seeded/C*-*')) if os.path.basename(d).startswith(prefix)]
if what in ('harmless', 'all'):
  dirs += [d for d in sorted(glob.glob('/verif/seeded/harmless/*')) if os.path.basename(d).startswith(prefix)]
bad = 0
for d in dirs:
  meta = json.load(open(d + '/meta.json'))
  harmless = '/harmless/' in d
  props = meta.get('props_checked') if harmless else [meta['property']]
  scratch = '/tmp/rerun_' + os.path.basename(d)
  run('git -C /repo worktree remove --force %s' % scratch)
  run('git -C /repo worktree add --detach %s HEAD' % scratch)
  rc, o = run('git -C %s apply %s/patch.diff' % (scratch, d))
  res = {}
  if rc == 0:
    for p in props:
      t = time.time()
      rcc, oc = run('python3-vt -m pyvc.cli check %s --repo %s' % (p, scratch), cwd='/verif')
      res[p] = dict(exit=rcc, wall_s=round(time.time() - t, 1),
                    lines=[l[:300] for l in oc.split('\n') if l.startswith(('VIOLATION', 'UNDECIDED', 'OK', 'FAIL', '  failed'))][:12])
  run('git -C /repo worktree remove --force %s' % scratch)
  meta.setdefault('checks', {}).update(res)
  if harmless:
    meta['false_alarm'] = any(c['exit'] == 1 for c in meta['checks'].values())
    ok = not meta['false_alarm']
  else:
    meta['detected'] = any(r['exit'] == 1 for r in meta['checks'].values())
    ok = res.get(meta['property'], {}).get('exit') == 1
  json.dump(meta, open(d + '/meta.json', 'w'), indent=1)
  bad += 0 if ok else 1
  print(os.path.basename(d), 'ok' if ok else ('FALSE-ALARM' if harmless else 'NOT-DETECTED'), {p: r['exit'] for p, r in res.items()}, flush=True)
print('done: %d of %d not as expected' % (bad, len(dirs)))
