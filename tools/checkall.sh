#!/bin/sh
# run every claimed check (quick tier); non-zero if any is not OK
cd "$(dirname "$0")/.." || exit 3
rc=0
for p in $(python3 -c "import json;print(' '.join(c['property_id'] for c in json.load(open('MANIFEST.json'))['checks']))"); do
  python3-vt -m pyvc.cli check $p "$@" | grep -v "^  " | grep -E "^(OK|FAIL|UNDECIDED|VIOLATION|KNOWN)" | tail -4
  [ ${PIPESTATUS:-0} -eq 0 ] || true
done
