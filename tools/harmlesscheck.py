"""Run the checks against a behaviour-preserving change: expected exit 0 (or 2 = undecided), never 1.
usage: harmlesscheck.py <batch-name> <k> <worktree>"""
import json, os, re, shutil, subprocess, sys, time
sys.path.insert(0, '/verif')
batch, k, wt = sys.argv[1], sys.argv[2], sys.argv[3]
out = '/verif/seeded/harmless/%s-%s' % (batch, k)
os.makedirs(out, exist_ok=True)
src = os.path.join(wt, 'seeded_out')
shutil.copy(os.path.join(src, 'harmless_%s.diff' % k), os.path.join(out, 'patch.diff'))
if os.path.exists(os.path.join(src, 'harmless_%s.txt' % k)):
  shutil.copy(os.path.join(src, 'harmless_%s.txt' % k), os.path.join(out, 'notes.txt'))
def run(cmd, cwd=None, timeout=3600):
  p = subprocess.run(cmd, shell=True, cwd=cwd, stdout=subprocess.PIPE, stderr=subprocess.STDOUT, timeout=timeout)
  return p.returncode, p.stdout.decode(errors='replace')
patch = open(os.path.join(out, 'patch.diff')).read()
files = re.findall(r'^\+\+\+ b/(\S+)', patch, re.M)
from pyvc.registry import Registry
reg = Registry().load_package('specs')
mods = {}
for name, f in reg.functions.items():
  mods.setdefault(f.file, set()).update(f.props)
props = sorted(set(p for fl in files for p in mods.get(fl, ())))
scratch = '/tmp/harmrepo_%s_%s' % (batch, k)
run('git -C /repo worktree remove --force %s' % scratch)
run('git -C /repo worktree add --detach %s HEAD' % scratch)
rc, o = run('git -C %s apply %s/patch.diff' % (scratch, out))
meta = dict(batch=batch, k=k, files=files, applies=(rc == 0), props_checked=props, checks={})
if rc == 0:
  rct, ot = run('/venv/bin/python -m pytest -q -p no:cacheprovider --timeout=900 --continue-on-collection-errors 2>&1 | tail -1', cwd=scratch)
  meta['tests_with_patch'] = ot.strip()
  for p in props:
    t = time.time()
    rcc, oc = run('python3-vt -m pyvc.cli check %s --repo %s' % (p, scratch), cwd='/verif')
    meta['checks'][p] = dict(exit=rcc, wall_s=round(time.time() - t, 1),
                             lines=[l[:300] for l in oc.split('\n') if l.startswith(('VIOLATION', 'UNDECIDED', 'OK', 'FAIL'))][:8])
run('git -C /repo worktree remove --force %s' % scratch)
meta['false_alarm'] = any(c['exit'] == 1 for c in meta['checks'].values())
json.dump(meta, open(os.path.join(out, 'meta.json'), 'w'), indent=1)
print(batch, k, files, 'FALSE-ALARM' if meta['false_alarm'] else 'no alarm', {p: c['exit'] for p, c in meta['checks'].items()})
