"""Regenerate MANIFEST.json from props/*.py (claimed properties) and properties.jsonl."""
import importlib, json, os, sys
ROOT = os.path.dirname(os.path.dirname(os.path.abspath(__file__)))
sys.path.insert(0, ROOT)
ids = [json.loads(l)['id'] for l in open(os.path.join(ROOT, 'properties.jsonl'))]
checks, na = [], []
for i in ids:
  try:
    m = importlib.import_module('props.' + i)
  except ImportError:
    m = None
  if m is not None and getattr(m, 'CLAIMED', False):
    checks.append(dict(
      property_id=i,
      quick_cmd='python3-vt -m pyvc.cli check %s --tier quick' % i,
      thorough_cmd='python3-vt -m pyvc.cli check %s --tier thorough' % i,
      evidence_file='evidence/%s.json' % i,
      replay_cmd_template='env PYTHONPATH=/repo:/verif /venv/bin/python pyvc/replay.py {path}',
      engine='pyvc',
      level_claimed=dict(category='proof', text=m.LEVEL_TEXT, design_ref=m.DESIGN_REF),
      level_note=m.LEVEL_NOTE,
      technique=m.TECHNIQUE))
  else:
    na.append(dict(property_id=i, reason=getattr(m, 'NA_REASON', 'check not built yet (work in progress; see DESIGN.md section 7)')))
man = dict(
  version=1,
  setup_cmd='python3-vt -m pyvc.cli selfcheck',
  hooks=dict(guard='SCALES_VERIF',
             enable='no hooks: pyvc reads the sources under /repo with ast on every run; nothing in /repo reads the guard variable',
             baseline_off_cmd='cd /repo && /venv/bin/python -m pytest -ra -q -p no:cacheprovider --timeout=900 --continue-on-collection-errors',
             source_commits=[], add_only=True),
  engines=[dict(name='pyvc', path='pyvc/', serves_properties=[c['property_id'] for c in checks],
                kind_free_text='verification-condition generator over the python ast of the real functions + sidecar contracts (specs/), '
                               'obligations discharged by z3 (portfolio) and cvc5; counter-models replayed on the real code (replays_src/)')],
  checks=checks,
  not_applicable=na,
  notes='Exit codes of every check: 0 all obligations discharged, 1 violation (VIOLATION line), 2 undecided (solver unknown / unmodelled construct / source drift), 3 checker crash. '
        'Fixes of genuine defects found are listed in known_findings.json.')
json.dump(man, open(os.path.join(ROOT, 'MANIFEST.json'), 'w'), indent=1)
print('claimed:', [c['property_id'] for c in checks])
