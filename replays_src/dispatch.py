"""Replay of dispatcher counterexamples on the real scales.dispatch code."""
from fractions import Fraction

from scales import dispatch as D


def _num(x):
  if isinstance(x, dict):
    if 'num' in x:
      return float(Fraction(x['num'], x['den']))
    if 'float' in x:
      return x['float']
  return x


def replay_dispatch_method(w, rec):
  p = w['params']
  start_time, timeout = _num(p.get('start_time')), _num(p.get('timeout'))
  clock = [_num(c['value']) for c in w.get('choices', []) if c['extern'] == 'time.time']
  open_time = clock[0] if clock else (start_time or 0)
  disp = D.MessageDispatcher.__new__(D.MessageDispatcher)
  disp._service, disp._name = None, 'replay'
  disp._next = object()
  captured = {}
  real_static = D.MessageDispatcher.StaticDispatchMessage
  real_time = D.time.time
  class _T(object):
    @staticmethod
    def time():
      return open_time
  def fake(sink, source, st, deadline, msg):
    captured['deadline'] = deadline
    return None
  D.MessageDispatcher.StaticDispatchMessage = staticmethod(fake)
  D.time = _T
  try:
    disp._DispatchMethod('m', (), {}, timeout, start_time)
  finally:
    D.MessageDispatcher.StaticDispatchMessage = real_static
    import time as _time
    D.time = _time
  want = None if not timeout else start_time + timeout
  text = 'call issued at t=%r with timeout T=%r, open completed at %r: deadline put on the message = %r, t+T = %r' % (
    start_time, timeout, open_time, captured.get('deadline'), want)
  got = captured.get('deadline')
  bad = (got is None) != (want is None) or (got is not None and abs(got - want) > 1e-9)
  return bad, text


REPLAYS = {
  'MessageDispatcher._DispatchMethod': replay_dispatch_method,
}
