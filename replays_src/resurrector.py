"""Replay for the resurrector units (C09) on the real ResurrectorSink; gevent.sleep inside scales.resurrector is
replaced by a recorder so that back-off delays are observed instead of waited for."""
import gevent

from scales import resurrector as R
from scales.asynchronous import AsyncResult
from scales.constants import ChannelState, SinkProperties
from scales.observable import Observable
from scales.message import MethodCallMessage, FailedFastError
from scales.sink import ClientMessageSinkStack


class Under(object):
  def __init__(self, ok):
    self.ok = ok
    self.opens = self.closes = 0
    self.on_faulted = Observable()
    self.state = ChannelState.Idle
    self.requests = 0
  def Open(self):
    self.opens += 1
    if self.ok:
      self.state = ChannelState.Open
      return AsyncResult.Complete()
    return AsyncResult.CompleteIn(Exception('connection refused')) if hasattr(AsyncResult, 'CompleteIn') else _failed()
  def Close(self):
    self.closes += 1
    self.state = ChannelState.Closed
  def AsyncProcessRequest(self, sink_stack, msg, stream, headers):
    self.requests += 1
  @property
  def is_open(self):
    return self.state <= ChannelState.Busy


def _failed():
  ar = AsyncResult()
  ar.set_exception(Exception('connection refused'))
  return ar


class Factory(object):
  def __init__(self, script):
    self.script = list(script)      # outcome of successive connects: True = reachable
    self.made = []
  def CreateSink(self, props):
    ok = self.script.pop(0) if self.script else True
    u = Under(ok)
    self.made.append(u)
    return u


class Ep(object):
  host, port = 'h', 1


class Props(object):
  initial_wait_interval, max_wait_interval, backoff_exponent = 5, 60, 1.2


class _Sleeps(object):
  def __init__(self):
    self.waits = []
    self.real = gevent.sleep
  def __call__(self, t=0):
    if t:
      self.waits.append(t)
    self.real(0)


def _mk(script):
  f = Factory(script)
  r = R.ResurrectorSink(f, Props(), {SinkProperties.Endpoint: Ep(), SinkProperties.Label: 'replay'})
  return r, f


def _pump(n=30):
  for _ in range(n):
    gevent.sleep(0)


def replay_resurrector(w, rec):
  bad = []
  rec_sleep = _Sleeps()
  class G(object):
    def __getattr__(self, k):
      return getattr(gevent, k)
  g = G()
  g.sleep = rec_sleep
  saved = R.gevent
  R.gevent = g
  try:
    # (a) a long outage: delays grow from the initial to the configured maximum and never beyond
    r, f = _mk([True] + [False] * 12 + [True])
    r.Open()
    first = f.made[0]
    first.on_faulted.Set('boom')
    _pump(200)
    ws = rec_sleep.waits
    if not ws:
      bad.append('no reconnection attempt after a fault')
    else:
      if abs(ws[0] - 5) > 1e-9:
        bad.append('first retry delay is %r, configured initial interval is 5' % ws[0])
      if any(b < a - 1e-9 for a, b in zip(ws, ws[1:])):
        bad.append('retry delays decrease: %r' % ws)
      if max(ws) > 60 + 1e-9:
        bad.append('retry delays exceed the configured maximum of 60: %r' % [round(x, 1) for x in ws])
    if r.next_sink is None or r.state == ChannelState.Closed:
      bad.append('endpoint reachable again but the sink still fails fast (state %r)' % r.state)
    # (b) a second outage on the same endpoint is retried too
    del rec_sleep.waits[:]
    cur = r.next_sink
    n_before = len(f.made)
    if cur is not None:
      cur.on_faulted.Set('boom again')
      _pump(60)
      if len(f.made) == n_before:
        bad.append('second outage of the same endpoint: no reconnection attempt was made')
      elif r.next_sink is None:
        bad.append('second outage: endpoint reachable but never resumed')
    # (c) while down: fail fast, nothing forwarded
    r2, f2 = _mk([True] + [False] * 50)
    r2.Open()
    f2.made[0].on_faulted.Set('x')
    gevent.sleep(0)
    got = []
    class Rcv(object):
      def AsyncProcessResponse(self, sink_stack, context, stream, msg):
        got.append(msg)
    st = ClientMessageSinkStack()
    st.Push(Rcv(), None)
    r2.AsyncProcessRequest(st, MethodCallMessage(None, 'm', (), {}), None, {})
    _pump(5)
    if not got or not isinstance(got[0].error, FailedFastError):
      bad.append('request while the endpoint is down was not answered with FailedFastError (%r)' % (got,))
    # (d) Close: no further attempts, also when a fault of the closed sink is still on its way
    r3, f3 = _mk([True, True, True])
    r3.Open()
    u = f3.made[0]
    u.on_faulted.Set('late fault')       # notification is delivered asynchronously
    r3.Close()
    n0 = len(f3.made)
    _pump(60)
    if len(f3.made) != n0:
      bad.append('%d connection attempt(s) after Close()' % (len(f3.made) - n0))
    r2.Close()
    n2 = len(f2.made)
    _pump(60)
    if len(f2.made) != n2:
      bad.append('%d connection attempt(s) after Close() of a down endpoint' % (len(f2.made) - n2))
    # (e) Close while a reconnection attempt is blocked in the connect itself
    class Hanging(Under):
      def Open(self):
        self.opens += 1
        self.pending = AsyncResult()
        return self.pending
    class HFactory(Factory):
      def CreateSink(self, props):
        if not self.made:
          return Factory.CreateSink(self, props)
        u = Hanging(False)
        self.made.append(u)
        return u
    f4 = HFactory([True])
    r4 = R.ResurrectorSink(f4, Props(), {SinkProperties.Endpoint: Ep(), SinkProperties.Label: 'replay'})
    r4.Open()
    f4.made[0].on_faulted.Set('down')
    _pump(20)
    if len(f4.made) == 2:              # the retry loop is now waiting for the hanging connect
      r4.Close()
      n4 = len(f4.made)
      _pump(80)
      if len(f4.made) != n4:
        bad.append('Close() while a reconnection attempt was waiting for its connect: %d further attempt(s) were made (the kill was swallowed and the retry loop went on)' % (len(f4.made) - n4))
  finally:
    R.gevent = saved
  return bool(bad), '\n'.join(bad) or 'back-off grows to the cap, every outage is retried, down endpoints fail fast, Close stops the retries'


REPLAYS = dict((u, replay_resurrector) for u in (
  'ResurrectorSink._TryResurrect', 'ResurrectorSink._OnSinkFaulted', 'ResurrectorSink.Close', 'ResurrectorSink.AsyncProcessRequest'))
