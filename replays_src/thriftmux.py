"""Replay of ThriftMux framing counterexamples on the real code."""
from io import BytesIO
from struct import pack

from scales.thriftmux.sink import ThriftMuxMessageSerializerSink


def replay_read_header(w, rec):
  c = w.get('captures') or w.get('params') or {}
  t, tag = c.get('g_t'), c.get('g_tag')
  cands = [(t, tag)] if isinstance(t, int) and isinstance(tag, int) else []
  cands += [(127, 5), (2, 1), (-2, 7), (-128, 16777215), (66, 0)]
  text = []
  for t, tag in cands:
    if not (-128 <= t <= 127 and 0 <= tag < 2 ** 24):
      continue
    frame = pack('!b', t) + pack('!I', tag)[1:] + b'rest'
    got = ThriftMuxMessageSerializerSink.ReadHeader(BytesIO(frame))
    if tuple(got) != (t, tag):
      text.append('header bytes for type %d, tag %d are read back as %r' % (t, tag, tuple(got)))
      return True, '\n'.join(text)
    text.append('type %d tag %d ok' % (t, tag))
  return False, '\n'.join(text)


REPLAYS = {
  'ThriftMuxMessageSerializerSink.ReadHeader': replay_read_header,
}


def _spec_context(ctx):
  """expected wire image of a context block, written from the mux protocol description"""
  out = pack('!h', len(ctx))
  for k, v in ctx.items():
    kb, vb = k.encode('utf-8'), v.encode('utf-8')
    out += pack('!h', len(kb)) + kb + pack('!h', len(vb)) + vb
  return out


def replay_write_context(w, rec):
  from scales.thriftmux.serializer import MessageSerializer
  text = []
  for ctx in ({'ké': 'v'}, {'k': 'véé'}, {'key': 'value'}, {'': ''}):
    buf = BytesIO()
    try:
      MessageSerializer._WriteContext(ctx, buf)
    except Exception as e:
      text.append('%r: raised %s: %s' % (ctx, type(e).__name__, e))
      return True, '\n'.join(text)
    got, want = buf.getvalue(), _spec_context(ctx)
    if got != want:
      text.append('context %r is written as %r, the protocol requires %r (character counts used as byte lengths)' % (ctx, got, want))
      return True, '\n'.join(text)
    text.append('%r ok' % (ctx,))
  return False, '\n'.join(text)


REPLAYS['MessageSerializer_mux._WriteContext'] = replay_write_context
