"""Replay of ThriftMux framing counterexamples on the real code."""
from io import BytesIO
from struct import pack

from scales.thriftmux.sink import ThriftMuxMessageSerializerSink


def replay_read_header(w, rec):
  c = w.get('captures') or w.get('params') or {}
  t, tag = c.get('g_t'), c.get('g_tag')
  cands = [(t, tag)] if isinstance(t, int) and isinstance(tag, int) else []
  cands += [(127, 5), (2, 1), (-2, 7), (-128, 16777215), (66, 0)]
  text = []
  for t, tag in cands:
    if not (-128 <= t <= 127 and 0 <= tag < 2 ** 24):
      continue
    frame = pack('!b', t) + pack('!I', tag)[1:] + b'rest'
    got = ThriftMuxMessageSerializerSink.ReadHeader(BytesIO(frame))
    if tuple(got) != (t, tag):
      text.append('header bytes for type %d, tag %d are read back as %r' % (t, tag, tuple(got)))
      return True, '\n'.join(text)
    text.append('type %d tag %d ok' % (t, tag))
  return False, '\n'.join(text)


REPLAYS = {
  'ThriftMuxMessageSerializerSink.ReadHeader': replay_read_header,
}


def _spec_context(ctx):
  """expected wire image of a context block, written from the mux protocol description"""
  out = pack('!h', len(ctx))
  for k, v in ctx.items():
    kb, vb = k.encode('utf-8'), v.encode('utf-8')
    out += pack('!h', len(kb)) + kb + pack('!h', len(vb)) + vb
  return out


def replay_write_context(w, rec):
  from scales.thriftmux.serializer import MessageSerializer
  text = []
  for ctx in ({'ké': 'v'}, {'k': 'véé'}, {'key': 'value'}, {'': ''}):
    buf = BytesIO()
    try:
      MessageSerializer._WriteContext(ctx, buf)
    except Exception as e:
      text.append('%r: raised %s: %s' % (ctx, type(e).__name__, e))
      return True, '\n'.join(text)
    got, want = buf.getvalue(), _spec_context(ctx)
    if got != want:
      text.append('context %r is written as %r, the protocol requires %r (character counts used as byte lengths)' % (ctx, got, want))
      return True, '\n'.join(text)
    text.append('%r ok' % (ctx,))
  return False, '\n'.join(text)


REPLAYS['MessageSerializer_mux._WriteContext'] = replay_write_context


def replay_serializer_sink_buffers(w, rec):
  """Several calls through one serializer sink while the transport below keeps their streams (as it does for requests
  parked behind a connection that is still opening): every kept stream must still hold its own call's bytes."""
  from io import BytesIO
  from scales.thriftmux.sink import ThriftMuxMessageSerializerSink
  from scales.message import MethodCallMessage
  from scales.sink import ClientMessageSinkStack
  from scales.constants import SinkProperties
  kept = []
  class Next(object):
    def AsyncProcessRequest(self, sink_stack, msg, stream, headers):
      kept.append((msg, stream, stream.getvalue()))
  sink = ThriftMuxMessageSerializerSink.__new__(ThriftMuxMessageSerializerSink)
  class Ser(object):
    def Marshal(self, msg, buf, headers):
      buf.write(('call:%s' % (msg.args,)).encode())
  class V(object):
    def __getattr__(self, n):
      return lambda *a, **k: None
  class Prov(object):
    def CreateSink(self, props):
      return Next()
  ThriftMuxMessageSerializerSink.__init__(sink, Prov(), None, {SinkProperties.ServiceInterface: None, SinkProperties.Label: 'replay'})
  sink._serializer = Ser()
  sink._varz = V()
  sink.next_sink = Next()
  for k in range(3):
    sink.AsyncProcessRequest(ClientMessageSinkStack(), MethodCallMessage(None, 'hi', ('req-%d' % k,), {}), None, {})
  bad = []
  if len(kept) != 3:
    return False, 'harness: %d of 3 calls were forwarded' % len(kept)
  for msg, stream, at_forward in kept:
    now = stream.getvalue()
    if now != at_forward or ('%s' % (msg.args,)).encode() not in now:
      bad.append('call %r: the stream the transport kept now reads %r (it held %r when it was forwarded)' % (msg.args, now, at_forward))
  if len(set(id(s) for _, s, _ in kept)) != 3:
    bad.append('the 3 calls were marshalled into %d buffer object(s)' % len(set(id(s) for _, s, _ in kept)))
  return bool(bad), '\n'.join(bad) or 'every call keeps a buffer of its own'


REPLAYS['ThriftMuxMessageSerializerSink.AsyncProcessRequest'] = replay_serializer_sink_buffers


def replay_send_ping(w, rec):
  """Only the send loop writes to the socket: a ping goes through the send queue like every other frame (two writers
  would interleave frames), and each ping gets its own timeout helper."""
  import gevent
  from gevent.queue import Queue
  from scales.thriftmux.sink import SocketTransportSink
  writes = []
  class Sock(object):
    def write(self, data):
      writes.append(data)
  s = SocketTransportSink.__new__(SocketTransportSink)
  s._socket = Sock()
  s._send_queue = Queue()
  s._ping_msg = b'PINGFRAME'
  s._EMPTY_DCT = {}
  s._ping_timeout = 0.01
  s._ping_ar = None
  class L(object):
    def __getattr__(self, n):
      return lambda *a, **k: None
  s._log = L()
  s._varz = L()
  shut = []
  s._Shutdown = lambda *a, **k: shut.append(a)
  bad = []
  try:
    ar = s._SendPingMessage()
  except Exception as e:
    return True, '_SendPingMessage raised %s: %s' % (type(e).__name__, e)
  if writes:
    bad.append('_SendPingMessage wrote %d bytes to the socket itself, bypassing the send loop (frames of concurrent requests can interleave with it)' % len(writes[0]))
  if s._send_queue.qsize() != 1:
    bad.append('the ping was not queued for the send loop (queue size %d)' % s._send_queue.qsize())
  if ar is None or ar is not s._ping_ar:
    bad.append('the returned result is not the pending ping result')
  return bool(bad), '\n'.join(bad) or 'the ping is queued for the send loop'


REPLAYS['SocketTransportSink_mux._SendPingMessage'] = replay_send_ping


def replay_send_loop(w, rec):
  """A request whose deadline passed while it waited in the send queue is not written: the real send loop is run on
  a fake socket over a queue holding [live request, request whose timeout event fired while queued, live request]."""
  import gevent
  from gevent.queue import Queue
  from scales.constants import ChannelState
  from scales.observable import Observable
  from scales.sink import Deadline
  from scales.mux.sink import Tag
  from scales.thriftmux.sink import SocketTransportSink
  bad = []
  writes = []
  class Sock(object):
    def write(self, data):
      writes.append(data)
  class L(object):
    def __getattr__(self, n):
      return lambda *a, **k: None
  class Meas(object):
    def __enter__(self): return self
    def __exit__(self, *a): return False
  class VZ(object):
    def __getattr__(self, n):
      class M(object):
        def __call__(self, *a, **k): return None
        def Measure(self): return Meas()
      return M()
  s = SocketTransportSink.__new__(SocketTransportSink)
  s._socket = Sock()
  s._send_queue = Queue()
  s._state = ChannelState.Open
  s._log = L()
  s._varz = VZ()
  s._tag_map = {}
  released = []
  s._ReleaseTag = lambda tag: released.append(tag)
  s._OnTimeout = lambda tag: None
  shut = []
  s._Shutdown = lambda *a, **k: (shut.append(a), setattr(s, '_state', ChannelState.Closed))
  evs = [Observable(), Observable(), Observable()]
  frames = [b'FRAME-A', b'FRAME-B-EXPIRED-IN-QUEUE', b'FRAME-C']
  for i, (f, ev) in enumerate(zip(frames, evs)):
    s._send_queue.put((f, {Deadline.EVENT_KEY: ev, Tag.KEY: 10 + i}))
  evs[1].Set(True)          # B's caller has already been given TimeoutError; B is still queued
  g = gevent.spawn(s._SendLoop)
  for _ in range(20):
    gevent.sleep(0)
  g.kill(block=False)
  if shut:
    return False, 'send loop shut the transport down in the harness (%r): scenario not applicable' % (shut[0],)
  if frames[1] in writes:
    bad.append('a request whose deadline event fired while it waited in the send queue was written to the socket (%d bytes) after its caller had TimeoutError' % len(frames[1]))
  if frames[0] not in writes or frames[2] not in writes:
    bad.append('live requests were not written: %r' % (writes,))
  return bool(bad), '\n'.join(bad) or 'the send loop drops a request that expired in the queue and writes the live ones'


REPLAYS['MuxSocketTransportSink._SendLoop'] = replay_send_loop
