"""Replay of watermark-pool counterexamples on the real scales.pool.watermark code."""
import collections
import logging

import gevent

from scales.constants import ChannelState
from scales.pool import watermark as W
from scales.sink import ClientMessageSinkStack
from scales.message import MethodCallMessage, MethodReturnMessage
from scales.observable import Observable


class StubSink(object):
  def __init__(self, name, state=ChannelState.Open):
    self.name = name
    self.state = state
    self.closed = 0
    self.requests = []
    self.on_faulted = Observable()

  def Open(self):
    from scales.asynchronous import AsyncResult
    if self.state == ChannelState.Idle:
      self.state = ChannelState.Open
    return AsyncResult.Complete()

  def Close(self):
    self.closed += 1
    self.state = ChannelState.Closed

  def AsyncProcessRequest(self, sink_stack, msg, stream, headers):
    self.requests.append((sink_stack, msg))

  def __repr__(self):
    return self.name


class StubProvider(object):
  def __init__(self):
    self.created = []

  def CreateSink(self, props):
    s = StubSink('conn%d' % len(self.created), ChannelState.Idle)
    self.created.append(s)
    return s


class _Varz(object):
  def __getattr__(self, name):
    return lambda *a, **k: None


class Recorder(object):
  """bottom stack entry: records what the caller would see"""
  def __init__(self):
    self.got = []
  def AsyncProcessResponse(self, sink_stack, context, stream, msg):
    self.got.append(msg)


def make_pool(min_size=1, max_size=1, max_queue=10):
  pool = W.WatermarkPoolSink.__new__(W.WatermarkPoolSink)
  pool._cache = collections.deque()
  pool._waiters = collections.deque()
  pool._min_size, pool._max_size, pool._max_queue_size = min_size, max_size, max_queue
  pool._current_size = 0
  pool._state = ChannelState.Open
  pool._varz = _Varz()
  pool._log = logging.getLogger('replay')
  pool._properties = {}
  pool._sink_provider = StubProvider()
  pool._on_faulted = Observable()
  pool._next = None
  return pool


def _int(x, d=0):
  return x if isinstance(x, int) and not isinstance(x, bool) else d


def replay_dequeue(w, rec):
  """A cached connection that has died is discarded by _Dequeue: is it still counted?"""
  so = w['objects'].get(w['params']['self']['ref'], {})
  cache_w = so.get('_cache') or {}
  states = []
  for it in (cache_w.get('items') or [])[:_int(cache_w.get('len'), 0)]:
    st = _int(w['objects'].get(it['ref'], {}).get('state'), ChannelState.Closed) if isinstance(it, dict) and 'ref' in it else ChannelState.Closed
    states.append(st if st in (1, 2, 3, 4) else ChannelState.Closed)
  if not states:
    states = [ChannelState.Closed]
  pool = make_pool(1, max(1, len(states)), 10)
  for n, st in enumerate(states):
    pool._cache.append(StubSink('cached%d' % n, st))
  pool._current_size = len(states)
  text = ['pool with %d cached connection(s) in states %s, none lent, _current_size=%d, max=%d' % (len(states), states, pool._current_size, pool._max_size)]
  got = pool._Dequeue()
  existing = len(pool._cache) + (1 if got is not None else 0)
  text.append('_Dequeue() -> %r ; cache now %s ; _current_size=%d but %d connection(s) exist' % (got, list(pool._cache), pool._current_size, existing))
  bad = pool._current_size != existing
  if bad and pool._current_size >= pool._max_size and got is None:
    sink = pool._Get()
    text.append('the next request gets %s although no connection exists (capacity leaked)' % type(sink).__name__)
  return bad, '\n'.join(text)


def replay_process_queue(w, rec):
  """_ProcessQueue runs in its own greenlet after a release: the waiter it was spawned for may be gone."""
  text = []
  # (a) two releases in one scheduling round with a single waiter
  pool = make_pool(1, 2, 10)
  a, b = StubSink('connA'), StubSink('connB')
  pool._current_size = 2
  stack = ClientMessageSinkStack()
  r = Recorder()
  stack.Push(r, None)
  stack.Push(pool, W.QueuingMessageSink(pool._waiters))
  pool._waiters.append((stack, MethodCallMessage(None, 'm', (), {}), None, {}))
  errs = []
  for s in (a, b):
    try:
      pool._ProcessQueue(s)
    except Exception as e:
      errs.append('%s: %s' % (type(e).__name__, e))
  if errs:
    text.append('one waiter, two connections released in the same round: second _ProcessQueue raised %s; connB is neither cached nor closed, _current_size stays %d' % (errs, pool._current_size))
  # (b) the waiter timed out while queued (its stack has been drained)
  pool = make_pool(1, 1, 10)
  c = StubSink('connC')
  pool._current_size = 1
  stack = ClientMessageSinkStack()
  r = Recorder()
  stack.Push(r, None)
  stack.Push(pool, W.QueuingMessageSink(pool._waiters))
  pool._waiters.append((stack, MethodCallMessage(None, 'm', (), {}), None, {}))
  stack.AsyncProcessResponseMessage(MethodReturnMessage(error=Exception('timeout')))   # what the timeout sink does
  errs2 = []
  try:
    pool._ProcessQueue(c)
  except Exception as e:
    errs2.append('%s: %s' % (type(e).__name__, e))
  leaked = c not in pool._cache and c.closed == 0 and not c.requests
  if errs2 or leaked:
    text.append('waiter timed out while queued: _ProcessQueue raised %s; connection cached=%s closed=%s used=%s, _current_size=%d (capacity lost)' % (
      errs2, c in pool._cache, c.closed, bool(c.requests), pool._current_size))
  # (c) nobody is waiting and the pool is above its low watermark: the connection must be released through the
  #     pool's accounting (closed and un-counted), not retained
  objs = w.get('objects', {}) if isinstance(w, dict) else {}
  selfo = objs.get((w.get('params', {}).get('self') or {}).get('ref'), {}) if objs else {}
  lo = selfo.get('_min_size')
  lo = lo if isinstance(lo, int) and 0 <= lo <= 3 else 1
  for lo_ in sorted(set([lo, 0, 1])):
    pool = make_pool(lo_, lo_ + 2, 10)
    cached = [StubSink('cached%d' % k) for k in range(lo_)]
    for x in cached:
      pool._cache.append(x)
    d = StubSink('connD')
    pool._current_size = lo_ + 1
    try:
      pool._ProcessQueue(d)
    except Exception as e:
      text.append('no waiter, low watermark %d: _ProcessQueue raised %s: %s' % (lo_, type(e).__name__, e))
      continue
    open_now = [x for x in list(pool._cache) if not x.closed]
    if d in pool._cache and len(pool._cache) > lo_:
      text.append('no waiter, low watermark %d, %d connections existing: the released connection was retained (cache=%d, _current_size=%d) instead of being closed' % (
        lo_, lo_ + 1, len(pool._cache), pool._current_size))
    elif d not in pool._cache and not d.closed:
      text.append('no waiter, low watermark %d: the released connection is neither cached nor closed' % lo_)
    elif pool._current_size != len(pool._cache):
      text.append('no waiter, low watermark %d: _current_size=%d but %d connections exist' % (lo_, pool._current_size, len(pool._cache)))
  return bool(text), '\n'.join(text) if text else 'all scenarios handled: the connection is given to a live waiter or released'


def replay_get(w, rec):
  """Pool and queue full: the request must fail at once with a max-waiters error."""
  pool = make_pool(1, 1, 0)
  pool._current_size = 1
  sink = pool._Get()
  stack = ClientMessageSinkStack()
  r = Recorder()
  stack.Push(r, None)
  text = ['pool at max with a full waiter queue: _Get() returns %s' % type(sink).__name__]
  try:
    sink.AsyncProcessRequest(stack, None, None, {})
  except Exception as e:
    text.append('handing it the request raises %s: %s -- the caller is never answered' % (type(e).__name__, e))
    return True, '\n'.join(text)
  err = r.got[0].error if r.got else None
  text.append('caller receives %r' % (err,))
  return not isinstance(err, W.MaxWaitersError), '\n'.join(text)


REPLAYS = {
  'WatermarkPoolSink._Get': replay_get,
  'WatermarkPoolSink._Dequeue': replay_dequeue,
  'WatermarkPoolSink._ProcessQueue': replay_process_queue,
}
