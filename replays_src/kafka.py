"""Replay of Kafka framing counterexamples on the real code."""
from struct import pack


def replay_build_header(w, rec):
  from scales.kafka.sink import KafkaTransportSink
  p = w.get('params', {})
  tag = p.get('tag') if isinstance(p.get('tag'), int) else 7
  api = p.get('msg_type') if isinstance(p.get('msg_type'), int) else 0
  n = p.get('data_len') if isinstance(p.get('data_len'), int) else 10
  sink = KafkaTransportSink.__new__(KafkaTransportSink)
  want = pack('!ihhih6s', 2 + 2 + 4 + 2 + 6 + n, api, 0, tag, 6, b'scales')
  try:
    got = sink._BuildHeader(tag, api, n)
  except Exception as e:
    return True, '_BuildHeader(tag=%d, api=%d, len=%d) raises %s: %s -- no request can be sent' % (tag, api, n, type(e).__name__, e)
  return got != want, 'header %r, the protocol requires %r' % (got, want)


REPLAYS = {
  'KafkaTransportSink._BuildHeader': replay_build_header,
}


# --------------------------------------------------------------------------------------------------------------
import struct
from io import BytesIO


def _i(x, lo, hi, default):
  return x if isinstance(x, int) and not isinstance(x, bool) and lo <= x <= hi else default


def replay_produce_response(w, rec):
  """Encode a produce response independently (big-endian, signed fields), decode it with the real code."""
  from scales.kafka.protocol import KafkaProtocol
  caps = (w.get('captures') or w.get('params') or {}) if isinstance(w, dict) else {}
  cases = [(b'topic', 0, 0, 0), (b't', 3, -1, -1), (b'', 2 ** 31 - 1, 7, 2 ** 63 - 1), (b'xy', 1, -32768, -2 ** 63)]
  cases.append((b'w', _i(caps.get('g_part'), -2 ** 31, 2 ** 31 - 1, 1), _i(caps.get('g_err'), -2 ** 15, 2 ** 15 - 1, 0), _i(caps.get('g_off'), -2 ** 63, 2 ** 63 - 1, 5)))
  bad = []
  for topic, part, err, off in cases:
    for nparts in (1, 2):
      body = struct.pack('!i', 1) + struct.pack('!h', len(topic)) + topic + struct.pack('!i', nparts)
      for k in range(nparts):
        body += struct.pack('!ihq', part, err, off - k if off - k >= -2 ** 63 else off)
      try:
        msg = KafkaProtocol()._DeserializeProduceResponse(BytesIO(body))
        got = [(bytes(r.topic) if not isinstance(r.topic, str) else r.topic.encode(), r.partition, r.error, r.offset) for r in msg.return_value]
      except Exception as e:
        bad.append('response %r: decoder raised %s: %s' % ((topic, part, err, off), type(e).__name__, e))
        continue
      want = [(topic, part, err, off - k if off - k >= -2 ** 63 else off) for k in range(nparts)]
      if got != want:
        bad.append('broker encoded %r, client decoded %r' % (want, got))
  return bool(bad), '\n'.join(bad[:4]) or 'produce responses decode to what was encoded'


def replay_serializer_sink(w, rec):
  """Two requests through one KafkaSerializerSink: each hands the transport a stream holding exactly its own bytes."""
  from scales.kafka.sink import KafkaSerializerSink
  from scales.kafka.protocol import KafkaProtocol
  from scales.message import MethodCallMessage
  from scales.sink import ClientMessageSinkStack
  seen = []
  class Next(object):
    def AsyncProcessRequest(self, sink_stack, msg, stream, headers):
      seen.append((stream, stream.getvalue(), stream.tell()))
  class Prov(object):
    def CreateSink(self, props):
      return Next()
  sink = KafkaSerializerSink(Prov(), None, {})
  from scales.constants import MessageProperties
  class Ep(object):
    partition_id = 3
  def mk(method, args, kwargs):
    m = MethodCallMessage(None, method, args, kwargs)
    m.properties[MessageProperties.Endpoint] = Ep()
    return m
  reqs = [('Put', (b'topic-one', [b'a-rather-long-payload-for-the-first-request'] * 3), {}), ('Put', (b't', [b'x']), {})]
  bad = []
  for method, args, kwargs in reqs:
    msg = mk(method, args, kwargs)
    st = ClientMessageSinkStack()
    try:
      sink.AsyncProcessRequest(st, msg, None, {})
    except Exception as e:
      return False, 'request could not be serialized in this harness: %s: %s' % (type(e).__name__, e)
  if len(seen) != 2:
    return False, 'serializer did not forward both requests (%d forwarded)' % len(seen)
  (s1, v1, t1), (s2, v2, t2) = seen
  ref = BytesIO()
  KafkaProtocol().SerializeMessage(mk(*reqs[1]), ref, {})
  if v2 != ref.getvalue():
    bad.append('second (shorter) request: the stream handed to the transport holds %d bytes, its own serialization is %d bytes -- %d stale bytes of the previous request follow the frame' % (
      len(v2), len(ref.getvalue()), len(v2) - len(ref.getvalue())))
  if s1 is s2:
    bad.append('both requests were handed the same buffer object')
  return bool(bad), '\n'.join(bad) or 'each request is forwarded in a buffer of its own holding exactly its bytes'


REPLAYS.update({
  'KafkaProtocol._DeserializeProduceResponse': replay_produce_response,
  'KafkaSerializerSink.AsyncProcessRequest': replay_serializer_sink,
})
