"""Replay of Kafka framing counterexamples on the real code."""
from struct import pack


def replay_build_header(w, rec):
  from scales.kafka.sink import KafkaTransportSink
  p = w.get('params', {})
  tag = p.get('tag') if isinstance(p.get('tag'), int) else 7
  api = p.get('msg_type') if isinstance(p.get('msg_type'), int) else 0
  n = p.get('data_len') if isinstance(p.get('data_len'), int) else 10
  sink = KafkaTransportSink.__new__(KafkaTransportSink)
  want = pack('!ihhih6s', 2 + 2 + 4 + 2 + 6 + n, api, 0, tag, 6, b'scales')
  try:
    got = sink._BuildHeader(tag, api, n)
  except Exception as e:
    return True, '_BuildHeader(tag=%d, api=%d, len=%d) raises %s: %s -- no request can be sent' % (tag, api, n, type(e).__name__, e)
  return got != want, 'header %r, the protocol requires %r' % (got, want)


REPLAYS = {
  'KafkaTransportSink._BuildHeader': replay_build_header,
}
