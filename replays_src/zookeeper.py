"""Replay of server-set counterexamples on the real scales.loadbalancer.zookeeper code."""
import logging

from scales.loadbalancer import zookeeper as Z


def make_serverset(members, on_leave, on_join=None):
  ss = Z.ServerSet.__new__(Z.ServerSet)
  ss._log = logging.getLogger('replay')
  ss._members = dict(members)
  ss._nodes = set(members)
  ss._on_leave = on_leave
  ss._on_join = on_join or (lambda m: None)
  ss._watching = True
  ss._member_filter = lambda n: True
  return ss


def replay_send_all_removed(w, rec):
  text = []
  bad = False
  # (a) two announced members, the watched path is deleted
  left = []
  ss = make_serverset({'member_1': 'A', 'member_2': 'B'}, left.append)
  try:
    ss._send_all_removed()
  except Exception as e:
    text.append('parent deleted with 2 members: %s: %s' % (type(e).__name__, e))
    bad = True
  if sorted(left) != ['A', 'B'] or ss._members:
    text.append('leaves delivered: %r ; members still held: %r' % (left, sorted(ss._members)))
    bad = True
  # (b) a consumer callback that raises must not stop the rest
  left = []
  def cb(m):
    left.append(m)
    raise ValueError('consumer bug')
  ss = make_serverset({'member_1': 'A', 'member_2': 'B'}, cb)
  try:
    ss._send_all_removed()
  except Exception as e:
    text.append('raising callback: %s escapes after %d of 2 leaves' % (type(e).__name__, len(left)))
    bad = True
  # (c) members re-created under a re-created path are announced again
  joined = []
  ss = make_serverset({'member_1': 'A'}, lambda m: None)
  try:
    ss._send_all_removed()
  except Exception:
    pass
  class Q(object):
    def __init__(self): self.items = []
    def put(self, x): self.items.append(x)
  ss._notification_queue = Q()
  ss._on_set_changed(['member_1'])
  new_nodes = ss._notification_queue.items[-1][0] if ss._notification_queue.items else set()
  if 'member_1' not in new_nodes:
    text.append('after delete + re-create of the path, child member_1 is not reported as new (joined=%r): never announced again' % (sorted(new_nodes),))
    bad = True
  return bad, '\n'.join(text) if text else 'all members leave once, nothing left behind, re-created members announced'


REPLAYS = {
  'ServerSet._send_all_removed': replay_send_all_removed,
}
