"""Replay of server-set counterexamples on the real scales.loadbalancer.zookeeper code."""
import logging

from scales.loadbalancer import zookeeper as Z


def make_serverset(members, on_leave, on_join=None):
  ss = Z.ServerSet.__new__(Z.ServerSet)
  ss._log = logging.getLogger('replay')
  ss._members = dict(members)
  ss._nodes = set(members)
  ss._on_leave = on_leave
  ss._on_join = on_join or (lambda m: None)
  ss._watching = True
  ss._member_filter = lambda n: True
  return ss


def replay_send_all_removed(w, rec):
  text = []
  bad = False
  # (a) two announced members, the watched path is deleted
  left = []
  ss = make_serverset({'member_1': 'A', 'member_2': 'B'}, left.append)
  try:
    ss._send_all_removed()
  except Exception as e:
    text.append('parent deleted with 2 members: %s: %s' % (type(e).__name__, e))
    bad = True
  if sorted(left) != ['A', 'B'] or ss._members:
    text.append('leaves delivered: %r ; members still held: %r' % (left, sorted(ss._members)))
    bad = True
  # (b) a consumer callback that raises must not stop the rest
  left = []
  def cb(m):
    left.append(m)
    raise ValueError('consumer bug')
  ss = make_serverset({'member_1': 'A', 'member_2': 'B'}, cb)
  try:
    ss._send_all_removed()
  except Exception as e:
    text.append('raising callback: %s escapes after %d of 2 leaves' % (type(e).__name__, len(left)))
    bad = True
  # (c) members re-created under a re-created path are announced again
  joined = []
  ss = make_serverset({'member_1': 'A'}, lambda m: None)
  try:
    ss._send_all_removed()
  except Exception:
    pass
  class Q(object):
    def __init__(self): self.items = []
    def put(self, x): self.items.append(x)
  ss._notification_queue = Q()
  ss._on_set_changed(['member_1'])
  new_nodes = ss._notification_queue.items[-1][0] if ss._notification_queue.items else set()
  if 'member_1' not in new_nodes:
    text.append('after delete + re-create of the path, child member_1 is not reported as new (joined=%r): never announced again' % (sorted(new_nodes),))
    bad = True
  return bad, '\n'.join(text) if text else 'all members leave once, nothing left behind, re-created members announced'


REPLAYS = {
  'ServerSet._send_all_removed': replay_send_all_removed,
}


# --------------------------------------------------------------------------------------------------------------
def replay_worker(w, rec):
  """The real notification worker and children callback on scripted histories: after the dust settles the consumer
  holds exactly the members present, nobody leaves twice, and a raising callback loses nothing."""
  import gevent
  from gevent.queue import Queue
  from gevent.event import Event
  from kazoo.exceptions import NoNodeError
  from scales.loadbalancer import zookeeper as Z

  class M(object):
    def __init__(self, name):
      self.name = name

  def mk(raise_on_join=(), slow_read=()):
    ss = Z.ServerSet.__new__(Z.ServerSet)
    log = []
    present = set()
    held = {}
    def on_join(m):
      log.append(('join', m.name))
      if m.name in raise_on_join:
        raise RuntimeError('consumer bug')
      held[m.name] = held.get(m.name, 0) + 1
    def on_leave(m):
      log.append(('leave', m.name))
      held[m.name] = held.get(m.name, 0) - 1
    gates = dict((n, Event()) for n in slow_read)
    def factory(node, data):
      return M(node)
    def get_info(node):
      if node in gates:
        gates[node].wait()
      if node not in present:
        raise NoNodeError()
      return b'{}'
    class _L(object):
      def __getattr__(self, n):
        return lambda *a, **k: None
    ss._log = _L()
    ss._zk_path = '/p'; ss._zk = None
    ss._nodes = set(); ss._members = {}
    ss._on_join = on_join; ss._on_leave = on_leave
    ss._notification_queue = Queue(0)
    ss._watching = True
    ss._cb_blocker = Z.ServerSet._CallbackBlocker()
    ss._member_filter = lambda n: True
    ss._member_factory = factory
    ss._get_info = get_info
    ss._running = True
    ss._worker = gevent.spawn(ss._notification_worker)
    return ss, log, present, held, gates

  def settle():
    for _ in range(20):
      gevent.sleep(0)

  bad = []
  # (1) a join callback raises for b; later b is deleted: its leave must still be delivered
  ss, log, present, held, gates = mk(raise_on_join=('b',))
  present.update(['a', 'b', 'c']); ss._on_set_changed(sorted(present)); settle()
  present.discard('b'); ss._on_set_changed(sorted(present)); settle()
  if ('leave', 'b') not in log:
    bad.append('join callback raised for b, then b was deleted: no leave for b was delivered (log %r)' % (log,))
  # (2) a child deleted while its batch is still being read: join then leave, or neither -- never a join without the leave
  ss, log, present, held, gates = mk(slow_read=('a',))
  present.update(['a', 'b']); ss._on_set_changed(sorted(present)); settle()          # worker parked reading a
  present.discard('a'); ss._on_set_changed(sorted(present)); settle()                 # a deleted meanwhile
  gates['a'].set(); settle()
  finally_held = sorted(n for n, c in held.items() if c > 0)
  if finally_held != sorted(present):
    bad.append('child deleted while its join was in progress: consumer ends holding %r, present are %r (log %r)' % (finally_held, sorted(present), log))
  # (3) the watched path is deleted while the worker is parked in a read: nobody leaves twice
  ss, log, present, held, gates = mk(slow_read=('c',))
  present.update(['a', 'b']); ss._on_set_changed(sorted(present)); settle()
  present.discard('b'); present.add('c'); ss._on_set_changed(sorted(present)); settle()   # one item: new c, removed b; parked reading c
  present.clear(); ss._send_all_removed(); settle()
  gates['c'].set(); settle()
  leaves = [n for k, n in log if k == 'leave']
  twice = sorted(set(n for n in leaves if leaves.count(n) > 1))
  if twice:
    bad.append('path deleted while the worker was reading: %r reported as leaving twice (log %r)' % (twice, log))
  for s_ in (ss,):
    try:
      s_._worker.kill(block=False)
    except Exception:
      pass
  return bool(bad), '\n'.join(bad) or 'consumer view consistent on the scripted histories'


REPLAYS['ServerSet._notification_worker'] = replay_worker
REPLAYS['ServerSet._on_set_changed'] = replay_worker
