"""Replay for scales/core.py units: string-valued witnesses are opaque in the model, so the real functions are
run on a fixed family of inputs and compared against the contract's reading of them."""
from scales import core


class _AR(object):
  def __init__(self, v):
    self.v = v
  def get(self):
    return self.v


class _Disp(object):
  def __init__(self):
    self.calls = []
  def DispatchMethodCall(self, method, args, kwargs, timeout=None):
    self.calls.append((method, args, kwargs))
    return _AR(('value', method))


def replay_proxy(w, rec):
  class Base(object):
    def inherited(self, x): pass
  class Iface(Base):
    def Foo(self, a, b=1): pass
    def _bar(self, *a, **k): pass
    def acquire(self, name, timeout=None): pass
  cls = core.ClientProxyBuilder._BuildServiceProxy(Iface)
  bad = []
  for name in ('Foo', '_bar', 'inherited', 'acquire'):
    for suffix in ('', '_async'):
      if not hasattr(cls, name + suffix) or getattr(cls, name + suffix) is getattr(Iface, name + suffix, None):
        bad.append('generated client has no proxy for %s%s' % (name, suffix))
  if bad:
    return True, '\n'.join(bad)
  for name in ('Foo', '_bar', 'inherited', 'acquire'):
    for args, kwargs in (((), {}), ((1, 'x'), {}), ((1,), {'b': [2]}), ((), {'k': None}), (('a',), {'timeout': 30})):
      for suffix in ('', '_async'):
        obj = cls.__new__(cls)
        obj._dispatcher = d = _Disp()
        r = getattr(obj, name + suffix)(*args, **kwargs)
        if d.calls != [(name, args, kwargs)]:
          bad.append('%s%s%r%r: dispatcher saw %r' % (name, suffix, args, kwargs, d.calls))
        elif suffix and not isinstance(r, _AR):
          bad.append('%s_async returned %r, not the pending result' % (name, r))
        elif not suffix and r != ('value', name):
          bad.append('%s returned %r, not the call value' % (name, r))
  return bool(bad), '\n'.join(bad) or 'all forwarded calls match'


def _endpoints(p):
  return [(s.service_endpoint.host, s.service_endpoint.port) for s in p._servers]


def replay_tcp(w, rec):
  bad = []
  # one parser used for several URIs, and a URI naming an endpoint twice: exactly the listed endpoints, in order
  p = core.ScalesUriParser()
  for uri, want in (('tcp://a:1,b:2', [('a', 1), ('b', 2)]), ('tcp://c:3', [('c', 3)]), ('tcp://a:1,b:2,a:1', [('a', 1), ('b', 2), ('a', 1)])):
    try:
      got = _endpoints(p.Parse(uri))
    except Exception as e:
      got = 'raised %r' % (e,)
    if got != want:
      bad.append('%s (parser reused) -> %r, expected %r' % (uri, got, want))
  for n in range(1, 6):
    want = [('h%d.example' % k, 1000 + 7 * k) for k in range(n)]
    uri = 'tcp://' + ','.join('%s:%d' % e for e in want)
    for u in (uri, uri.replace('tcp', 'TCP')):
      try:
        got = _endpoints(core.ScalesUriParser().Parse(u))
      except Exception as e:
        got = 'raised %r' % (e,)
      if got != want:
        bad.append('%s -> %r, expected %r' % (u, got, want))
  return bool(bad), '\n'.join(bad) or 'tcp endpoints match'


def replay_parse(w, rec):
  c, text = replay_tcp(w, rec)
  bad = [text] if c else []
  for u in ('http://a:1', 'tcpx://a:1', '://a:1', 'zkk://h/p'):
    try:
      r = core.ScalesUriParser().Parse(u)
      bad.append('%s accepted: %r' % (u, r))
    except Exception:
      pass
  made = []
  real = core.ZooKeeperServerSetProvider
  core.ZooKeeperServerSetProvider = lambda hosts, path, **kw: made.append((hosts, path, kw)) or 'zkprov'
  try:
    for u, want in (('zk://z1:2181,z2:2181/some/path', ('z1:2181,z2:2181', '/some/path', {'endpoint_name': None})),
                    ('ZK://z1:2181/p#ep', ('z1:2181', '/p', {'endpoint_name': 'ep'}))):
      del made[:]
      try:
        core.ScalesUriParser().Parse(u)
      except Exception as e:
        made.append('raised %r' % (e,))
      if made != [want]:
        bad.append('%s -> %r, expected %r' % (u, made, want))
  finally:
    core.ZooKeeperServerSetProvider = real
  return bool(bad), '\n'.join(bad) or 'parse results match'


REPLAYS = {
  'ClientProxyBuilder._BuildServiceProxy.ProxyMethod._ProxyMethod': replay_proxy,
  'ScalesUriParser._HandleTcp': replay_tcp,
  'ScalesUriParser._HandleZooKeeper': replay_parse,
  'ScalesUriParser.Parse': replay_parse,
  'ScalesUriParser.__init__': replay_parse,
}
