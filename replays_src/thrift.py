"""Replay of serial-transport counterexamples on the real scales.thrift.sink code."""
import gevent

from scales.constants import ChannelState
from scales.message import MethodReturnMessage, TimeoutError as ScalesTimeout
from scales.sink import ClientMessageSinkStack
from scales.thrift import sink as T


class FakeSocket(object):
  host, port = 'h', 1

  def __init__(self):
    self._open = True
    self.opens = 0
    self.writes = []
    self.fail_open = False
    self.write_raises = None

  def isOpen(self):
    return self._open

  def open(self):
    self.opens += 1
    if self.fail_open:
      raise IOError('connection refused')
    self._open = True

  def close(self):
    self._open = False

  def write(self, data):
    if self.write_raises is not None:
      raise self.write_raises
    self.writes.append(data)

  def readAll(self, n):
    raise EOFError()


class Recorder(object):
  def __init__(self):
    self.got = []
  def AsyncProcessResponse(self, sink_stack, context, stream, msg):
    self.got.append(msg)


class _Varz(object):
  def __getattr__(self, name):
    class M(object):
      def __call__(self, *a, **k): pass
      def Measure(self):
        import contextlib
        return contextlib.nullcontext()
    return M()


def make_sink(sock):
  s = T.SocketTransportSink.__new__(T.SocketTransportSink)
  from scales.observable import Observable
  s._on_faulted = Observable()
  s._next = None
  s._socket = sock
  s._state = ChannelState.Open
  s._varz = _Varz()
  class _G(object):
    def kill(self, block=True):
      pass
  s._processing = _G()
  s._open_result = None
  return s


def replay_transaction(w, rec):
  text, bad = [], False
  # (a) the request times out in flight and the re-connect after the timeout fails
  sock = FakeSocket()
  sock.write_raises = gevent.Timeout()
  sock.fail_open = True
  sink = make_sink(sock)
  stack = ClientMessageSinkStack(); r = Recorder(); stack.Push(r, None)
  try:
    sink._AsyncProcessTransaction(b'data', stack, None)
  except BaseException as e:
    text.append('timeout in flight, then reconnect refused: %s escapes the transaction; caller got %d message(s); _processing is %s; state reads %s' % (
      type(e).__name__, len(r.got), 'still set' if sink._processing is not None else 'None', sink.state))
    bad = True
  else:
    if sink._processing is not None or len(r.got) != 1 or (sink.state != ChannelState.Closed and not sock.isOpen()):
      text.append('after failed reconnect: _processing=%r, messages=%d, state=%s' % (sink._processing, len(r.got), sink.state)); bad = True
  # (b) the deadline is reached exactly when the transaction starts: the caller may already hold TimeoutError
  sock = FakeSocket()
  sink = make_sink(sock)
  stack = ClientMessageSinkStack(); r = Recorder(); stack.Push(r, None)
  stack.AsyncProcessResponseMessage(MethodReturnMessage(error=ScalesTimeout()))     # timer fired at its deadline: caller has TimeoutError
  real_time = T.time.time
  class _Tm(object):
    @staticmethod
    def time():
      return 100.0
  T.time = _Tm
  try:
    try:
      sink._AsyncProcessTransaction(b'request-bytes', stack, 100.0)
    except BaseException as e:
      pass
  finally:
    import time as _t
    T.time = _t
  if sock.writes:
    text.append('clock == deadline (TimeoutError already delivered): the transport still wrote %r to the connection' % (sock.writes[0],))
    bad = True
  # (c) the reply arrives in small segments: the outcome must not depend on how the bytes are split across reads
  import gevent as _g
  for first in (1, 2, 3, 4, 6):
    payload = b'hello-reply'
    wire = __import__('struct').pack('!i', len(payload)) + payload
    class SegSock(FakeSocket):
      def __init__(self):
        FakeSocket.__init__(self)
        self.buf = wire
        self.first = first
      def read(self, n):            # one segment per call: never more than what has "arrived"
        k = min(n, self.first if self.first else 5)
        self.first = 0
        out, self.buf = self.buf[:k], self.buf[k:]
        return out
      def readAll(self, n):
        out = b''
        while len(out) < n:
          chunk = self.read(n - len(out))
          if not chunk:
            raise EOFError()
          out += chunk
        return out
    sock = SegSock()
    sink = make_sink(sock)
    got_stream = []
    class Rec2(object):
      def AsyncProcessResponse(self, sink_stack, context, stream, msg):
        got_stream.append((stream.getvalue() if stream is not None else None, msg))
    stack = ClientMessageSinkStack(); stack.Push(Rec2(), None)
    try:
      sink._AsyncProcessTransaction(b'request', stack, None)
      _g.sleep(0); _g.sleep(0)
    except BaseException as e:
      text.append('reply split after %d byte(s): %s escapes' % (first, type(e).__name__)); bad = True
      continue
    if len(got_stream) != 1 or got_stream[0][0] != payload:
      what = got_stream[0] if got_stream else None
      text.append('reply split after %d byte(s): caller received %r instead of the %d-byte reply' % (
        first, (what[0], getattr(what[1], 'error', None)) if what else None, len(payload)))
      bad = True
  # (d) a peer that goes silent at some point of the exchange, request with a deadline: the request must be failed
  #     (once) and the connection recycled, wherever the silence starts
  import time as _time
  for where in ('before the header', 'after the header'):
    class SilentSock(FakeSocket):
      def __init__(self):
        FakeSocket.__init__(self)
        self.reads = 0
      def readAll(self, n):
        self.reads += 1
        if where == 'after the header' and self.reads == 1:
          return __import__('struct').pack('!i', 16)
        _g.sleep(5)                 # silence: only the deadline timer can end this
        raise EOFError()
    sock = SilentSock()
    sink = make_sink(sock)
    stack = ClientMessageSinkStack(); r = Recorder(); stack.Push(r, None)
    gl = _g.spawn(sink._AsyncProcessTransaction, b'request', stack, _time.time() + 0.05)
    gl.join(0.6)
    done = gl.ready()
    if not done:
      gl.kill(block=False)
    if not done or len(r.got) != 1 or sink._processing is not None:
      text.append('peer silent %s (deadline 50 ms): request failed %d time(s) after 600 ms, slot %s, connection %s' % (
        where, len(r.got), 'still occupied' if sink._processing is not None else 'free', 'recycled' if sock.opens else 'not recycled'))
      bad = True
  return bad, '\n'.join(text) if text else 'reconnect failure faults the transport; nothing written at the deadline; reply independent of segmentation'


REPLAYS = {
  'SocketTransportSink._AsyncProcessTransaction': replay_transaction,
}


def replay_deserialize(w, rec):
  """A void method's reply (an empty result struct) must map to return value None and no error."""
  import sys, types
  from thrift.protocol.TBinaryProtocol import TBinaryProtocolFactory
  from thrift.transport.TTransport import TMemoryBuffer
  from thrift.Thrift import TMessageType, TType
  from scales.compat import BytesIO
  from scales.thrift.serializer import MessageSerializer
  mod = types.ModuleType('replay_void_service')
  class Iface(object):
    def ping(self): pass
  Iface.__module__ = 'replay_void_service'
  class ping_args(object):
    thrift_spec = ()
    def write(self, oprot):
      oprot.writeStructBegin('ping_args'); oprot.writeFieldStop(); oprot.writeStructEnd()
  class ping_result(object):
    thrift_spec = ()
    def read(self, iprot):
      iprot.readStructBegin()
      while True:
        (fname, ftype, fid) = iprot.readFieldBegin()
        if ftype == TType.STOP:
          break
        iprot.skip(ftype)
        iprot.readFieldEnd()
      iprot.readStructEnd()
  mod.Iface, mod.ping_args, mod.ping_result = Iface, ping_args, ping_result
  sys.modules['replay_void_service'] = mod
  ser = MessageSerializer(Iface, TBinaryProtocolFactory())
  tb = TMemoryBuffer()
  p = TBinaryProtocolFactory().getProtocol(tb)
  p.writeMessageBegin('ping', TMessageType.REPLY, 0)
  p.writeStructBegin('ping_result'); p.writeFieldStop(); p.writeStructEnd()
  p.writeMessageEnd()
  reply = tb.getvalue()
  msg = ser.DeserializeThriftCall(BytesIO(reply))
  text = 'reply of void method ping() (empty result struct): return_value=%r error=%r' % (msg.return_value, msg.error)
  return (msg.return_value is not None or msg.error is not None), text


REPLAYS['MessageSerializer.DeserializeThriftCall'] = replay_deserialize


def replay_socket_open(w, rec):
  """ScalesSocket.open on the real class with the connect of gevent's socket scripted: refused on every candidate
  address, refused on the first only, and accepted.  A socket whose open() raised must not report itself open."""
  import socket as _socket
  from scales import scales_socket as SS
  from scales.varz import VarzSocketWrapper
  bad = []
  made = []
  class FakeG(object):
    script = []
    def __init__(self, family, kind):
      self.closed = False
      self.connected = False
      made.append(self)
    def connect(self, addr):
      ok = FakeG.script.pop(0)
      if not ok:
        raise _socket.error(111, 'Connection refused')
      self.connected = True
    def close(self):
      self.closed = True
      self.connected = False
    def setsockopt(self, *a):
      pass
  saved = SS.gsocket
  SS.gsocket = FakeG
  try:
    for desc, naddr, script, expect_open in (('refused on the only address', 1, [False], False), ('refused on both addresses', 2, [False, False], False),
                                             ('refused on the first address, accepted on the second', 2, [False, True], True), ('accepted', 1, [True], True)):
      del made[:]
      FakeG.script = list(script)
      s = SS.ScalesSocket('h', 1)
      s._resolveAddr = lambda n=naddr: [(2, 1, 6, '', ('10.0.0.%d' % i, 1)) for i in range(n)]
      raised = False
      try:
        s.open()
      except _socket.error:
        raised = True
      if raised == expect_open:
        bad.append('%s: open() %s' % (desc, 'raised' if raised else 'did not raise'))
      if raised and s.isOpen():
        bad.append('%s: open() raised but isOpen() is True (an unconnected handle is kept): the transport keeps reporting itself open' % desc)
      if not raised and not (s.handle is not None and s.handle.connected and not s.handle.closed):
        bad.append('%s: open() returned but the handle is not a connected socket' % desc)
      leaked = [g for g in made if g is not s.handle and not g.closed]
      if leaked:
        bad.append('%s: %d socket(s) of failed attempts were never closed' % (desc, len(leaked)))
      # through the wrapper the library puts around it
      del made[:]
      FakeG.script = list(script)
      s2 = SS.ScalesSocket('h', 1)
      s2._resolveAddr = lambda n=naddr: [(2, 1, 6, '', ('10.0.0.%d' % i, 1)) for i in range(n)]
      wr = VarzSocketWrapper(s2, 'replay')
      try:
        wr.open()
      except _socket.error:
        wr.close()
        if wr.isOpen():
          bad.append('%s: wrapped socket still reports open after a failed open() and close()' % desc)
      else:
        if not wr.isOpen():
          bad.append('%s: wrapped socket reports closed after a successful open()' % desc)
        inner = s2.handle
        wr.close()
        if wr.isOpen() or s2.handle is not None or (inner is not None and not inner.closed):
          bad.append('%s: close() of the wrapper left the inner socket open (the transport would go on reporting Open after Close())' % desc)
  finally:
    SS.gsocket = saved
  return bool(bad), '\n'.join(bad) or 'a failed open leaves the socket closed; a successful one holds a connected handle'


for _u in ('ScalesSocket.open', 'ScalesSocket.close', 'VarzSocketWrapper.open', 'VarzSocketWrapper.close', 'VarzSocketWrapper.__init__'):
  REPLAYS[_u] = replay_socket_open
