"""Replay of combinator counterexamples on the real scales.asynchronous code."""
import itertools

import gevent

from scales.asynchronous import AsyncResult


class Boom(Exception):
  pass


def _when_any_scenarios(max_n=3):
  """(outcomes, completion order, already complete at call time)"""
  for n in range(1, max_n + 1):
    for outcomes in itertools.product((True, False), repeat=n):
      for order in itertools.permutations(range(n)):
        for pre in range(0, n + 1):          # the first 'pre' of the order are complete before the call
          yield outcomes, order, pre


def _complete(ar, i, ok):
  if ok:
    ar.set('v%d' % i)
  else:
    ar.set_exception(Boom('e%d' % i))


def _check_when_any(outcomes, order, pre):
  n = len(outcomes)
  ars = [AsyncResult() for _ in range(n)]
  for i in order[:pre]:
    _complete(ars[i], i, outcomes[i])
  gevent.sleep(0)
  ret = AsyncResult.WhenAny(ars)
  gevent.sleep(0)      # links of inputs that are already complete run on the next hub turn
  first_ok = None
  last_fail = None
  done = set(order[:pre])
  for i in order[:pre]:
    if outcomes[i] and first_ok is None:
      first_ok = i
  problems = []
  def check(step):
    any_ok = [i for i in done if outcomes[i]]
    if any_ok:
      if not ret.ready() or ret.exception is not None:
        problems.append('%s: an input has succeeded but the result is %s' % (step, 'pending' if not ret.ready() else 'failed with %r' % (ret.exception,)))
      else:
        # inputs already complete at call time have no observable order among themselves
        pre_ok = [i for i in order[:pre] if outcomes[i]]
        allowed = ['v%d' % i for i in pre_ok] if pre_ok else ['v%d' % first_ok]
        if ret.value not in allowed:
          problems.append('%s: result value %r is not the first success (%s)' % (step, ret.value, ' / '.join(allowed)))
    elif len(done) == n:
      if not ret.ready() or ret.exception is None:
        problems.append('%s: every input failed but the result is not failed' % step)
    else:
      if ret.ready():
        problems.append('%s: resolved (%s) although no input has succeeded and %d are still pending' % (
          step, 'failed' if ret.exception is not None else 'value', n - len(done)))
  check('at call time')
  for i in order[pre:]:
    _complete(ars[i], i, outcomes[i])
    gevent.sleep(0)
    done.add(i)
    if outcomes[i] and first_ok is None:
      first_ok = i
    check('after input %d %s' % (i, 'succeeds' if outcomes[i] else 'fails'))
  return problems


def replay_when_any(w, rec):
  """The solver's model fixes the shape (a late failure after a success / a failed input already
  complete at call time); the smallest concrete history with that shape is searched for."""
  for outcomes, order, pre in _when_any_scenarios():
    probs = _check_when_any(outcomes, order, pre)
    if probs:
      return True, ('WhenAny over %d inputs, outcomes %s, completion order %s, %d complete before the call:\n  ' % (
        len(outcomes), ['ok' if o else 'fail' for o in outcomes], list(order), pre)) + '\n  '.join(probs)
  return False, 'no history of up to 3 inputs violates the statement'


REPLAYS = {
  'AsyncResult.WhenAny.complete': replay_when_any,
  'AsyncResult.WhenAny': replay_when_any,
}
