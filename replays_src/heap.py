"""Replay of heap-balancer counterexamples on the real scales.loadbalancer.heap code."""
import logging
import random

from scales.constants import ChannelState
from scales.loadbalancer import heap as H

Node = H.HeapBalancerSink.Node


class StubChannel(object):
  def __init__(self, state):
    self.state = state
    self.closed = 0
    self.requests = 0

  def Close(self):
    self.closed += 1
    self.state = ChannelState.Closed

  def Open(self):
    from scales.asynchronous import AsyncResult
    return AsyncResult.Complete()

  def AsyncProcessRequest(self, sink_stack, msg, stream, headers):
    self.requests += 1

  @property
  def is_open(self):
    return self.state <= ChannelState.Busy

  @property
  def is_closed(self):
    return self.state == ChannelState.Closed


class _Varz(object):
  def __getattr__(self, name):
    return lambda *a, **k: None


def _int(x, default=0):
  return x if isinstance(x, int) and not isinstance(x, bool) else default


def build_balancer(w, cls=None):
  """Real HeapBalancerSink whose _heap/_size/_downq are the witness's entry state."""
  cls = cls or H.HeapBalancerSink
  objs = w['objects']
  selfo = objs[w['params']['self']['ref']]
  nodes = {}
  def node_of(ref):
    if ref is None:
      return None
    key = ref['ref']
    if key in nodes:
      return nodes[key]
    o = objs.get(key, {})
    ch = o.get('channel')
    state = ChannelState.Open
    if isinstance(ch, dict) and 'ref' in ch:
      state = _int(objs.get(ch['ref'], {}).get('state'), ChannelState.Open)
      if state not in (1, 2, 3, 4):
        state = ChannelState.Open
    n = Node(StubChannel(state), _int(o.get('load'), H.HeapBalancerSink.Idle), _int(o.get('index'), -1), key)
    nodes[key] = n
    return n
  heap_w = selfo['_heap']
  heap = [node_of(it) for it in heap_w['items'][:heap_w['len']]]
  members = set(id(n) for n in heap)
  # down-list pointers: keep only pointers between nodes of this heap (the rest of the model is junk)
  for key, n in list(nodes.items()):
    d = objs.get(key, {}).get('downq')
    tgt = nodes.get(d['ref']) if isinstance(d, dict) and d.get('ref') in nodes else None
    n.downq = tgt if (tgt is not None and objs.get(key, {}).get('g_inq')) else None
  sink = cls.__new__(cls)
  sink._heap = heap
  sink._size = _int(selfo.get('_size'), len(heap) - 1)
  dq = selfo.get('_downq')
  sink._downq = nodes.get(dq['ref']) if isinstance(dq, dict) and dq.get('ref') in nodes else None
  sink._heap_lock = H.RLock()
  sink._log = logging.getLogger('replay')
  sink._open = False
  sink._no_members = StubChannel(ChannelState.Open)
  sink._HeapBalancerSink__varz = _Varz()
  sink._servers = {}
  return sink, nodes, node_of


def heap_violations(sink):
  """Violations of the structural invariant on the real object (shape, bijection, order)."""
  out = []
  heap, size = sink._heap, sink._size
  if len(heap) != size + 1:
    out.append('len(_heap)=%d but _size=%d' % (len(heap), size))
  for k in range(1, len(heap)):
    if heap[k].index != k:
      out.append('heap[%d].index == %d' % (k, heap[k].index))
  for c in range(2, min(size, len(heap) - 1) + 1):
    if heap[c] < heap[c // 2]:
      out.append('order: heap[%d] (load %d) < parent heap[%d] (load %d)' % (c, heap[c].load, c // 2, heap[c // 2].load))
  return out


def describe(sink):
  return '[' + ', '.join('%d:%s(load=%d,idx=%d)' % (k, n.endpoint, n.load, n.index) for k, n in enumerate(sink._heap)) + ']'


class _Choices(object):
  """Feeds the model's random draws to the real code (falls back to the real RNG)."""
  def __init__(self, w):
    self.vals = [c['value'] for c in w.get('choices', []) if c.get('extern') == 'random.randint']
    self.real = random.randint

  def __call__(self, a, b):
    while self.vals:
      v = self.vals.pop(0)
      if isinstance(v, int) and a <= v <= b:
        return v
    return self.real(a, b)


def _run_and_check(w, rec, call):
  """The model's random draw first, then every other outcome of randint (the property
  quantifies over all outcomes of the balancer's random choices)."""
  ok, text = _run_once(w, rec, call, None)
  if ok:
    return ok, text
  size = len((w['objects'][w['params']['self']['ref']]['_heap'] or {}).get('items', [])) - 1
  for j in range(1, max(size, 1) + 1):
    ok2, text2 = _run_once(w, rec, call, j)
    if ok2:
      return True, text + '\n-- with random.randint forced to %d:\n' % j + text2
  return False, text


def _run_once(w, rec, call, forced):
  sink, nodes, node_of = build_balancer(w)
  pre = heap_violations(sink)
  text = ['entry heap: ' + describe(sink)]
  if pre:
    return False, '\n'.join(text + ['entry state violates the invariant itself (spurious model): %s' % pre])
  old = random.randint
  random.randint = _Choices(w) if forced is None else (lambda a, b: forced if a <= forced <= b else old(a, b))
  H.random.randint = random.randint
  try:
    try:
      call(sink, node_of)
    except Exception as e:   # an escaping exception is itself a contract violation
      text.append('real code raised %s: %s' % (type(e).__name__, e))
      return True, '\n'.join(text)
  finally:
    random.randint = old
    H.random.randint = old
  post = heap_violations(sink)
  text.append('exit heap:  ' + describe(sink))
  if post:
    text.append('HeapInv violated after the call: ' + '; '.join(post))
    # property-level effect: the next dispatch takes heap[1] although a less loaded open member exists
    root = sink._heap[1]
    better = [n for n in sink._heap[1:sink._size + 1] if n.load < root.load]
    if better:
      text.append('a dispatch now picks %s (load %d) although %s has load %d' % (
        root.endpoint, root.load, better[0].endpoint, better[0].load))
    return True, '\n'.join(text)
  text.append('invariant holds after the call')
  return False, '\n'.join(text)


def replay_put(w, rec):
  return _run_and_check(w, rec, lambda sink, node_of: sink._HeapBalancerSink__Put(node_of(w['params']['n'])))


def replay_remove(w, rec):
  def call(sink, node_of):
    ep = w['params'].get('endpoint')
    # the endpoint of the witness is opaque: remove the node whose model endpoint equals it
    objs = w['objects']
    target = None
    for k, n in enumerate(sink._heap[1:], 1):
      e = objs.get(n.endpoint, {}).get('endpoint')
      if e == ep:
        target = n
        break
    if target is None and len(sink._heap) > 1:
      return
    sink._RemoveSink(target.endpoint)
  return _run_and_check(w, rec, call)


REPLAYS = {
  'HeapBalancerSink.__Put': replay_put,
  'HeapBalancerSink._RemoveSink': replay_remove,
}


# --------------------------------------------------------------------------------------------------------------
def _fresh_balancer(loads_states):
  """A real balancer whose members have the given (outstanding, channel state, marked_down) triples."""
  import itertools
  sink = H.HeapBalancerSink.__new__(H.HeapBalancerSink)
  sink._heap = [Node(StubChannel(ChannelState.Open), H.HeapBalancerSink.Idle, 0, None)]
  sink._size = 0
  sink._downq = None
  sink._heap_lock = H.RLock()
  sink._log = _Varz()
  sink._open = False
  sink._no_members = StubChannel(ChannelState.Open)
  sink._HeapBalancerSink__varz = _Varz()
  sink._servers = {}
  nodes = []
  for k, (out, state, down) in enumerate(loads_states):
    load = (H.HeapBalancerSink.Idle + out) if not down else out
    n = Node(StubChannel(state), load, 0, 'ep%d' % k)
    sink._size += 1
    n.index = sink._size
    sink._heap.append(n)
    H.Heap.FixUp(sink._heap, sink._size)
    if down:
      n.downq = sink._downq
      sink._downq = n
    nodes.append(n)
  return sink, nodes


def replay_get(w, rec):
  """__Get on small heaps of every mix of outstanding counts, channel states and down marks: the result is the root, a
  minimum of the (load, index) order, open unless every member is marked down afterwards; the heap stays well formed;
  a down-marked member whose channel reads Open is taken back."""
  import itertools
  bad = []
  opts = [(0, ChannelState.Open, False), (2, ChannelState.Open, False), (1, ChannelState.Closed, False), (0, ChannelState.Closed, True), (1, ChannelState.Open, True),
          (0, ChannelState.Busy, False), (3, ChannelState.Open, True)]
  for n in (1, 2, 3):
    for combo in itertools.product(opts, repeat=n):
      sink, nodes = _fresh_balancer(combo)
      if heap_violations(sink):
        continue
      try:
        got = sink._HeapBalancerSink__Get()
      except Exception as e:
        bad.append('%r: __Get raised %s: %s' % (combo, type(e).__name__, e))
        continue
      v = heap_violations(sink)
      if v:
        bad.append('%r: after __Get %s' % (combo, v[0]))
      if got is not sink._heap[1]:
        bad.append('%r: __Get did not return the root' % (combo,))
      members = sink._heap[1:sink._size + 1]
      if any(m < got for m in members):
        bad.append('%r: returned member (load %d) is not least; %s has load %d' % (combo, got.load, [m for m in members if m < got][0].endpoint, [m for m in members if m < got][0].load))
      if got.channel.state != ChannelState.Open and any(m.load < 0 for m in members):
        bad.append('%r: returned a member that is not open although an up-marked member exists' % (combo,))
      for m in members:
        if m.channel.state == ChannelState.Open and m.load >= 0:
          bad.append('%r: %s is open again but still marked down after __Get' % (combo, m.endpoint))
      # outstanding counts survive down-marking and resurrection
      for m, (out, state, down) in zip(nodes, combo):
        now = m.load - H.HeapBalancerSink.Idle if m.load < 0 else m.load
        if now != out:
          bad.append('%r: %s had %d outstanding request(s), its load now encodes %d' % (combo, m.endpoint, out, now))
      # the down list holds exactly the down-marked members
      chain, x, hops = [], sink._downq, 0
      while x is not None and hops < 10:
        chain.append(x); x = x.downq; hops += 1
      marked = [m for m in members if m.load >= 0]
      if hops >= 10 or set(map(id, chain)) != set(map(id, marked)):
        bad.append('%r: down list %r, down-marked members %r' % (combo, [c.endpoint for c in chain], [m.endpoint for m in marked]))
      else:
        # a second dispatch decision on the same state must agree with the invariants too
        for m in nodes:
          if m.load >= 0:
            m.channel.state = ChannelState.Open      # every down member comes back
        try:
          got2 = sink._HeapBalancerSink__Get()
          still = [m.endpoint for m in sink._heap[1:sink._size + 1] if m.load >= 0]
          if still:
            bad.append('%r: after all members came back, %r are still marked down' % (combo, still))
          if heap_violations(sink):
            bad.append('%r: second __Get: %s' % (combo, heap_violations(sink)[0]))
        except Exception as e:
          bad.append('%r: second __Get raised %s: %s' % (combo, type(e).__name__, e))
      if len(bad) >= 4:
        return True, '\n'.join(bad)
  return bool(bad), '\n'.join(bad) or '__Get returns a least-loaded open member and keeps the heap well formed on every small case'


REPLAYS['HeapBalancerSink.__Get'] = replay_get
