"""Replay for the sharing units (C16): RefCountedSink, SharedSinkProvider, SingletonPoolSink on the real classes."""
import itertools

import gevent

from scales.asynchronous import AsyncResult
from scales.constants import ChannelState, SinkProperties
from scales.observable import Observable
from scales import sink as S


class Under(object):
  """An underlying connection: counts opens/closes; Open() takes a scheduling round to complete."""
  made = []
  def __init__(self, slow=False):
    self.opens = self.closes = 0
    self.state = ChannelState.Idle
    self.on_faulted = Observable()
    self.slow = slow
    Under.made.append(self)
  def Open(self):
    self.opens += 1
    if self.slow:
      ar = AsyncResult()
      def done():
        self.state = ChannelState.Open
        ar.set(True)
      gevent.spawn_later(0.01, done)
      return ar
    self.state = ChannelState.Open
    return AsyncResult.Complete()
  def Close(self):
    self.closes += 1
    self.state = ChannelState.Closed
  @property
  def is_open(self):
    return self.state <= ChannelState.Busy
  @property
  def is_closed(self):
    return self.state == ChannelState.Closed


def replay_refcount(w, rec):
  """Every Open/Close history of length <= 6: underlying open exactly while the holder count is positive,
  surplus closes ignored, Open always returns a result."""
  bad = []
  for n in range(1, 7):
    for hist in itertools.product('OC', repeat=n):
      u = Under()
      r = S.RefCountedSink(u)
      holders = 0
      for k, op in enumerate(hist):
        if op == 'O':
          res = r.Open()
          holders += 1
          if res is None:
            bad.append('%s: Open #%d returned None' % (''.join(hist), k))
        else:
          r.Close()
          holders = max(0, holders - 1)
        is_open = u.opens - u.closes
        if is_open != (1 if holders > 0 else 0) or u.closes > u.opens:
          bad.append('%s: after step %d holders=%d but underlying opens=%d closes=%d' % (''.join(hist), k, holders, u.opens, u.closes))
          break
      if len(bad) >= 4:
        return True, '\n'.join(bad)
  return bool(bad), '\n'.join(bad) or 'underlying sink open exactly while held, for every Open/Close history up to length 6'


class _Next(object):
  def __init__(self):
    self.created = []
  def CreateSink(self, props):
    u = Under()
    self.created.append(u)
    return u
  sink_class = Under


def replay_shared(w, rec):
  """Same key -> same sink while any holder is alive, also after the underlying connection failed."""
  bad = []
  for fail_between in (False, True):
    p = S.SharedSinkProvider(lambda props: props.get('key'))
    p.next_provider = nxt = _Next()
    a = p.CreateSink({'key': 'k1'})
    a.Open()
    b = p.CreateSink({'key': 'k1'})
    b.Open()
    if fail_between:
      nxt.created[0].state = ChannelState.Closed      # the connection broke; holders a and b are still alive
    c = p.CreateSink({'key': 'k1'})
    other = p.CreateSink({'key': 'k2'})
    if not (a is b and b is c):
      bad.append('key k1 requested three times%s: got %d distinct sinks, %d underlying connections' % (
        ' (connection failed before the third)' if fail_between else '', len(set(map(id, (a, b, c)))), len(nxt.created) - 1))
    if other is a:
      bad.append('different keys share a sink')
    nokey = p.CreateSink({})
    if isinstance(nokey, S.RefCountedSink):
      bad.append('a request without a sharing key got a shared wrapper')
  return bool(bad), '\n'.join(bad) or 'same key yields the same sink while held'


def replay_singleton(w, rec):
  """At most one underlying connection, also when the first requests arrive while it is still opening; closed once."""
  from scales.pool.singleton import SingletonPoolSink
  bad = []
  class Prov(object):
    def __init__(self):
      self.created = []
    def CreateSink(self, props):
      u = Under(slow=True)
      self.created.append(u)
      return u
  class Ep(object):
    host, port = 'h', 1
  prov = Prov()
  pool = SingletonPoolSink(prov, None, {SinkProperties.Endpoint: Ep(), SinkProperties.Label: 'replay'})
  got = []
  gs = [gevent.spawn(lambda: got.append(pool._Get())) for _ in range(3)]
  gevent.joinall(gs, timeout=2)
  if len(prov.created) != 1:
    bad.append('3 concurrent first requests created %d underlying connections' % len(prov.created))
  if len(set(map(id, got))) > 1:
    bad.append('concurrent requests were given %d different sinks' % len(set(map(id, got))))
  pool._ref_count = 1
  pool.Close()
  still = [u for u in prov.created if u.opens and not u.closes]
  if still:
    bad.append('%d connection(s) still open after Close()' % len(still))
  if any(u.closes > 1 for u in prov.created):
    bad.append('a connection was closed more than once')
  return bool(bad), '\n'.join(bad) or 'one connection shared by concurrent first requests and closed once'


REPLAYS = {
  'RefCountedSink.Open': replay_refcount,
  'RefCountedSink.Close': replay_refcount,
  'SharedSinkProvider.CreateSink': replay_shared,
  'SingletonPoolSink._Get': replay_singleton,
  'SingletonPoolSink.Close': replay_singleton,
}
