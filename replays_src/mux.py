"""Replay of mux tag-pool counterexamples on the real scales.mux.sink code."""
import logging

from scales.mux import sink as M
from scales.sink import ClientMessageSinkStack


class _Varz(object):
  def __getattr__(self, name):
    return lambda *a, **k: None


def _obj(w, ref):
  return w['objects'].get(ref['ref'], {}) if isinstance(ref, dict) and 'ref' in ref else {}


def build_pool(w, po):
  pool = M.TagPool.__new__(M.TagPool)
  pool._set = set((po.get('_set') or {}).get('members', []))
  pool._next = po.get('_next', 1) if isinstance(po.get('_next'), int) else 1
  pool._max_tag = 2 ** 24 - 1
  pool._varz = _Varz()
  pool._log = logging.getLogger('replay')
  return pool


def build_sink(w):
  from scales.thriftmux.sink import SocketTransportSink
  so = _obj(w, w['params']['self'])
  sink = SocketTransportSink.__new__(SocketTransportSink)
  sink._tag_pool = build_pool(w, _obj(w, so.get('_tag_pool')))
  keys = (so.get('_tag_map') or {}).get('keys', [])
  sink._tag_map = dict((k, (ClientMessageSinkStack(), 0.0, {})) for k in keys)
  sink._varz = _Varz()
  sink._log = logging.getLogger('replay')
  return sink


def pool_problems(sink):
  """Violations of the invariant linking the free set, the high-water mark and the unanswered tags."""
  out = []
  p = sink._tag_pool
  for t in sorted(p._set, key=repr):
    if not isinstance(t, int) or t < 2 or t > p._next:
      out.append('free set holds %r (outside [2, _next=%d])' % (t, p._next))
    if t in sink._tag_map:
      out.append('free set holds %r which is still awaiting an answer' % (t,))
  return out


def replay_release_tag(w, rec):
  sink = build_sink(w)
  tag = w['params'].get('tag')
  text = ['entry: _next=%d free=%s unanswered=%s ; peer names tag %r' % (
    sink._tag_pool._next, sorted(sink._tag_pool._set), sorted(sink._tag_map), tag)]
  pre = pool_problems(sink)
  if pre:
    return False, '\n'.join(text + ['entry state already violates the invariant (spurious model): %s' % pre])
  sink._ReleaseTag(tag)
  post = pool_problems(sink)
  text.append('after _ReleaseTag(%r): _next=%d free=%s unanswered=%s' % (tag, sink._tag_pool._next, sorted(sink._tag_pool._set), sorted(sink._tag_map)))
  if not post:
    return False, '\n'.join(text + ['invariant holds'])
  text.append('invariant violated: ' + '; '.join(post))
  # property-level effect: the next requests get a reserved or duplicate tag
  unanswered = set(sink._tag_map)
  for n in range(4):
    t = sink._tag_pool.get()
    if t in (0, 1) or t in unanswered:
      text.append('request #%d is given tag %r (%s)' % (n + 1, t, 'reserved' if t in (0, 1) else 'already carried by an unanswered request'))
      break
    unanswered.add(t)
  return True, '\n'.join(text)


REPLAYS = {
  'MuxSocketTransportSink._ReleaseTag': replay_release_tag,
}
