"""Replay for the membership units (C05): join/leave histories on the real HeapBalancerSink; after every step the set of
endpoints in the heap must equal the keys of _servers and the reference server set."""
import itertools

from scales.loadbalancer import heap as H
from scales.loadbalancer.serverset import StaticServerSetProvider
from scales.constants import ChannelState, SinkProperties
from scales.asynchronous import AsyncResult


class _Sink(object):
  def __init__(self):
    self.state = ChannelState.Idle
  def Open(self):
    self.state = ChannelState.Open
    return AsyncResult.Complete()
  def Close(self):
    self.state = ChannelState.Closed
  @property
  def is_open(self):
    return self.state <= ChannelState.Busy
  @property
  def is_closed(self):
    return self.state == ChannelState.Closed


class _Provider(object):
  def CreateSink(self, props):
    return _Sink()


class _Member(object):
  def __init__(self, ep):
    self.service_endpoint = ep
    self.additional_endpoints = {}


class _Props(object):
  def __init__(self, ssp):
    self.server_set_provider = ssp


def _mk(initial):
  ssp = StaticServerSetProvider([_Member(e) for e in initial])
  sink = H.HeapBalancerSink(_Provider(), _Props(ssp), {SinkProperties.Label: 'replay'})
  sink._LoadBalancerSink__open_ar = AsyncResult()
  sink._OpenImpl()
  return sink


def _state(sink):
  return sorted(str(n.endpoint) for n in sink._heap[1:]), sorted(str(k) for k in sink._servers)


def replay_members(w, rec):
  bad = []
  eps = ['a', 'b', 'c']
  ops = [(j, e) for j in (True, False) for e in eps]
  join = lambda s, m: s._LoadBalancerSink__OnServerSetJoin(m)
  leave = lambda s, m: s._LoadBalancerSink__OnServerSetLeave(m)
  for initial in ([], ['a'], ['a', 'b'], ['a', 'a'], ['b', 'a', 'b']):
    for hist in itertools.product(ops, repeat=4):
      sink = _mk(initial)
      ref = set(initial)
      heap_eps, keys = _state(sink)
      if heap_eps != sorted(ref) or keys != sorted(ref):
        bad.append('initial list %r: dispatch targets %r, _servers %r' % (initial, heap_eps, keys))
        break
      for is_join, e in hist:
        try:
          (join if is_join else leave)(sink, _Member(e))
        except Exception as ex:
          bad.append('initial %r history %r: %s raised %s: %s' % (initial, hist, 'join' if is_join else 'leave', type(ex).__name__, ex))
          break
        (ref.add if is_join else ref.discard)(e)
        heap_eps, keys = _state(sink)
        if heap_eps != sorted(ref) or keys != sorted(ref):
          bad.append('initial %r after %r: dispatch targets %r, _servers %r, server set %r' % (
            initial, [('join' if j else 'leave', x) for j, x in hist], heap_eps, keys, sorted(ref)))
          break
      if len(bad) >= 5:
        break
  return bool(bad), '\n'.join(bad[:5]) or 'targets == _servers == server set after every step of every length-4 history over 3 endpoints'


_UNITS = ['LoadBalancerSink.__AddServer', 'LoadBalancerSink.__RemoveServer', 'LoadBalancerSink.__OnServerSetJoin', 'LoadBalancerSink.__OnServerSetLeave',
          'LoadBalancerSink._OpenImpl', 'HeapBalancerSink._AddSink@mem', 'HeapBalancerSink._RemoveSink@mem', 'HeapBalancerSink._FindNodeByEndpoint']
REPLAYS = dict((u, replay_members) for u in _UNITS)
