"""Replay for scales/timer_queue.py units on the real TimerQueue (no worker greenlet: the object is built with
__new__ and driven call by call, which is exactly the granularity of the contracts)."""
import heapq

from gevent.event import Event
from scales import timer_queue as T


class _NoWorker(object):
  def kill(self, block=False):
    pass


def make_queue(resolution=0):
  q = T.TimerQueue.__new__(T.TimerQueue)
  q._queue = []
  q._event = Event()
  q._seq = 0
  q._resolution = resolution
  q._time_source = lambda: 0.0
  q._worker = _NoWorker()
  return q


def _heap_ok(h):
  return all(h[(k - 1) // 2][:2] <= h[k][:2] for k in range(1, len(h)))


def _scenarios(w):
  """(description, deadlines already scheduled, indexes cancelled, new deadline)"""
  out = [('empty queue', [], [], 5), ('one pending entry, later deadline', [10], [], 20), ('one pending entry, earlier deadline', [10], [], 5),
         ('cancelled head, new entry behind it', [10, 20], [0], 30), ('cancelled head, new entry in front', [10, 20], [0], 5),
         ('cancelled head only', [10], [0], 30), ('cancelled non-head', [10, 20, 30], [1], 25), ('equal deadlines', [10, 10], [], 10),
         ('two cancelled heads', [10, 11, 20], [0, 1], 40)]
  out += [('fractional deadline, empty queue', [], [], 5.3), ('two deadlines of one tick, scheduled in reverse raw order', [10.35], [], 10.15)]
  d = (w.get('params', {}) if isinstance(w, dict) else {}).get('deadline')
  if isinstance(d, (int, float)) and -1000 < d < 1000:
    out.append(('witness deadline %r behind a cancelled head' % d, [d - 1, d + 1], [0], d))
  return out


def replay_schedule(w, rec):
  bad = []
  for desc, pending, cancelled, new in _scenarios(w):
    for res in (0, 1, 0.5):
      q = make_queue(res)
      cancels = [q.Schedule(t, (lambda: None)) for t in pending]
      entries = list(q._queue)
      for i in cancelled:
        cancels[i]()
      q._event.clear()
      seq0 = q._seq
      before = [id(e) for e in q._queue]
      try:
        q.Schedule(new, (lambda: None))
      except Exception as e:
        bad.append('%s (resolution %s): Schedule raised %s: %s' % (desc, res, type(e).__name__, e))
        continue
      after = [id(e) for e in q._queue]
      gone = [e for e in entries if id(e) not in after]
      added = [e for e in q._queue if id(e) not in before]
      if gone:
        bad.append('%s (resolution %s): Schedule removed %d pending entr%s (deadline %s, cancelled=%s) -- the worker sleeping on it will pop a different entry at that time' % (
          desc, res, len(gone), 'y' if len(gone) == 1 else 'ies', gone[0][0], gone[0][2]))
      if len(added) != 1:
        bad.append('%s (resolution %s): %d entries added' % (desc, res, len(added)))
      elif added[0][0] < new or (not res and added[0][0] != new) or (res and added[0][0] - new >= res):
        bad.append('%s (resolution %s): deadline %s stored as %s' % (desc, res, new, added[0][0]))
      if res and len(added) == 1 and abs(added[0][0] / float(res) - round(added[0][0] / float(res))) > 1e-9:
        bad.append('%s (resolution %s): deadline %s stored as %s, not a whole number of ticks -- entries of one tick no longer tie, so they run in raw-deadline order instead of scheduling order' % (desc, res, new, added[0][0]))
      if q._seq != seq0 + 1:
        bad.append('%s: sequence number went %d -> %d' % (desc, seq0, q._seq))
      if not _heap_ok(q._queue):
        bad.append('%s: heap order broken' % desc)
      if added and q._queue and q._queue[0] is added[0] and not q._event.is_set():
        bad.append('%s (resolution %s): the new entry is the earliest but the worker was not woken' % (desc, res))
  return bool(bad), '\n'.join(bad) or 'Schedule adds exactly one entry, removes none, wakes the worker for a new head'


def replay_cancel(w, rec):
  bad = []
  q = make_queue(0)
  ran = []
  cancels = [q.Schedule(t, (lambda t=t: ran.append(t))) for t in (10, 20, 30)]
  snap = [list(e) for e in q._queue]
  ids = [id(e) for e in q._queue]
  cancels[1]()
  cancels[1]()
  for e0, e in zip(snap, q._queue):
    if e0[0] == 20:
      if not e[2]:
        bad.append('cancel did not mark its entry')
    elif list(e) != e0:
      bad.append('cancelling the entry due at 20 changed the entry due at %s: %r -> %r' % (e0[0], e0, list(e)))
  if [id(e) for e in q._queue] != ids:
    bad.append('cancel changed the queue itself')
  return bool(bad), '\n'.join(bad) or 'cancel marks only its own entry'


def replay_init(w, rec):
  import gevent
  bad = []
  for res in (0, 0.5, 1):
    clock = lambda: 0.0
    q = T.TimerQueue(time_source=clock, resolution=res)
    try:
      if q._queue != []:
        bad.append('a new queue (resolution %s) already holds %d entries' % (res, len(q._queue)))
      if q._event.is_set():
        bad.append('a new queue (resolution %s) starts with its event set: the worker peeks an empty queue' % res)
      if q._seq != 0:
        bad.append('a new queue starts at sequence number %r' % (q._seq,))
      if q._resolution != res or q._time_source is not clock:
        bad.append('constructor arguments not stored (resolution %r -> %r)' % (res, q._resolution))
      if not isinstance(q._worker, gevent.Greenlet):
        bad.append('no worker greenlet was spawned')
    finally:
      if isinstance(q._worker, gevent.Greenlet):
        q._worker.kill(block=False)
  return bool(bad), '\n'.join(bad) or 'a new queue is empty, quiet and has a worker'


REPLAYS = {
  'TimerQueue.__init__': replay_init,
  'TimerQueue.Schedule': replay_schedule,
  'TimerQueue.Schedule.cancel': replay_cancel,
}
