"""Replay builders: construct real objects from a witness and run the real code."""
