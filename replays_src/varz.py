"""Replay of metric counterexamples on the real scales.varz code."""
from scales import varz


def _v(x):
  if isinstance(x, dict):
    return 'v%s' % (x.get('opaque', x.get('str_id', x)),)
  return x


def _source(w, ref):
  o = w['objects'].get(ref['ref'], {})
  return varz.Source(method=_v(o.get('method')), service=_v(o.get('service')), endpoint=_v(o.get('endpoint')), client_id=_v(o.get('client_id')))


def replay_source_equality(w, rec):
  a, b = _source(w, w['params']['a']), _source(w, w['params']['b'])
  text = ['a = %r, b = %r (two separately constructed sources)' % (a.to_tuple(), b.to_tuple())]
  if a.to_tuple() != b.to_tuple():
    return False, '\n'.join(text + ['fields differ: spurious model'])
  eq, heq = (a == b), (hash(a) == hash(b))
  text.append('a == b -> %r ; hash(a) == hash(b) -> %r' % (eq, heq))
  metric = 'replay.metric'
  varz.VarzReceiver.VARZ_DATA.pop(metric, None)
  varz.VarzReceiver.IncrementVarz(a, metric, 1)
  varz.VarzReceiver.IncrementVarz(b, metric, 1)
  n = len(varz.VarzReceiver.VARZ_DATA[metric])
  text.append('two increments against equal sources land in %d series: %r' % (n, dict((k.to_tuple(), v) for k, v in varz.VarzReceiver.VARZ_DATA[metric].items())))
  varz.VarzReceiver.VARZ_DATA.pop(metric, None)
  return (not eq) or (not heq) or n != 1, '\n'.join(text)


REPLAYS = {
  'lemma_source_value_equality': replay_source_equality,
}
