"""Replay of metric counterexamples on the real scales.varz code."""
from scales import varz


def _v(x):
  if isinstance(x, dict):
    return 'v%s' % (x.get('opaque', x.get('str_id', x)),)
  return x


def _source(w, ref):
  o = w['objects'].get(ref['ref'], {})
  return varz.Source(method=_v(o.get('method')), service=_v(o.get('service')), endpoint=_v(o.get('endpoint')), client_id=_v(o.get('client_id')))


def replay_source_equality(w, rec):
  a, b = _source(w, w['params']['a']), _source(w, w['params']['b'])
  text = ['a = %r, b = %r (two separately constructed sources)' % (a.to_tuple(), b.to_tuple())]
  if a.to_tuple() != b.to_tuple():
    return False, '\n'.join(text + ['fields differ: spurious model'])
  eq, heq = (a == b), (hash(a) == hash(b))
  text.append('a == b -> %r ; hash(a) == hash(b) -> %r' % (eq, heq))
  metric = 'replay.metric'
  varz.VarzReceiver.VARZ_DATA.pop(metric, None)
  varz.VarzReceiver.IncrementVarz(a, metric, 1)
  varz.VarzReceiver.IncrementVarz(b, metric, 1)
  n = len(varz.VarzReceiver.VARZ_DATA[metric])
  text.append('two increments against equal sources land in %d series: %r' % (n, dict((k.to_tuple(), v) for k, v in varz.VarzReceiver.VARZ_DATA[metric].items())))
  varz.VarzReceiver.VARZ_DATA.pop(metric, None)
  return (not eq) or (not heq) or n != 1, '\n'.join(text)


REPLAYS = {
  'lemma_source_value_equality': replay_source_equality,
}


# --------------------------------------------------------------------------------------------------------------
def _fresh_receiver():
  varz.VarzReceiver.VARZ_DATA.clear()


def replay_counters(w, rec):
  """Increment histories (negative amounts, equal-but-distinct sources): every series is the sum of its increments."""
  bad = []
  amt = (w.get('params', {}) if isinstance(w, dict) else {}).get('amount')
  hists = [[1, 1, 1], [-1, 1], [2, -3, 1, 5], [0, -2, -2, 7], [5, -5, -5, 5, 5]]
  if isinstance(amt, int) and -10**6 < amt < 10**6:
    hists.append([amt, -amt - 1, 2])
  for h in hists:
    _fresh_receiver()
    for a in h:
      # a source built afresh for every call: equal by value, never the same object
      varz.VarzReceiver.IncrementVarz(varz.Source(method='m', service='svc', endpoint='%s:%d' % ('host', 80), client_id=None), 'metric.x', a)
    data = varz.VarzReceiver.VARZ_DATA['metric.x']
    total = sum(data.values())
    if len(data) != 1:
      bad.append('increments %r from equal sources landed in %d series' % (h, len(data)))
    if total != sum(h):
      bad.append('increments %r: series holds %r, the sum is %r' % (h, total, sum(h)))
    varz.VarzReceiver.SetVarz(varz.Source(method='m', service='svc', endpoint='host:80'), 'gauge.y', 7)
    varz.VarzReceiver.SetVarz(varz.Source(method='m', service='svc', endpoint='host:80'), 'gauge.y', 3)
    if list(varz.VarzReceiver.VARZ_DATA['gauge.y'].values()) != [3]:
      bad.append('gauge set twice holds %r' % (list(varz.VarzReceiver.VARZ_DATA['gauge.y'].values()),))
  _fresh_receiver()
  return bool(bad), '\n'.join(bad) or 'every counter series equals the sum of its increments; gauges hold the last value'


def replay_percentiles(w, rec):
  """Aggregated percentile lists are non-decreasing in the percentile and lie within the sample range, for sample
  sets of every small size and order (bounded: sizes 1..6 per reservoir, 1..3 reservoirs, fixed value pool)."""
  import itertools
  bad = []
  metric = 'lat.t'
  pool = [5.0, 1.0, 3.0, 9.0, 2.0, 7.0]
  cases = []
  for n in range(1, 7):
    cases.append([pool[:n]])
    cases.append([sorted(pool[:n])])
    cases.append([sorted(pool[:n], reverse=True)])
  cases += [[pool[:2], pool[2:5]], [[5.0, 1.0], [9.0]], [[2.0], [1.0], [3.0, 0.5]], [list(reversed(pool)), pool[:3]]]
  for reservoirs in cases:
    _fresh_receiver()
    varz.VarzReceiver.VARZ_METRICS[metric] = varz.VarzType.AverageTimer
    for k, samples in enumerate(reservoirs):
      src = varz.Source(method='m', service='svc', endpoint='h%d:1' % k)
      for v in samples:
        varz.VarzReceiver.RecordPercentileSample(src, metric, v)
    agg = varz.VarzAggregator.Aggregate(varz.VarzReceiver.VARZ_DATA, varz.VarzReceiver.VARZ_METRICS)
    for key, a in agg[metric].items():
      pcts = list(a.total[1:])
      allv = [v for s in reservoirs for v in s]
      if any(x > y + 1e-9 for x, y in zip(pcts, pcts[1:])):
        bad.append('samples %r: percentiles %r decrease as the percentile rises' % (reservoirs, pcts))
      if pcts and len(reservoirs) == 1 and (min(pcts) < min(allv) - 1e-9 or max(pcts) > max(allv) + 1e-9):
        bad.append('samples %r: percentiles %r leave the sample range' % (reservoirs, pcts))
    if len(bad) >= 4:
      break
  _fresh_receiver()
  varz.VarzReceiver.VARZ_METRICS.pop(metric, None)
  return bool(bad), '\n'.join(bad[:4]) or 'percentiles non-decreasing and within range on every case'


REPLAYS.update({
  'lemma_source_distinct': replay_source_equality,
  'VarzReceiver.IncrementVarz': replay_counters,
  'VarzReceiver.SetVarz': replay_counters,
  'VarzAggregator.Aggregate': replay_percentiles,
  'VarzAggregator.CalculatePercentile': replay_percentiles,
})
