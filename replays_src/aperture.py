"""Replay for the aperture units (C06): join/leave/traffic histories on the real ApertureBalancerSink; after every
step the active (heap) and idle halves must partition the server set, and adjustments must respect the size bounds."""
import itertools
import random

import gevent

from scales.loadbalancer import aperture as A
from scales.loadbalancer.serverset import StaticServerSetProvider
from scales.constants import ChannelState, SinkProperties
from scales.asynchronous import AsyncResult

from .lbmember import _Sink, _Provider, _Member


class _Props(object):
  def __init__(self, ssp, min_size, max_size):
    self.server_set_provider = ssp
    self.min_size, self.max_size = min_size, max_size
    self.min_load, self.max_load = 0.5, 2.0
    self.jitter_min_sec = self.jitter_max_sec = 0
    self.smoothing_window = 5


class _Ema(object):
  """The smoothed load is whatever the scenario says (the contracts assume nothing about its value)."""
  def __init__(self):
    self.next = 0.0
  def Update(self, ts, sample):
    return self.next


def _mk(initial, min_size, max_size):
  ssp = StaticServerSetProvider([_Member(e) for e in initial])
  sink = A.ApertureBalancerSink(_Provider(), _Props(ssp, min_size, max_size), {SinkProperties.Label: 'replay'})
  sink._LoadBalancerSink__open_ar = AsyncResult()
  sink._ema = _Ema()
  sink._OpenImpl()
  return sink


def _violations(sink, ref):
  out = []
  heap_eps = [n.endpoint for n in sink._heap[1:]]
  idle = set(sink._idle_endpoints)
  if len(set(heap_eps)) != len(heap_eps):
    out.append('an endpoint has two active nodes: %r' % sorted(map(str, heap_eps)))
  both = idle & set(heap_eps)
  if both:
    out.append('endpoints both idle and active: %r' % sorted(map(str, both)))
  if idle | set(heap_eps) != set(ref):
    out.append('active %r + idle %r != server set %r' % (sorted(map(str, heap_eps)), sorted(map(str, idle)), sorted(map(str, ref))))
  if set(sink._servers) != set(ref):
    out.append('_servers %r != server set %r' % (sorted(map(str, sink._servers)), sorted(map(str, ref))))
  return out


def replay_aperture(w, rec):
  bad = []
  eps = ['a', 'b', 'c', 'd']
  join = lambda s, m: s._LoadBalancerSink__OnServerSetJoin(m)
  leave = lambda s, m: s._LoadBalancerSink__OnServerSetLeave(m)
  ops = [('join', e) for e in eps[:3]] + [('leave', e) for e in eps[:3]] + [('hot', None), ('cold', None), ('down', None)]
  rnd = random.Random(7)
  hists = list(itertools.product(ops, repeat=3))
  rnd.shuffle(hists)
  # always included: grow, lose an active member's connection, drain (contraction prefers the dead member)
  hists = [(('hot', None), ('down', None), ('cold', None)), (('hot', None), ('hot', None), ('down', None), ('cold', None), ('cold', None)),
           (('join', 'c'), ('hot', None), ('down', None), ('cold', None))] + hists
  for min_size, max_size in ((1, 2), (2, 3), (1, 4)):
    for initial in (['a'], ['a', 'b', 'c'], ['a', 'b', 'c', 'd']):
      for hist in hists[:120]:
        sink = _mk(initial, min_size, max_size)
        ref = set(initial)
        v = _violations(sink, ref)
        if v:
          bad.append('after open with %r (min %d, max %d): %s' % (initial, min_size, max_size, v[0]))
          break
        for op, e in hist:
          size0 = sink._size
          try:
            if op == 'join':
              join(sink, _Member(e)); ref.add(e)
            elif op == 'leave':
              leave(sink, _Member(e)); ref.discard(e)
            elif op == 'hot':       # smoothed load per member above the band: a release/dispatch adjusts the aperture
              sink._ema.next = 100.0
              sink._AdjustAperture(1)
              if sink._size > size0 and sink._size > max_size:
                bad.append('load-driven growth took the active set to %d, max_size is %d' % (sink._size, max_size))
            elif op == 'cold':
              sink._ema.next = 0.0
              sink._AdjustAperture(-1)
              if sink._size < size0 and sink._size < min(min_size, len(ref)):
                bad.append('contraction left %d active members, min_size is %d (members %d)' % (sink._size, min_size, len(ref)))
            elif op == 'down' and sink._size:
              n = sink._heap[1]
              n.channel.state = ChannelState.Closed
              sink._OnNodeDown(n)
          except Exception as ex:
            bad.append('min %d max %d initial %r history %r: %s raised %s: %s' % (min_size, max_size, initial, hist, op, type(ex).__name__, ex))
            break
          gevent.sleep(0)          # let completion callbacks run (they clear the pending-endpoint marks)
          gevent.sleep(0)
          v = _violations(sink, ref)
          if v:
            bad.append('min %d max %d initial %r after %r: %s' % (min_size, max_size, initial, hist, v[0]))
            break
        if len(bad) >= 4:
          return True, '\n'.join(bad)
  return bool(bad), '\n'.join(bad) or 'active and idle halves partition the server set after every step; adjustments respect the bounds'


_UNITS = ['ApertureBalancerSink._AddSink', 'ApertureBalancerSink._RemoveSink', 'ApertureBalancerSink._TryExpandAperture', 'ApertureBalancerSink._ContractAperture',
          'ApertureBalancerSink._AdjustAperture', 'ApertureBalancerSink._OnNodeDown', 'ApertureBalancerSink._OnGet', 'ApertureBalancerSink._OnPut',
          'LoadBalancerSink.__AddServer@ap', 'LoadBalancerSink.__RemoveServer@ap', 'LoadBalancerSink.__OnServerSetJoin@ap', 'LoadBalancerSink.__OnServerSetLeave@ap',
          'LoadBalancerSink._OpenImpl@ap']
REPLAYS = dict((u, replay_aperture) for u in _UNITS)
