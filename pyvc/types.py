"""Static types used by sidecar declarations and their SMT representation.

  int real bool str none any        scalars (str and any are opaque Int ids)
  C, C?                             reference to an object of class C (Int; None = 0)
  list[T] set[T] dict[K,V] deque[T] containers (Int reference to a heap object)
  tuple[A,B,...]                    flattened component-wise wherever stored
  int? real? bool? tuple[..]?       optional scalars: extra '#none' Bool component
  fn                                callable (closure / bound method), opaque when stored
"""
import z3

SCALARS = ('int', 'real', 'bool', 'str', 'none', 'any', 'fn', 'bytes', 'structfmt')
CONTAINERS = ('list', 'set', 'dict', 'deque', 'ddict')   # ddict: collections.defaultdict (missing keys read as the default and are inserted)


class Ty(object):
  __slots__ = ('k', 'args', 'name', 'opt')

  def __init__(self, k, args=(), name=None, opt=False):
    self.k = k
    self.args = tuple(args)
    self.name = name
    self.opt = opt

  def __repr__(self):
    if self.k == 'ref':
      s = self.name
    elif self.args:
      s = '%s[%s]' % (self.k, ','.join(map(repr, self.args)))
    else:
      s = self.k
    return s + ('?' if self.opt else '')

  def __eq__(self, o):
    return isinstance(o, Ty) and repr(self) == repr(o)

  def __hash__(self):
    return hash(repr(self))

  def with_opt(self, opt):
    return Ty(self.k, self.args, self.name, opt)

  @property
  def is_reflike(self):
    """Represented by a single Int where 0 is None."""
    return self.k in ('ref', 'str', 'any', 'fn') or self.k in CONTAINERS


def parse_type(s):
  s = s.strip()
  t, rest = _parse(s, 0)
  if rest != len(s):
    raise ValueError('bad type %r' % s)
  return t


def _parse(s, i):
  j = i
  while j < len(s) and (s[j].isalnum() or s[j] in '_.'):
    j += 1
  name = s[i:j]
  if not name:
    raise ValueError('bad type %r at %d' % (s, i))
  args = []
  if j < len(s) and s[j] == '[':
    j += 1
    while True:
      while s[j] == ' ':
        j += 1
      a, j = _parse(s, j)
      args.append(a)
      while s[j] == ' ':
        j += 1
      if s[j] == ',':
        j += 1
        continue
      if s[j] == ']':
        j += 1
        break
      raise ValueError('bad type %r at %d' % (s, j))
  opt = False
  if j < len(s) and s[j] == '?':
    opt = True
    j += 1
  if name in SCALARS or name in CONTAINERS or name == 'tuple':
    t = Ty(name, args, None, opt)
  else:
    t = Ty('ref', (), name, opt)
  return t, j


INT = Ty('int')
REAL = Ty('real')
BOOL = Ty('bool')
STR = Ty('str')
NONE = Ty('none')
ANY = Ty('any')
FN = Ty('fn')


def base_sort(t):
  if t.k == 'int':
    return z3.IntSort()
  if t.k == 'real':
    return z3.RealSort()
  if t.k == 'bool':
    return z3.BoolSort()
  return z3.IntSort()


def flatten(t):
  """List of (suffix, sort) components a value of type t occupies when stored."""
  if t.k == 'tuple':
    out = []
    if t.opt:
      out.append(('#none', z3.BoolSort()))
    for n, a in enumerate(t.args):
      for suf, so in flatten(a):
        out.append(('#%d%s' % (n, suf), so))
    return out
  if t.k == 'none':
    return []
  if t.opt and t.k in ('int', 'real', 'bool'):
    return [('#none', z3.BoolSort()), ('', base_sort(t))]
  return [('', base_sort(t))]
