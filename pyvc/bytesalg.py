"""Byte-string algebra (DESIGN 2.10): byte strings in concatenation normal form.

Atoms:  ('u', w, v)            w bytes holding the big-endian unsigned integer v, 0 <= v < 256**w
        ('raw', sym, n)        opaque bytes named by the Int term sym, of length n (Int term)
        ('fix', sym, n, w)     '%ds' packing of raw bytes (sym, n) into w bytes: truncated / zero padded
A byte string is a python list of atoms carried in V.py (bytes are immutable values).
Adjacent 'u' atoms merge into one wider integer, which is what makes u24(tag) equal to three
single bytes.  Only linear / modular integer side conditions go to the solver.
"""
import ast
import re
import z3

from .types import Ty, INT, BOOL, STR, ANY
from .state import V, Exc, Unsupported, fresh_name, mk_int, mk_bool, NONE_V, coerce
from .expr import num_term, simp_bool

I = z3.IntSort()
BYTES = Ty('bytes')
STREAM_METHODS = ('write', 'read', 'getvalue', 'tell', 'seek')

# struct codes -> (width, signed)
CODES = {'b': (1, True), 'B': (1, False), 'h': (2, True), 'H': (2, False), 'i': (4, True), 'I': (4, False),
         'l': (4, True), 'L': (4, False), 'q': (8, True), 'Q': (8, False)}


def is_bytes(v):
  return isinstance(v, V) and v.ty.k == 'bytes'


def mk_bytes(atoms):
  return V(BYTES, py=list(atoms))


def const_atoms(b):
  if len(b) == 0:
    return []
  return [('u', len(b), z3.IntVal(int.from_bytes(b, 'big')))]


def normalise(atoms):
  out = []
  for a in atoms:
    if a[0] == 'u' and out and out[-1][0] == 'u' and isinstance(out[-1][1], int) and isinstance(a[1], int):
      _, w1, v1 = out[-1]
      out[-1] = ('u', w1 + a[1], v1 * z3.IntVal(256 ** a[1]) + a[2])
    elif a[0] == 'u' and a[1] == 0:
      continue
    elif a[0] == 'sl' and out and out[-1][0] == 'sl' and z3.eq(out[-1][1], a[1]) and \
        z3.is_true(z3.simplify(out[-1][2] + out[-1][3] == a[2])):
      # adjacent slices of the same stream join: s[p:p+a] ++ s[p+a:p+a+b] = s[p:p+a+b]
      out[-1] = ('sl', a[1], out[-1][2], z3.simplify(out[-1][3] + a[3]))
    elif a[0] == 'sl' and z3.is_true(z3.simplify(a[3] == 0)):
      continue
    else:
      out.append(a)
  return out


def blen(atoms):
  n = z3.IntVal(0)
  for a in atoms:
    if a[0] == 'u':
      n = n + a[1]
    elif a[0] == 'raw':
      n = n + a[2]
    elif a[0] == 'fix':
      n = n + a[3]
    elif a[0] == 'sl':
      n = n + a[3]
  return z3.simplify(n)


def atoms_eq(a, b):
  """z3 Bool: the two byte strings are equal; None if their shapes cannot be aligned."""
  a, b = normalise(a), normalise(b)
  if len(a) != len(b):
    return None
  parts = []
  for x, y in zip(a, b):
    if x[0] != y[0]:
      # a fixed-width packing equals the raw bytes exactly when nothing was cut or padded
      if {x[0], y[0]} == {'raw', 'fix'}:
        f, r = (x, y) if x[0] == 'fix' else (y, x)
        parts.append(z3.And(f[1] == r[1], f[2] == r[2], f[3] == f[2]))
        continue
      return None
    if x[0] == 'sl':
      parts.append(z3.And(x[1] == y[1], x[2] == y[2], x[3] == y[3]))
      continue
    if x[0] == 'u':
      if x[1] != y[1]:
        return None
      parts.append(x[2] == y[2])
    elif x[0] == 'raw':
      parts.append(z3.And(x[1] == y[1], x[2] == y[2]))
    else:
      parts.append(z3.And(x[1] == y[1], x[2] == y[2], x[3] == y[3]))
  return z3.And(*parts) if parts else z3.BoolVal(True)


def parse_format(fmt, args):
  """'!h%ds' with python-level % arguments -> [(code, count)] ; count may be a z3 term for 's'."""
  fmt = fmt.lstrip('!<>=@')
  out = []
  argi = 0
  pos = 0
  while pos < len(fmt):
    m = re.match(r'(%d|\d+)?([a-zA-Z])', fmt[pos:])
    if not m:
      raise Unsupported('struct format %r' % fmt)
    cnt, code = m.group(1), m.group(2)
    if cnt == '%d':
      count = args[argi]
      argi += 1
    elif cnt:
      count = int(cnt)
    else:
      count = 1
    out.append((code, count))
    pos += m.end()
  return out


class FmtTemplate(object):
  """A struct format string, possibly with %d holes already bound to symbolic counts."""
  def __init__(self, text, args=()):
    self.text = text
    self.args = list(args)

  def fields(self):
    return parse_format(self.text, self.args)


class BytesMixin(object):

  # ------------------------------------------------------------------ buffers
  def buf_key(self, v):
    return z3.simplify(v.t).sexpr()

  def buf_of(self, st, v, create=True):
    k = self.buf_key(v)
    b = st.bufs.get(k)
    if b is None:
      if not create:
        return None
      # a stream we know nothing about: an opaque prefix already written, nothing read yet
      sym = z3.Int(fresh_name('prefix'))
      n = z3.Int(fresh_name('prefixlen'))
      st.assume(n >= 0)
      b = {'data': [('raw', sym, n)], 'rpos': 0, 'mark': 1}
      st.bufs[k] = b
    return b

  def new_buffer(self, st, atoms=()):
    r = self.new_ref(st, 'Stream')
    v = V(Ty('ref', (), 'Stream'), r)
    st.bufs[self.buf_key(v)] = {'data': list(atoms), 'rpos': 0, 'mark': 0}
    return v

  def stream_method(self, st, cx, recv, name, args, node):
    b = dict(self.buf_of(st, recv))
    b['data'] = list(b['data'])
    st.bufs[self.buf_key(recv)] = b
    if name == 'write':
      data = args[0]
      if not is_bytes(data):
        # writing text to a binary stream
        for o in self.oblige_or_raise(st, cx, z3.BoolVal(False), 'TypeError', node, 'a bytes-like object is required, not %r' % (getattr(data, 'ty', data),)):
          yield o
        return
      b['data'] = b['data'] + list(data.py)
      yield st, NONE_V
    elif name == 'getvalue':
      yield st, mk_bytes(b['data'])
    elif name == 'tell':
      if b['rpos'] == 0:
        yield st, V(INT, blen(b['data']))      # write mode: the position is the end
      else:
        yield st, V(INT, blen(b['data'][:b['rpos']]))
    elif name == 'seek':
      c = z3.simplify(args[0].t)
      if not (z3.is_int_value(c) and c.as_long() == 0):
        raise Unsupported('seek to a non-zero position')
      b['rpos'] = 0
      b['reading'] = True
      yield st, NONE_V
    elif name == 'read':
      unread = b['data'][b['rpos']:] if b.get('reading') or b['rpos'] else b['data'][b['rpos']:]
      if not args:
        b['rpos'] = len(b['data'])
        b['reading'] = True
        yield st, mk_bytes(unread)
        return
      n = z3.simplify(num_term(args[0], False))
      taken, rest, ok = self.take(st, normalise(unread), n)
      if taken is None:
        raise Unsupported('read(%s) does not fall on an atom boundary of the stream (line %s)' % (n, getattr(node, 'lineno', '?')))
      b['data'] = b['data'][:b['rpos']] + taken + rest
      b['rpos'] = b['rpos'] + len(taken)
      b['reading'] = True
      yield st, mk_bytes(taken)
    else:
      raise Unsupported('stream method %s' % name)

  def take(self, st, atoms, n):
    """Split off the first n bytes -> (taken atoms, rest atoms, side condition)."""
    if z3.is_int_value(n):
      want = n.as_long()
      taken = []
      have = 0
      rest = list(atoms)
      while have < want and rest:
        a = rest[0]
        if a[0] != 'u':
          # a raw atom whose length is provably the remaining amount: its bytes read as one
          # big-endian integer (an uninterpreted function of the chunk)
          if a[0] == 'raw' and (simp_bool(a[2] == want - have) is True or self.entails(st, a[2] == want - have)):
            w = want - have
            val = z3.Function('bytes_as_int', I, I)(a[1])
            st.assume(z3.And(val >= 0, val < z3.IntVal(256 ** w)))
            taken.append(('u', w, val)); rest.pop(0); have = want
            break
          return None, None, None
        w, v = a[1], a[2]
        if have + w <= want:
          taken.append(a); rest.pop(0); have += w
        else:
          need = want - have
          lo_w = w - need
          taken.append(('u', need, v / z3.IntVal(256 ** lo_w)))
          rest[0] = ('u', lo_w, v % z3.IntVal(256 ** lo_w))
          have = want
      if have != want:
        return None, None, None     # short read (EOF) is not modelled here
      return taken, rest, z3.BoolVal(True)
    # symbolic amount: must be exactly the next atom (possibly several whose lengths add up)
    if atoms and atoms[0][0] in ('raw', 'fix'):
      ln = atoms[0][2] if atoms[0][0] == 'raw' else atoms[0][3]
      if simp_bool(ln == n) is True or self.entails(st, ln == n):
        return [atoms[0]], list(atoms[1:]), z3.BoolVal(True)
    return None, None, None

  def entails(self, st, goal):
    s = z3.Solver()
    s.set('timeout', 2000)
    s.add(*st.pc)
    s.add(z3.Not(goal))
    return s.check() == z3.unsat

  # ------------------------------------------------------------------ struct
  def fmt_of(self, v):
    if isinstance(v, V) and v.ty.k == 'str':
      if isinstance(v.py, FmtTemplate):
        return v.py
      if isinstance(v.py, str):
        return FmtTemplate(v.py)
    if isinstance(v, V) and v.ty.k == 'structfmt':
      return v.py
    raise Unsupported('struct format must be a literal (got %r)' % (v,))

  def struct_pack(self, st, cx, fmt, args, node):
    fields = fmt.fields()
    atoms = []
    ai = 0
    outs = [(st, None)]
    for code, count in fields:
      if code == 's':
        if ai >= len(args):
          raise Unsupported('pack: too few arguments')
        val = args[ai]; ai += 1
        if not is_bytes(val):
          # struct.error: argument for 's' must be a bytes object
          for s2, e in self.oblige_or_raise(st, cx, z3.BoolVal(False), 'struct.error', node,
                                            "argument for 's' must be a bytes object, not %r" % (getattr(val, 'ty', val),)):
            yield s2, e
          return
        w = count if not isinstance(count, int) else z3.IntVal(count)
        w = w.t if isinstance(w, V) else w
        src = normalise(val.py)
        if len(src) == 1 and src[0][0] == 'raw':
          atoms.append(('fix', src[0][1], src[0][2], z3.simplify(w)))
        elif len(src) == 0:
          atoms.append(('fix', z3.IntVal(0), z3.IntVal(0), z3.simplify(w)))
        elif all(a[0] == 'u' for a in src) and z3.is_int_value(z3.simplify(w)) and z3.simplify(w).as_long() == sum(a[1] for a in src):
          atoms.extend(src)
        else:
          raise Unsupported("pack 's' of a composite byte string")
        continue
      if code not in CODES or not isinstance(count, int):
        raise Unsupported('struct code %r' % code)
      width, signed = CODES[code]
      for _ in range(count):
        if ai >= len(args):
          raise Unsupported('pack: too few arguments (line %s)' % getattr(node, 'lineno', '?'))
        val = args[ai]; ai += 1
        if not (isinstance(val, V) and val.ty.k in ('int', 'bool') and val.none is None):
          for s2, e in self.oblige_or_raise(st, cx, z3.BoolVal(False), 'struct.error', node,
                                            'required argument is not an integer (%r)' % (getattr(val, 'ty', val),)):
            yield s2, e
          return
        x = num_term(val, False)
        lo, hi = (-(2 ** (8 * width - 1)), 2 ** (8 * width - 1) - 1) if signed else (0, 2 ** (8 * width) - 1)
        rng = z3.And(x >= lo, x <= hi)
        new_outs = []
        for s0, _ in outs:
          for s2, e in self.oblige_or_raise(s0, cx, rng, 'struct.error', node, "'%s' format requires %d <= number <= %d" % (code, lo, hi)):
            if isinstance(e, Exc):
              yield s2, e
            else:
              new_outs.append((s2, None))
        outs = new_outs
        atoms.append(('u', width, z3.If(x < 0, x + z3.IntVal(2 ** (8 * width)), x) if signed else x))
    if ai != len(args):
      for s2, e in self.oblige_or_raise(st, cx, z3.BoolVal(False), 'struct.error', node, 'pack expected %d items, got %d' % (ai, len(args))):
        yield s2, e
      return
    for s0, _ in outs:
      yield s0, mk_bytes(atoms)

  def struct_unpack(self, st, cx, fmt, data, node):
    fields = fmt.fields()
    atoms = normalise(data.py)
    if (len(atoms) == 1 and atoms[0][0] == 'raw' and not z3.is_int_value(z3.simplify(atoms[0][2]))
        and all(code in CODES and isinstance(count, int) for code, count in fields)):
      # one opaque chunk of unknown length (e.g. a short read): struct.error unless it has exactly the format's size
      total = sum(CODES[code][0] * count for code, count in fields)
      for s2, e in self.oblige_or_raise(st, cx, atoms[0][2] == total, 'struct.error', node, 'unpack requires a buffer of %d bytes' % total):
        if isinstance(e, Exc):
          yield s2, e
        else:
          for o in self.struct_unpack(s2, cx, fmt, mk_bytes([('raw', atoms[0][1], z3.IntVal(total))]), node):
            yield o
      return
    vals = []
    for code, count in fields:
      if code not in CODES or not isinstance(count, int):
        raise Unsupported('unpack code %r' % code)
      width, signed = CODES[code]
      for _ in range(count):
        taken, atoms, ok = self.take(st, atoms, z3.IntVal(width))
        if taken is None:
          raise Unsupported('unpack does not fall on an atom boundary (line %s)' % getattr(node, 'lineno', '?'))
        t = normalise(taken)
        v = t[0][2]
        if signed:
          v = z3.If(v >= z3.IntVal(2 ** (8 * width - 1)), v - z3.IntVal(2 ** (8 * width)), v)
        vals.append(V(INT, v))
    if atoms:
      # struct.error: unpack requires a buffer of exactly n bytes
      for s2, e in self.oblige_or_raise(st, cx, blen(atoms) == 0, 'struct.error', node, 'unpack requires a buffer of the exact size'):
        if isinstance(e, Exc):
          yield s2, e
        else:
          yield s2, V(Ty('tuple', [INT] * len(vals)), items=vals)
      return
    yield st, V(Ty('tuple', [INT] * len(vals)), items=vals)

  # ------------------------------------------------------------------ spec-side builders
  def bytes_spec_fn(self, st, cx, name, args, node):
    def u(w, x, signed):
      t = num_term(x, False)
      if signed:
        t = z3.If(t < 0, t + z3.IntVal(2 ** (8 * w)), t)
      return mk_bytes([('u', w, t)])
    table = {'bi8': (1, True), 'bu8': (1, False), 'bi16': (2, True), 'bu16': (2, False), 'bu24': (3, False),
             'bi32': (4, True), 'bu32': (4, False), 'bi64': (8, True)}
    if name in table:
      w, s = table[name]
      return u(w, args[0], s)
    if name == 'bcat':
      atoms = []
      for a in args:
        if not is_bytes(a):
          raise Unsupported('bcat of a non-bytes value')
        atoms.extend(a.py)
      return mk_bytes(atoms)
    if name == 'braw':
      return mk_bytes([('raw', coerce(args[0], ANY) if args[0].ty.k != 'int' else args[0].t, num_term(args[1], False))])
    if name == 'dyn_attr':
      return V(ANY, z3.Function('dyn_attr', I, I, I)(args[0].t, args[1].t))
    if name == 'split_part':
      return V(STR, z3.Function('split_part', I, I, I, I)(args[0].t, args[1].t, num_term(args[2], False)))
    if name == 'split_count':
      return V(INT, z3.Function('split_count', I, I, I)(args[0].t, args[1].t))
    if name == 'str_to_int':
      return V(INT, z3.Function('str_to_int', I, I)(args[0].t))
    if name == 'bslice':       # bytes [pos, pos+n) of the (opaque) byte stream named by the first argument
      return mk_bytes([('sl', args[0].t if args[0].ty.k == 'int' else coerce(args[0], ANY), num_term(args[1], False), num_term(args[2], False))])
    if name == 'bempty':
      return mk_bytes([])
    if name == 'blen':
      return V(INT, blen(args[0].py))
    if name == 'beq':
      r = atoms_eq(args[0].py, args[1].py)
      if r is None:
        # shapes differ: equal only if the byte strings could still coincide -- they cannot be
        # aligned atom by atom, which for well-formed specs means "different"
        return V(BOOL, z3.BoolVal(False))
      return V(BOOL, r)
    if name == 'written':      # everything appended to the stream by this function
      b = self.buf_of(st, args[0])
      return mk_bytes(b['data'][b.get('mark', 0):])
    if name == 'stream_front':
      # unfold a repetition: the unread rest of the stream starts with the given bytes
      # (precondition "the stream is the encoding of ..." applied to the next element)
      b = dict(self.buf_of(st, args[0]))
      rest_sym, rest_len = z3.Int(fresh_name('rest')), z3.Int(fresh_name('restlen'))
      st.assume(rest_len >= 0)
      b['data'] = list(b['data'][:b['rpos']]) + list(args[1].py) + [('raw', rest_sym, rest_len)]
      b['reading'] = True
      st.bufs[self.buf_key(args[0])] = b
      return mk_bool(True)
    if name == 'summands':     # the list whose sum() produced this number
      if not (isinstance(args[0].py, tuple) and args[0].py and args[0].py[0] == 'sum'):
        raise Unsupported('summands(): the value is not the result of sum(<list>)')
      return args[0].py[1]
    if name == 'sum_of':       # the function behind python's sum() on a list
      return V(INT, z3.Function('sum_list', I, I)(args[0].t))
    if name == 'crc_of':       # zlib.crc32 of a byte string (same uninterpreted function as the code's)
      parts = []
      for a in normalise(args[0].py):
        parts.extend([z3.IntVal({'u': 1, 'raw': 2, 'fix': 3}[a[0]])] + [x if not isinstance(x, int) else z3.IntVal(x) for x in a[1:]])
      f = z3.Function('crc32_%d' % len(parts), *([I] * (len(parts) + 1)))
      return V(INT, f(*parts))
    if name == 'bmark':        # position marker: number of atoms written so far (ghost bookkeeping)
      return V(INT, z3.IntVal(len(self.buf_of(st, args[0])['data'])))
    if name == 'since':        # bytes appended after a marker
      b = self.buf_of(st, args[0])
      return mk_bytes(b['data'][z3.simplify(args[1].t).as_long():])
    if name == 'content':
      b = self.buf_of(st, args[0])
      return mk_bytes(b['data'])
    if name == 'utf8':         # the UTF-8 encoding of a text value, as raw bytes of length utf8len
      f = z3.Function('utf8', I, I)
      g = z3.Function('utf8len', I, I)
      return mk_bytes([('raw', f(args[0].t), g(args[0].t))])
    raise Unsupported('byte builder %s' % name)


BYTE_SPEC_FNS = ('bi8', 'bu8', 'bi16', 'bu16', 'bu24', 'bi32', 'bu32', 'bi64', 'bcat', 'braw', 'bempty', 'blen', 'beq',
                 'written', 'content', 'utf8', 'bmark', 'since', 'sum_of', 'crc_of', 'summands', 'stream_front', 'bslice', 'split_part', 'split_count', 'str_to_int', 'dyn_attr')
