"""Heap model: one SMT array per (class, field) and per container component."""
import ast
import re
import z3

from .types import Ty, INT, BOOL, REAL, ANY, parse_type, base_sort, flatten
from .state import (V, Unsupported, fresh_name, to_terms, from_terms, mk_int, mk_bool, NONE_V, coerce)
from .source import SourceError

I = z3.IntSort()
B = z3.BoolSort()


class HeapMixin(object):
  """Needs: self.reg (Registry), self.src (Sources)."""

  # ---------------------------------------------------------------- classes
  def class_info(self, name):
    ci = self.reg.classes.get(name)
    if ci is None:
      raise Unsupported('class %s has no sidecar declaration' % name)
    return ci

  def class_node(self, name):
    ci = self.class_info(name)
    if ci.extern or ci.path is None:
      return None, None
    mod = self.src.module(ci.file)
    return mod.find(ci.path), mod

  def class_bases(self, name):
    ci = self.class_info(name)
    if ci.bases is not None:
      return list(ci.bases)
    node, mod = self.class_node(name)
    out = []
    if node is not None:
      for b in node.bases:
        bn = b.id if isinstance(b, ast.Name) else (b.attr if isinstance(b, ast.Attribute) else None)
        if bn and bn in self.reg.classes:
          out.append(bn)
    return out

  def mro(self, name):
    out = []
    def rec(n):
      if n in out:
        return
      out.append(n)
      for b in self.class_bases(n):
        rec(b)
    rec(name)
    return out

  def is_subclass(self, a, b):
    return b in self.mro(a)

  _cls_ids = None
  def class_id(self, name):
    if self._cls_ids is None:
      self._cls_ids = {}
    if name not in self._cls_ids:
      self._cls_ids[name] = len(self._cls_ids) + 1
    return self._cls_ids[name]

  def subclasses_of(self, name):
    return [c for c in self.reg.classes if name in self.mro(c)]

  def field_decl(self, cls, field):
    """(declaring class, type) of a declared field, following the MRO."""
    for c in self.mro(cls):
      ci = self.class_info(c)
      if field in ci.fields:
        return c, ci.fields[field]
    return None, None

  def find_member(self, cls, name):
    """Find a def/assign in the repo class bodies along the MRO -> (node, mod, owner class)."""
    for c in self.mro(cls):
      node, mod = self.class_node(c)
      if node is None:
        continue
      for n in node.body:
        if isinstance(n, ast.FunctionDef) and n.name == name:
          return n, mod, c
        if isinstance(n, ast.Assign):
          for t in n.targets:
            if isinstance(t, ast.Name) and t.id == name:
              return n, mod, c
        if isinstance(n, ast.ClassDef) and n.name == name:
          return n, mod, c
    return None, None, None

  # ---------------------------------------------------------------- arrays
  def arr(self, st, key, sorts):
    """Current array for heap key (created fresh on first use; also recorded in 'old')."""
    a = st.heap.get(key)
    if a is None:
      so = sorts[-1]
      for d in reversed(sorts[:-1]):
        so = z3.ArraySort(d, so)
      a = z3.Const('H_' + key.replace(' ', ''), so)
      st.heap[key] = a
      for lab in st.labels.values():
        lab.setdefault(key, a)
      self.heap_sorts[key] = sorts
    return a

  def container_components(self, ty):
    """[(key, sorts)] of every heap array backing container type ty."""
    out = []
    if ty.k == 'list':
      out.append((self.ckey(ty, 'len'), [I, I]))
      for suf, so in flatten(ty.args[0]):
        out.append((self.ckey(ty, 'items') + suf, [I, I, so]))
    elif ty.k == 'deque':
      out.append((self.ckey(ty, 'lo'), [I, I]))
      out.append((self.ckey(ty, 'hi'), [I, I]))
      for suf, so in flatten(ty.args[0]):
        out.append((self.ckey(ty, 'items') + suf, [I, I, so]))
    elif ty.k == 'set':
      out.append((self.ckey(ty, 'mem'), [I, base_sort(ty.args[0]), B]))
      out.append((self.ckey(ty, 'card'), [I, I]))
    elif ty.k in ('dict', 'ddict'):
      out.append((self.ckey(ty, 'has'), [I, base_sort(ty.args[0]), B]))
      out.append((self.ckey(ty, 'card'), [I, I]))
      for suf, so in flatten(ty.args[1]):
        out.append((self.ckey(ty, 'val') + suf, [I, base_sort(ty.args[0]), so]))
    return out

  def expand_pattern(self, pat):
    """A modifies entry -> [(key, sorts)].  Forms: 'Class.field', 'list[T]' (all
    components), 'list[T].items' (one component family), '$cls'."""
    pat = pat.strip()
    if pat == '*':     # everything (forwarding into arbitrary downstream code); '$cls' tags are immutable
      return [(k, so) for k, so in list(self.heap_sorts.items()) if k != '$cls']
    if pat == '$cls':
      return [('$cls', [I, I])]
    m = re.match(r'^(list|set|dict|ddict|deque)\[.*\]', pat)
    if m:
      depth = 0
      end = None
      for n, ch in enumerate(pat):
        if ch == '[':
          depth += 1
        elif ch == ']':
          depth -= 1
          if depth == 0:
            end = n + 1
            break
      ty = parse_type(pat[:end])
      comps = self.container_components(ty)
      rest = pat[end:]
      if rest:
        comp = rest.lstrip('.')
        comps = [(k, s) for k, s in comps
                 if k[len(repr(ty)) + 1:].split('#')[0] == comp]
        if not comps:
          raise Unsupported('bad modifies entry %r' % pat)
      return comps
    cls, _, field = pat.rpartition('.')
    owner, ty = self.field_decl(cls, field)
    if owner is None:
      raise Unsupported('bad modifies entry %r' % pat)
    return [(self.fkey(owner, field) + suf, [I, so]) for suf, so in flatten(ty)]

  def key_holds_refs(self, key):
    """True if the heap component stores object references (for bounded model search)."""
    try:
      if key == '$cls':
        return False
      m = re.match(r'^((list|set|dict|ddict|deque)\[.*\])\.(\w+)((#\d+)*)(#none)?$', key)
      if m:
        ty = parse_type(m.group(1))
        comp = m.group(3)
        if comp in ('len', 'lo', 'hi', 'card', 'mem', 'has') or m.group(6):
          return False
        ety = ty.args[0] if comp == 'items' else ty.args[-1]
        for idx in re.findall(r'#(\d+)', m.group(4) or ''):
          ety = ety.args[int(idx)]
        return ety.k in ('ref', 'list', 'set', 'dict', 'deque')
      base = key.split('#')[0]
      cls, _, field = base.rpartition('.')
      owner, ty = self.field_decl(cls, field)
      if ty is None or key.endswith('#none'):
        return False
      for idx in re.findall(r'#(\d+)', key[len(base):]):
        ty = ty.args[int(idx)]
      return ty.k in ('ref', 'list', 'set', 'dict', 'deque')
    except Exception:
      return False

  def havoc_key(self, st, key, sorts):
    self.arr(st, key, sorts)   # make sure the entry-state array exists in the snapshots
    so = sorts[-1]
    for d in reversed(sorts[:-1]):
      so = z3.ArraySort(d, so)
    st.heap[key] = z3.Const(fresh_name('H_' + key.replace(' ', '')), so)

  def havoc_patterns(self, st, pats):
    for p in pats:
      for key, sorts in self.expand_pattern(p):
        if key == '$cls':
          continue      # class tags of existing objects never change; tags of new objects are whatever they are
        self.havoc_key(st, key, sorts)

  def keys_of_patterns(self, pats):
    out = set()
    if '*' in pats:
      out.add('*')
    for p in pats:
      for key, sorts in self.expand_pattern(p):
        out.add(key)
    return out

  # ---------------------------------------------------------------- fields
  def fkey(self, owner, field):
    return '%s.%s' % (owner, field)

  def load_field(self, st, ref, cls, field):
    owner, ty = self.field_decl(cls, field)
    if owner is None:
      raise Unsupported('field %s.%s not declared' % (cls, field))
    terms = []
    for suf, so in flatten(ty):
      a = self.arr(st, self.fkey(owner, field) + suf, [I, so])
      terms.append(z3.Select(a, ref))
    v = from_terms(terms, ty)
    self.note_read(st, v)
    return v

  def store_field(self, st, ref, cls, field, val):
    owner, ty = self.field_decl(cls, field)
    if owner is None:
      raise Unsupported('field %s.%s not declared' % (cls, field))
    terms = to_terms(val, ty)
    for (suf, so), t in zip(flatten(ty), terms):
      key = self.fkey(owner, field) + suf
      a = self.arr(st, key, [I, so])
      st.heap[key] = z3.Store(a, ref, t)

  def note_read(self, st, v):
    """Well-formedness facts of a value just read from the heap / received as input."""
    if self.spec_depth:
      return
    ty = v.ty
    if ty.k == 'tuple':
      for it in v.items:
        self.note_read(st, it)
      return
    if ty.is_reflike and ty.k not in ('str', 'any') and v.t is not None:
      if ty.opt:
        st.assume_wf(z3.And(v.t >= 0, v.t <= st.alloc))
      else:
        st.assume_wf(z3.And(v.t > 0, v.t <= st.alloc))
      if ty.k == 'ref':
        ci = self.reg.classes.get(ty.name)
        if ci is not None and ci.final:
          tag = self.dyn_class(st, v.t) == self.class_id(ty.name)
          st.assume_wf(z3.Implies(v.t != 0, tag) if ty.opt else tag)

  # ---------------------------------------------------------------- allocation
  def new_ref(self, st, cls=None):
    r = z3.Int(fresh_name('new'))
    st.assume(r == st.alloc + 1)     # dense allocation: no unconstrained references in between
    st.alloc = r
    if cls is not None and cls in self.reg.classes and self.reg.classes[cls].final:
      st.maybe_final = True
    # every new object gets a dynamic class tag (containers and closures: '$obj')
    a = self.arr(st, '$cls', [I, I])
    st.heap['$cls'] = z3.Store(a, r, z3.IntVal(self.class_id(cls if cls is not None else '$obj')))
    return r

  def dyn_class(self, st, ref):
    return z3.Select(self.arr(st, '$cls', [I, I]), ref)

  def key_term(self, st, v, kty):
    """The term a dictionary / set keys a value by.  Instances of a class the sidecar declares with value_key
    (its __eq__/__hash__ compare exactly those fields: an obligation on the class, see lemma_source_*) are keyed
    by an injective function of those fields; everything else by its own term."""
    if kty.k == 'ref' and isinstance(v, V) and v.ty.k == 'ref':
      ci = self.reg.classes.get(kty.name)
      if ci is not None and ci.value_key:
        fs = [self.load_field(st, v.t, kty.name, f) for f in ci.value_key]
        ts = [coerce(f, f.ty) for f in fs]
        fn = z3.Function('vkey_' + kty.name, *([I] * (len(ts) + 1)))
        k = fn(*ts)
        mark = ('vkey', kty.name)
        if mark not in st.wf_ids:      # injective: each field is recovered from the key (axiom, once per path)
          st.wf_ids.add(mark)
          xs = [z3.Int('vk%d' % n) for n in range(len(ts))]
          body = z3.And(*([z3.Function('vkey_%s_%d' % (kty.name, n), I, I)(fn(*xs)) == xs[n] for n in range(len(ts))] + [fn(*xs) > 0]))
          st.assume(z3.ForAll(xs, body, patterns=[fn(*xs)]))
        return k
    return coerce(v, kty)

  # ---------------------------------------------------------------- lists
  def ckey(self, ty, comp):
    return '%r.%s' % (ty.with_opt(False), comp)

  def list_len(self, st, lst):
    a = self.arr(st, self.ckey(lst.ty, 'len'), [I, I])
    n = z3.Select(a, lst.t)
    if not self.spec_depth:
      st.assume_wf(n >= 0)
    return n

  def set_list_len(self, st, lst, n):
    key = self.ckey(lst.ty, 'len')
    a = self.arr(st, key, [I, I])
    st.heap[key] = z3.Store(a, lst.t, n)

  def list_get(self, st, lst, idx):
    ety = lst.ty.args[0]
    terms = []
    for suf, so in flatten(ety):
      a = self.arr(st, self.ckey(lst.ty, 'items') + suf, [I, I, so])
      terms.append(z3.Select(z3.Select(a, lst.t), idx))
    v = from_terms(terms, ety)
    self.note_read(st, v)
    if ety.k == 'bytes' and not self.spec_depth:
      st.assume(v.py[0][2] >= 0)
    return v

  def list_set(self, st, lst, idx, val):
    ety = lst.ty.args[0]
    terms = to_terms(val, ety)
    for (suf, so), t in zip(flatten(ety), terms):
      key = self.ckey(lst.ty, 'items') + suf
      a = self.arr(st, key, [I, I, so])
      st.heap[key] = z3.Store(a, lst.t, z3.Store(z3.Select(a, lst.t), idx, t))

  def new_list(self, st, ty, items):
    r = self.new_ref(st)
    lst = V(ty.with_opt(False), r)
    self.set_list_len(st, lst, z3.IntVal(len(items)))
    for n, it in enumerate(items):
      self.list_set(st, lst, z3.IntVal(n), it)
    return lst

  # deque: items live at absolute positions [lo, hi)
  def dq_bounds(self, st, dq):
    lo = z3.Select(self.arr(st, self.ckey(dq.ty, 'lo'), [I, I]), dq.t)
    hi = z3.Select(self.arr(st, self.ckey(dq.ty, 'hi'), [I, I]), dq.t)
    if not self.spec_depth:
      st.assume_wf(lo <= hi)
    return lo, hi

  def dq_set_bounds(self, st, dq, lo=None, hi=None):
    for comp, v in (('lo', lo), ('hi', hi)):
      if v is not None:
        key = self.ckey(dq.ty, comp)
        a = self.arr(st, key, [I, I])
        st.heap[key] = z3.Store(a, dq.t, v)

  # ---------------------------------------------------------------- sets / dicts
  def set_mem_arr(self, st, s):
    ety = s.ty.args[0]
    return z3.Select(self.arr(st, self.ckey(s.ty, 'mem'), [I, base_sort(ety), B]), s.t)

  def set_card(self, st, s):
    c = z3.Select(self.arr(st, self.ckey(s.ty, 'card'), [I, I]), s.t)
    if not self.spec_depth:
      st.assume_wf(c >= 0)
    return c

  def set_update(self, st, s, mem=None, card=None):
    ety = s.ty.args[0]
    if mem is not None:
      key = self.ckey(s.ty, 'mem')
      a = self.arr(st, key, [I, base_sort(ety), B])
      st.heap[key] = z3.Store(a, s.t, mem)
    if card is not None:
      key = self.ckey(s.ty, 'card')
      a = self.arr(st, key, [I, I])
      st.heap[key] = z3.Store(a, s.t, card)

  def dict_has_arr(self, st, d):
    kty = d.ty.args[0]
    return z3.Select(self.arr(st, self.ckey(d.ty, 'has'), [I, base_sort(kty), B]), d.t)

  def dict_get(self, st, d, k):
    kty, vty = d.ty.args
    terms = []
    for suf, so in flatten(vty):
      a = self.arr(st, self.ckey(d.ty, 'val') + suf, [I, base_sort(kty), so])
      terms.append(z3.Select(z3.Select(a, d.t), k))
    v = from_terms(terms, vty)
    self.note_read(st, v)
    return v

  def dict_set(self, st, d, k, val, has=True):
    kty, vty = d.ty.args
    hk = self.ckey(d.ty, 'has')
    a = self.arr(st, hk, [I, base_sort(kty), B])
    old_has = z3.Select(z3.Select(a, d.t), k)
    st.heap[hk] = z3.Store(a, d.t, z3.Store(z3.Select(a, d.t), k, z3.BoolVal(has)))
    ck = self.ckey(d.ty, 'card')
    ca = self.arr(st, ck, [I, I])
    c = z3.Select(ca, d.t)
    if has:
      st.heap[ck] = z3.Store(ca, d.t, z3.If(old_has, c, c + 1))
    else:
      st.heap[ck] = z3.Store(ca, d.t, z3.If(old_has, c - 1, c))
    if has and val is not None:
      terms = to_terms(val, vty)
      for (suf, so), t in zip(flatten(vty), terms):
        key = self.ckey(d.ty, 'val') + suf
        va = self.arr(st, key, [I, base_sort(kty), so])
        st.heap[key] = z3.Store(va, d.t, z3.Store(z3.Select(va, d.t), k, t))

  def dict_init_empty(self, st, d):
    kty = d.ty.args[0]
    hk = self.ckey(d.ty, 'has')
    a = self.arr(st, hk, [I, base_sort(kty), B])
    st.heap[hk] = z3.Store(a, d.t, z3.EmptySet(base_sort(kty)))
    ck = self.ckey(d.ty, 'card')
    ca = self.arr(st, ck, [I, I])
    st.heap[ck] = z3.Store(ca, d.t, z3.IntVal(0))

  def dict_card(self, st, d):
    c = z3.Select(self.arr(st, self.ckey(d.ty, 'card'), [I, I]), d.t)
    if not self.spec_depth:
      st.assume_wf(c >= 0)
    return c
