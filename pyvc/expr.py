"""Expression evaluation (symbolic), shared by repository code and spec clauses."""
import ast
import re
import z3

from .types import Ty, INT, REAL, BOOL, STR, NONE, ANY, FN, parse_type, base_sort
from .state import (V, VFunc, VBound, VClass, VModule, Exc, Unsupported, fresh_name, fn_term,
                    mk_int, mk_bool, mk_real, NONE_V, coerce)

I = z3.IntSort()

BUILTINS = ('len', 'max', 'min', 'int', 'float', 'isinstance', 'any', 'all', 'str', 'abs',
            'range', 'sum', 'next', 'enumerate', 'list', 'set', 'callable', 'getattr',
            'super', 'bool', 'sorted', 'tuple', 'dict', 'hash', 'type', 'bytearray',
            'memoryview', 'hasattr', 'Exception', 'NotImplementedError', 'ValueError',
            'AttributeError', 'EOFError', 'TypeError', 'KeyError', 'IndexError',
            'RuntimeError', 'StopIteration', 'ZeroDivisionError')
SPEC_BUILTINS = ('forall', 'exists', 'implies', 'iff', 'old', 'at', 'ite', 'forall_ref',
                 'exists_ref', 'allocated', 'fresh', 'typeof', 'unchanged', 'card',
                 'select', 'floor_div', 'truthy', 'is_none', 'caught', 'dyn_is', 'cast', 'tag_is', 'subset',
                 'set_eq', 'set_minus', 'set_union', 'set_add', 'set_del', 'empty_set',
                 'disjoint', 'has_key', 'keys_eq', 'seq_eq', 'let', 'setof', 'dq_lo', 'dq_hi', 'dq_at',
                 'bi8', 'bu8', 'bi16', 'bu16', 'bu24', 'bi32', 'bu32', 'bi64', 'bcat', 'braw', 'bempty', 'blen', 'beq',
                 'written', 'content', 'utf8', 'bmark', 'since', 'sum_of', 'crc_of', 'summands', 'stream_front', 'bslice', 'split_part', 'split_count', 'str_to_int', 'dyn_attr')


class Ctx(object):
  """Lexical context: module, enclosing class, chain of frame ids (innermost first)."""
  def __init__(self, mod, cls, chain, spec=None, qual=''):
    self.mod = mod
    self.cls = cls
    self.chain = chain
    self.spec = spec
    self.qual = qual

  def child(self, fid, **kw):
    return Ctx(kw.get('mod', self.mod), kw.get('cls', self.cls), [fid] + list(kw.get('chain', self.chain)),
               kw.get('spec', self.spec), kw.get('qual', self.qual))


class StrTable(object):
  """String literals are interned to distinct integer ids (>= BASE)."""
  BASE = 1000000

  def __init__(self):
    self.ids = {}
    self.rev = {}

  def get(self, s):
    if s not in self.ids:
      n = self.BASE + len(self.ids)
      self.ids[s] = n
      self.rev[n] = s
    return self.ids[s]


def is_num(v):
  return isinstance(v, V) and v.ty.k in ('int', 'real', 'bool') and not v.ty.opt


def num_term(v, want_real):
  if v.ty.k == 'bool':
    t = z3.If(v.t, z3.IntVal(1), z3.IntVal(0))
    return z3.ToReal(t) if want_real else t
  if v.ty.k == 'int':
    return z3.ToReal(v.t) if want_real else v.t
  return v.t


def simp_bool(b):
  s = z3.simplify(b)
  if z3.is_true(s):
    return True
  if z3.is_false(s):
    return False
  return None


class ExprMixin(object):

  # ------------------------------------------------------------------ helpers
  def truth(self, st, v):
    """z3 Bool: python truthiness of v."""
    if isinstance(v, (VFunc, VBound, VClass, VModule)):
      return z3.BoolVal(True)
    ty = v.ty
    if ty.k == 'none':
      return z3.BoolVal(False)
    if ty.k == 'tuple':
      base = z3.BoolVal(len(v.items) > 0)
      return z3.And(z3.Not(v.none), base) if v.none is not None else base
    if ty.k in ('int', 'real', 'bool'):
      base = v.t if ty.k == 'bool' else (v.t != 0)
      return z3.And(z3.Not(v.none), base) if v.none is not None else base
    if ty.k == 'str':
      if v.py is not None:
        return z3.BoolVal(len(v.py) > 0)
      return z3.And(v.t != 0, self.strlen(v.t) > 0)
    if ty.k == 'set':
      nonempty = self.set_mem_arr(st, v) != z3.EmptySet(base_sort(ty.args[0]))
      return z3.And(v.t != 0, nonempty) if ty.opt else nonempty
    if ty.k in ('list', 'dict', 'deque'):
      nonempty = self.container_len(st, v) > 0
      return z3.And(v.t != 0, nonempty) if ty.opt else nonempty
    if ty.k == 'ref':
      ci = self.reg.classes.get(ty.name)
      if ci is not None and ci.truthy_expr:
        fid = fresh_name('tr')
        st.frames[fid] = {'self': V(ty.with_opt(False), v.t)}
        self.spec_depth += 1
        try:
          b = self.truth(st, self.ev1(self.parse_spec(ci.truthy_expr), st, Ctx(None, None, [fid])))
        finally:
          self.spec_depth -= 1
          st.frames.pop(fid, None)
        return z3.And(v.t != 0, b) if ty.opt else b
      return (v.t != 0) if ty.opt else z3.BoolVal(True)
    if ty.k in ('any', 'fn'):
      return (v.t != 0)
    raise Unsupported('truthiness of %r' % (ty,))

  def strlen(self, t):
    f = z3.Function('strlen', I, I)
    return f(t)

  def container_len(self, st, v):
    k = v.ty.k
    if k == 'list':
      return self.list_len(st, v)
    if k == 'deque':
      lo, hi = self.dq_bounds(st, v)
      return hi - lo
    if k == 'set':
      return self.set_card(st, v)
    if k in ('dict', 'ddict'):
      return self.dict_card(st, v)
    raise Unsupported('len of %r' % (v.ty,))

  def const_str(self, s):
    return V(STR, z3.IntVal(self.strs.get(s)), py=s)

  def merge_vals(self, cond, a, b):
    """If(cond, a, b) on values of compatible type."""
    if a.ty.k == 'none' and b.ty.k == 'none':
      return NONE_V
    if a.ty.k == 'tuple' or b.ty.k == 'tuple':
      if a.ty.k == 'none' and b.ty.k == 'tuple':
        items = [self.merge_vals(cond, self.default_of(x.ty), x) for x in b.items]
        bn = b.none if b.none is not None else z3.BoolVal(False)
        return V(b.ty.with_opt(True), items=items, none=z3.If(cond, z3.BoolVal(True), bn))
      if b.ty.k == 'none' and a.ty.k == 'tuple':
        items = [self.merge_vals(cond, x, self.default_of(x.ty)) for x in a.items]
        an = a.none if a.none is not None else z3.BoolVal(False)
        return V(a.ty.with_opt(True), items=items, none=z3.If(cond, an, z3.BoolVal(True)))
      if a.ty.k == 'tuple' and b.ty.k == 'tuple' and len(a.items) == len(b.items):
        items = [self.merge_vals(cond, x, y) for x, y in zip(a.items, b.items)]
        none = None
        if a.none is not None or b.none is not None:
          none = z3.If(cond, a.none if a.none is not None else z3.BoolVal(False),
                       b.none if b.none is not None else z3.BoolVal(False))
        return V(Ty('tuple', [i.ty for i in items], None, none is not None), items=items, none=none)
      raise Unsupported('merging %r with %r' % (a, b))
    if is_num(a) and is_num(b):
      if a.ty.k == 'bool' and b.ty.k == 'bool':
        return V(BOOL, z3.If(cond, a.t, b.t))
      real = 'real' in (a.ty.k, b.ty.k)
      return V(REAL if real else INT, z3.If(cond, num_term(a, real), num_term(b, real)))
    # optional scalars
    if (a.ty.k in ('int', 'real', 'bool', 'none')) and (b.ty.k in ('int', 'real', 'bool', 'none')):
      base = a if a.ty.k != 'none' else b
      bt = base.ty.with_opt(False)
      an = z3.BoolVal(True) if a.ty.k == 'none' else (a.none if a.none is not None else z3.BoolVal(False))
      bn = z3.BoolVal(True) if b.ty.k == 'none' else (b.none if b.none is not None else z3.BoolVal(False))
      at = self.default_of(bt).t if a.ty.k == 'none' else coerce(V(a.ty.with_opt(False), a.t), bt)
      bt_ = self.default_of(bt).t if b.ty.k == 'none' else coerce(V(b.ty.with_opt(False), b.t), bt)
      return V(bt.with_opt(True), z3.If(cond, at, bt_), none=z3.If(cond, an, bn))
    # references
    if a.ty.k == 'none' and b.ty.is_reflike:
      return V(b.ty.with_opt(True), z3.If(cond, z3.IntVal(0), b.t))
    if b.ty.k == 'none' and a.ty.is_reflike:
      return V(a.ty.with_opt(True), z3.If(cond, a.t, z3.IntVal(0)))
    if a.ty.is_reflike and b.ty.is_reflike:
      ty = a.ty if a.ty.with_opt(False) == b.ty.with_opt(False) else self.join_ref_types(a.ty, b.ty)
      return V(ty.with_opt(a.ty.opt or b.ty.opt), z3.If(cond, a.t, b.t))
    raise Unsupported('merging %r with %r' % (a, b))

  def join_ref_types(self, a, b):
    if a.k == 'ref' and b.k == 'ref':
      for c in self.mro(a.name):
        if c in self.mro(b.name):
          return Ty('ref', (), c)
    if a.k == 'any' or b.k == 'any':
      return ANY
    raise Unsupported('no common type of %r and %r' % (a, b))

  def default_of(self, ty):
    if ty.k == 'int':
      return V(ty, z3.IntVal(0), none=z3.BoolVal(True) if ty.opt else None)
    if ty.k == 'real':
      return V(ty, z3.RealVal(0), none=z3.BoolVal(True) if ty.opt else None)
    if ty.k == 'bool':
      return V(ty, z3.BoolVal(False), none=z3.BoolVal(True) if ty.opt else None)
    if ty.k == 'tuple':
      return V(ty, items=[self.default_of(a) for a in ty.args], none=z3.BoolVal(True) if ty.opt else None)
    if ty.k == 'none':
      return NONE_V
    return V(ty, z3.IntVal(0))

  def fresh_val(self, st, ty, name='v', wf=True):
    """Unconstrained symbolic value of type ty (well-formed: allocated refs)."""
    if ty.k == 'tuple':
      none = z3.Bool(fresh_name(name + '_none')) if ty.opt else None
      return V(ty, items=[self.fresh_val(st, a, '%s_%d' % (name, n), wf) for n, a in enumerate(ty.args)], none=none)
    if ty.k == 'none':
      return NONE_V
    if ty.k == 'bytes':
      from .state import bytes_len_fn
      sym = z3.Int(fresh_name(name))
      st.assume(bytes_len_fn()(sym) >= 0)
      return V(ty, py=[('raw', sym, bytes_len_fn()(sym))])
    if ty.k == 'int':
      v = V(ty, z3.Int(fresh_name(name)))
    elif ty.k == 'real':
      v = V(ty, z3.Real(fresh_name(name)))
    elif ty.k == 'bool':
      v = V(ty, z3.Bool(fresh_name(name)))
    else:
      v = V(ty, z3.Int(fresh_name(name)))
      if wf:
        self.note_read(st, v)
      if ty.k == 'str' and wf:
        st.assume(z3.And(v.t >= 0, self.strlen(v.t) >= 0))
      return v
    if ty.opt:
      v.none = z3.Bool(fresh_name(name + '_none'))
    return v

  # ------------------------------------------------------------------ names
  def lookup(self, st, cx, name, node=None):
    for fid in cx.chain:
      fr = st.frames.get(fid)
      if fr is not None and name in fr:
        return fr[name]
    if name in ('True', 'False'):
      return mk_bool(name == 'True')
    if name == 'None':
      return NONE_V
    if (self.spec_depth or self.ghost_depth) and name in self.reg.predicates:
      return VBound('pred', name)
    if (self.spec_depth or self.ghost_depth) and name in SPEC_BUILTINS:
      return VBound('specbuiltin', name)
    mod = cx.mod
    if name in self.reg.globals and (self.spec_depth or mod is None or name in mod.toplevel or name in mod.imports):
      g = self.reg.globals[name]
      ty = parse_type(g['type'])
      self.globals_used.add(name)
      return V(ty, z3.Int('G_' + name))
    if mod is not None and name in mod.toplevel:
      n = mod.toplevel[name]
      if isinstance(n, ast.FunctionDef):
        return VFunc(n, mod, None, None, name)
      if isinstance(n, ast.ClassDef):
        for cname, ci in self.reg.classes.items():     # declared under another registry name?
          if ci.file == mod.relpath and ci.path == name:
            return VClass(cname)
        if name in self.reg.classes:
          return VClass(name)
        raise Unsupported('class %s not declared in sidecar' % name)
      if name in self.reg.classes and self.reg.classes[name].extern:
        return VClass(name)        # e.g. a namedtuple declared as a record class in the sidecar
      # module-level constant expression
      return self.eval_const(n, mod, name)
    if mod is not None and name in mod.imports:
      q = mod.imports[name]
      short = q.split('.')[-1]
      if short in self.reg.classes:
        return VClass(short)
      if short in self.reg.externs or q in self.reg.externs:
        return VModule(q if q in self.reg.externs else short)
      return VModule(q)
    if name in self.reg.classes and (self.spec_depth or mod is None):
      return VClass(name)
    if mod is None and any(k.startswith(name + '.') for k in self.reg.externs):
      return VModule(name)     # lemma functions may call assumed externs (math.floor, ...)
    if name == 'assume' and self.ghost_depth:
      return VBound('ghostassume', name)
    if name == 'prove' and self.ghost_depth:
      return VBound('ghostprove', name)
    if name in BUILTINS:
      return VBound('builtin', name)
    raise Unsupported('unbound name %s at line %s' % (name, getattr(node, 'lineno', '?')))

  def eval_const(self, n, mod, name='?'):
    st = self.const_state
    cx = Ctx(mod, None, [])
    outs = list(self.ev(n, st, cx))
    if len(outs) != 1 or isinstance(outs[0][1], Exc):
      raise Unsupported('constant %s is not a simple expression' % name)
    return outs[0][1]

  # ------------------------------------------------------------------ dispatch
  def ev(self, node, st, cx):
    m = getattr(self, 'ev_' + type(node).__name__, None)
    if m is None:
      raise Unsupported('expression %s at line %s' % (type(node).__name__, getattr(node, 'lineno', '?')))
    return m(node, st, cx)

  def ev1(self, node, st, cx):
    """Spec-mode evaluation: exactly one non-exceptional outcome, no state change."""
    outs = list(self.ev(node, st, cx))
    if len(outs) != 1 or isinstance(outs[0][1], Exc):
      raise Unsupported('spec expression is not single-valued: %s' % ast.dump(node)[:120])
    return outs[0][1]

  def ev_seq(self, nodes, st, cx):
    """Evaluate expressions left to right -> (st, [vals]) or (st, Exc)."""
    if not nodes:
      yield st, []
      return
    for st1, v in self.ev(nodes[0], st, cx):
      if isinstance(v, Exc):
        yield st1, v
        continue
      for st2, rest in self.ev_seq(nodes[1:], st1, cx):
        if isinstance(rest, Exc):
          yield st2, rest
        else:
          yield st2, [v] + rest

  # ------------------------------------------------------------------ atoms
  def ev_Constant(self, node, st, cx):
    c = node.value
    if c is None:
      yield st, NONE_V
    elif isinstance(c, bool):
      yield st, mk_bool(c)
    elif isinstance(c, int):
      yield st, mk_int(c)
    elif isinstance(c, float):
      yield st, V(REAL, z3.RealVal(repr(c)))
    elif isinstance(c, str):
      yield st, self.const_str(c)
    elif isinstance(c, bytes):
      from .bytesalg import mk_bytes, const_atoms
      yield st, mk_bytes(const_atoms(c))
    else:
      raise Unsupported('constant %r' % (c,))

  def ev_Name(self, node, st, cx):
    yield st, self.lookup(st, cx, node.id, node)

  def ev_Tuple(self, node, st, cx):
    for st1, vals in self.ev_seq(node.elts, st, cx):
      if isinstance(vals, Exc):
        yield st1, vals
        continue
      ty = self.expected_type(cx, node)
      if ty is not None and ty.k == 'ref' and self.reg.classes.get(ty.name) is not None and self.reg.classes[ty.name].listlike:
        yield st1, self.make_record(st1, ty, vals, node)
      else:
        yield st1, V(Ty('tuple', [getattr(v, 'ty', FN) for v in vals]), items=vals)

  def ev_List(self, node, st, cx):
    for st1, vals in self.ev_seq(node.elts, st, cx):
      if isinstance(vals, Exc):
        yield st1, vals
        continue
      ty = self.expected_type(cx, node)
      if ty is not None and ty.k == 'ref' and self.reg.classes.get(ty.name) is not None and self.reg.classes[ty.name].listlike:
        yield st1, self.make_record(st1, ty, vals, node)
        continue
      if ty is not None and ty.k == 'ref' and self.reg.classes.get(ty.name) is not None and self.reg.classes[ty.name].abstracts_list:
        # a python list the sidecar abstracts to a ghost set (heapq's list): only the empty literal has an abstraction
        if vals:
          raise Unsupported('non-empty literal of the abstracted list %s (line %d)' % (ty.name, node.lineno))
        ci = self.reg.classes[ty.name]
        r = self.new_ref(st1, ty.name)
        for fname in ci.abstracts_list:
          owner, fty = self.field_decl(ty.name, fname)
          if fty is None or fty.k != 'set':
            raise Unsupported('abstracts_list field %s.%s must be a set' % (ty.name, fname))
          sr = self.new_ref(st1)
          sv = V(fty.with_opt(False), sr)
          self.set_update(st1, sv, mem=z3.EmptySet(base_sort(fty.args[0])), card=z3.IntVal(0))
          self.store_field(st1, r, ty.name, fname, sv)
        yield st1, V(ty.with_opt(False), r)
        continue
      if ty is None:
        if not vals:
          raise Unsupported('type of empty list literal at line %d (declare it in locals)' % node.lineno)
        ety = vals[0].ty
        if ety.k == 'none':
          raise Unsupported('list of None needs a declared type (line %d)' % node.lineno)
        ty = Ty('list', [ety])
      yield st1, self.new_list(st1, ty, vals)

  def ev_ListComp(self, node, st, cx):
    """[elt for x in <list> if cond]: a fresh list described by a strictly increasing index map
    into the source list (order preserving, complete: every element satisfying cond appears)."""
    comps = getattr(cx.spec, 'comps', None) if cx.spec is not None and cx.qual == cx.spec.name else None
    if comps and ast.unparse(node) in comps:
      for o in self.ev_listcomp_as_loop(node, st, cx, comps[ast.unparse(node)]):
        yield o
      return
    if len(node.generators) != 1 or node.generators[0].is_async or len(node.generators[0].ifs) > 1 \
        or not isinstance(node.generators[0].target, ast.Name):
      raise Unsupported('list comprehension shape (line %d)' % node.lineno)
    gen = node.generators[0]
    var = gen.target.id
    for st1, src in self.ev(gen.iter, st, cx):
      if isinstance(src, Exc):
        yield st1, src
        continue
      if not (isinstance(src, V) and src.ty.k == 'list'):
        raise Unsupported('list comprehension over %r (line %d)' % (src, node.lineno))
      n = self.list_len(st1, src)
      j = z3.Int(fresh_name('cj'))
      fid = fresh_name('lc')
      st1.frames[fid] = {var: self.list_get(st1, src, j)}
      ccx = Ctx(cx.mod, cx.cls, [fid] + list(cx.chain), cx.spec, cx.qual)
      self.spec_depth += 1      # element / filter expressions must be pure
      try:
        elt = self.ev1(node.elt, st1, ccx)
        cond = self.truth(st1, self.ev1(gen.ifs[0], st1, ccx)) if gen.ifs else z3.BoolVal(True)
      finally:
        self.spec_depth -= 1
        st1.frames.pop(fid, None)
      if not isinstance(elt, V) or elt.ty.k == 'tuple':
        raise Unsupported('list comprehension element (line %d)' % node.lineno)
      ty = self.expected_type(cx, node) or Ty('list', [elt.ty])
      r = self.new_ref(st1)
      res = V(ty.with_opt(False), r)
      m = z3.Int(fresh_name('clen'))
      st1.assume(z3.And(m >= 0, m <= n))
      self.set_list_len(st1, res, m)
      idx = z3.Function(fresh_name('cidx'), I, I)
      k, k2 = z3.Int(fresh_name('k')), z3.Int(fresh_name('k2'))
      key = self.ckey(ty, 'items')
      arr = self.arr(st1, key, [I, I, base_sort(elt.ty)])
      items = z3.Const(fresh_name('citems'), z3.ArraySort(I, base_sort(elt.ty)))
      st1.heap[key] = z3.Store(arr, r, items)
      sub = lambda t, v: z3.substitute(t, (j, v))
      st1.assume(z3.ForAll([k], z3.Implies(z3.And(0 <= k, k < m),
                 z3.And(0 <= idx(k), idx(k) < n, z3.Select(items, k) == sub(coerce(elt, elt.ty), idx(k)), sub(cond, idx(k))))))
      st1.assume(z3.ForAll([k, k2], z3.Implies(z3.And(0 <= k, k < k2, k2 < m), idx(k) < idx(k2))))
      jj = z3.Int(fresh_name('jj'))
      st1.assume(z3.ForAll([jj], z3.Implies(z3.And(0 <= jj, jj < n, sub(cond, jj)),
                 z3.Exists([k], z3.And(0 <= k, k < m, idx(k) == jj)))))
      if not gen.ifs:
        st1.assume(m == n)
        st1.assume(z3.ForAll([k], z3.Implies(z3.And(0 <= k, k < n), z3.Select(items, k) == sub(coerce(elt, elt.ty), k))))
      yield st1, res

  def ev_listcomp_as_loop(self, node, st, cx, ls):
    """[f(x) for x in xs] whose element has effects (a contract call): the loop  acc = []; for x in xs: acc.append(f(x)),
    cut at the invariant the sidecar gives under comps={<text>: {...}} (the accumulator is called _acc there)."""
    g = node.generators[0]
    if len(node.generators) != 1 or g.is_async:
      raise Unsupported('list comprehension shape (line %d)' % node.lineno)
    ety = parse_type(ls['elem'])
    frame_id = cx.chain[0]
    acc = self.new_list(st, Ty('list', [ety]), [])
    st.frames[frame_id]['_acc'] = acc
    body = [ast.Expr(value=ast.Call(func=ast.Attribute(value=ast.Name(id='_acc', ctx=ast.Load()), attr='append', ctx=ast.Load()), args=[node.elt], keywords=[]))]
    for cond in reversed(g.ifs):
      body = [ast.If(test=cond, body=body, orelse=[])]
    loop = ast.For(target=g.target, iter=g.iter, body=body, orelse=[], type_comment=None)
    ast.copy_location(loop, node)
    ast.fix_missing_locations(loop)
    spec_ls = dict(ls)
    spec_ls.pop('elem', None)
    loop._pyvc_loop_spec = (spec_ls.pop('ordinal', 900), spec_ls)      # the hidden position is called _i<ordinal> in the invariant
    for s1, out in self.ex_For(loop, st, cx):
      if out[0] == 'next':
        yield s1, s1.frames[frame_id]['_acc']
      elif out[0] == 'exc':
        yield s1, out[1]
      else:
        raise Unsupported('control flow out of a list comprehension (line %d)' % node.lineno)

  def ev_DictComp(self, node, st, cx):
    """{k: f(k, v) for k, v in d.items() if c(k, v)}: a fresh dictionary defined pointwise."""
    from .state import VBound
    from .types import flatten
    from .state import to_terms
    g = node.generators[0] if len(node.generators) == 1 else None
    if g is None or g.is_async or not (isinstance(g.target, ast.Tuple) and len(g.target.elts) == 2 and
                                       all(isinstance(e, ast.Name) for e in g.target.elts)) \
        or not (isinstance(node.key, ast.Name) and node.key.id == g.target.elts[0].id):
      raise Unsupported('dict comprehension shape (line %d)' % node.lineno)
    for st1, view in self.ev(g.iter, st, cx):
      if isinstance(view, Exc):
        yield st1, view
        continue
      if not (isinstance(view, VBound) and view.kind == 'dictview' and view.name == 'items'):
        raise Unsupported('dict comprehension over %r (line %d)' % (view, node.lineno))
      d = view.recv
      kty, vty = d.ty.args
      kx = z3.Const(fresh_name('ck'), base_sort(kty))
      fid = fresh_name('dc')
      kval = V(kty, kx)
      vval = self.dict_get(st1, d, kx)
      st1.frames[fid] = {g.target.elts[0].id: kval, g.target.elts[1].id: vval}
      ccx = Ctx(cx.mod, cx.cls, [fid] + list(cx.chain), cx.spec, cx.qual)
      self.spec_depth += 1
      try:
        val = self.ev1(node.value, st1, ccx)
        cond = z3.BoolVal(True)
        for c in g.ifs:
          cond = z3.And(cond, self.truth(st1, self.ev1(c, st1, ccx)))
      finally:
        self.spec_depth -= 1
        st1.frames.pop(fid, None)
      ty = self.expected_type(cx, node) or Ty('dict', [kty, val.ty if isinstance(val, V) else vty])
      r = self.new_ref(st1)
      res = V(ty.with_opt(False), r)
      hk = self.ckey(ty, 'has')
      ha = self.arr(st1, hk, [I, base_sort(kty), z3.BoolSort()])
      nh = z3.Const(fresh_name('chas'), z3.ArraySort(base_sort(kty), z3.BoolSort()))
      src_has = self.dict_has_arr(st1, d)
      st1.assume(z3.ForAll([kx], z3.Select(nh, kx) == z3.And(z3.Select(src_has, kx), cond)))
      st1.heap[hk] = z3.Store(ha, r, nh)
      for (suf, so), t in zip(flatten(ty.args[1]), to_terms(val, ty.args[1])):
        vk = self.ckey(ty, 'val') + suf
        va = self.arr(st1, vk, [I, base_sort(kty), so])
        nv = z3.Const(fresh_name('cval'), z3.ArraySort(base_sort(kty), so))
        st1.assume(z3.ForAll([kx], z3.Select(nv, kx) == t))
        st1.heap[vk] = z3.Store(va, r, nv)
      ck = self.ckey(ty, 'card')
      ca = self.arr(st1, ck, [I, I])
      nc = z3.Int(fresh_name('ccard'))
      st1.assume(z3.And(nc >= 0, nc <= self.dict_card(st1, d)))
      st1.heap[ck] = z3.Store(ca, r, nc)
      yield st1, res

  def expected_type(self, cx, node):
    """Declared type for a literal: via the assigned name/field, or the sidecar 'literals' table."""
    t = getattr(node, '_pyvc_type', None)
    if t is None and cx.spec is not None and cx.spec.literals:
      t = cx.spec.literals.get(ast.unparse(node))
    return t

  def make_record(self, st, ty, vals, node):
    ci = self.reg.classes[ty.name]
    if len(vals) != len(ci.listlike):
      raise Unsupported('record literal of %s needs %d items (line %s)' % (ty.name, len(ci.listlike), getattr(node, 'lineno', '?')))
    r = self.new_ref(st, ty.name)
    for fname, val in zip(ci.listlike, vals):
      self.store_field(st, r, ty.name, fname, val)
    return V(ty.with_opt(False), r)

  def ev_Dict(self, node, st, cx):
    ty = self.expected_type(cx, node)
    if node.keys and (ty is None or ty.k != 'dict' or any(k is None for k in node.keys)):
      raise Unsupported('non-empty dict literal without a declared dict type (line %d)' % node.lineno)
    if node.keys:
      # {k1: v1, ...}: an empty dictionary filled entry by entry (python evaluates in source order)
      for st1, vals in self.ev_seq([x for kv in zip(node.keys, node.values) for x in kv], st, cx):
        if isinstance(vals, Exc):
          yield st1, vals
          continue
        empty = ast.Dict(keys=[], values=[])
        empty._pyvc_type = ty
        ast.copy_location(empty, node)
        for st2, d in self.ev_Dict(empty, st1, cx):
          for i in range(0, len(vals), 2):
            self.dict_set(st2, d, coerce(vals[i], ty.args[0]), vals[i + 1])
          yield st2, d
      return
    if ty is None:
      yield st, self.fresh_val(st, ANY, 'dict')      # an empty dict nobody looks into here
      return
    if ty.k == 'dict':
      r = self.new_ref(st)
      d = V(ty.with_opt(False), r)
      hk = self.ckey(ty, 'has')
      a = self.arr(st, hk, [I, base_sort(ty.args[0]), z3.BoolSort()])
      st.heap[hk] = z3.Store(a, r, z3.EmptySet(base_sort(ty.args[0])))
      ck = self.ckey(ty, 'card')
      ca = self.arr(st, ck, [I, I])
      st.heap[ck] = z3.Store(ca, r, z3.IntVal(0))
      yield st, d
      return
    if ty.k == 'ref' and self.dictlike_info(ty) is not None:
      r = self.new_ref(st, ty.name)
      ci = self.dictlike_info(ty)
      for key, (fname, fty) in ci.dictlike.items():
        self.store_field(st, r, ty.name, 'has_' + fname, mk_bool(False))
      yield st, V(ty.with_opt(False), r)
      return
    raise Unsupported('dict literal of type %r (line %d)' % (ty, node.lineno))

  def ev_Lambda(self, node, st, cx):
    fd = ast.FunctionDef(name='<lambda>', args=node.args,
                         body=[ast.Return(value=node.body, lineno=node.lineno, col_offset=0)],
                         decorator_list=[], lineno=node.lineno, col_offset=0)
    yield st, VFunc(fd, cx.mod, cx.cls, list(cx.chain), cx.qual + '.<lambda>')

  def ev_IfExp(self, node, st, cx):
    for st1, c in self.ev(node.test, st, cx):
      if isinstance(c, Exc):
        yield st1, c
        continue
      tc = self.truth(st1, c)
      sb = simp_bool(tc)
      if sb is True:
        for o in self.ev(node.body, st1, cx):
          yield o
        continue
      if sb is False:
        for o in self.ev(node.orelse, st1, cx):
          yield o
        continue
      a = self.try_pure(node.body, st1, cx, tc)
      b = self.try_pure(node.orelse, st1, cx, z3.Not(tc)) if a is not None else None
      if a is not None and b is not None:
        try:
          yield st1, self.merge_vals(tc, a, b)
          continue
        except Unsupported:
          if self.spec_depth:
            raise
      if self.spec_depth:
        raise Unsupported('impure conditional expression in spec')
      s_t = st1.fork(); s_t.assume(tc)
      s_f = st1.fork(); s_f.assume(z3.Not(tc))
      if self.feasible(s_t):
        for o in self.ev(node.body, s_t, cx):
          yield o
      if self.feasible(s_f):
        for o in self.ev(node.orelse, s_f, cx):
          yield o

  def try_pure(self, node, st, cx, guard):
    """Evaluate node under an extra hypothesis without committing; None unless it has a
    single non-exceptional outcome that leaves heap and frames untouched."""
    s = st.fork()
    s.assume(guard)
    n0 = len(s.pc)
    self.guard_stack.append(guard)
    try:
      outs = list(self.ev(node, s, cx))
    finally:
      self.guard_stack.pop()
    if len(outs) != 1:
      return None
    s1, v = outs[0]
    if isinstance(v, Exc):
      return None
    if any(s1.heap.get(k) is not st.heap.get(k) for k in set(s1.heap) | set(st.heap) if k in st.heap):
      return None
    for fid, fr in s1.frames.items():
      if fid in st.frames and any(fr.get(k) is not st.frames[fid].get(k) for k in fr):
        return None
    if s1.alloc is not st.alloc:
      return None
    # keep facts learned under the guard (e.g. len >= 0), guarded
    for extra in s1.pc[n0:]:
      if extra.get_id() in s1.wf_ids:
        st.assume_wf(extra)
      else:
        st.assume(z3.Implies(guard, extra))
    # arrays first touched inside: make them visible
    for k, a in s1.heap.items():
      if k not in st.heap:
        st.heap[k] = a
        for lab in st.labels.values():
          lab.setdefault(k, a)
    return v

  def ev_BoolOp(self, node, st, cx):
    is_and = isinstance(node.op, ast.And)
    return self._boolop(node.values, is_and, st, cx)

  def _boolop(self, values, is_and, st, cx):
    for st1, a in self.ev(values[0], st, cx):
      if isinstance(a, Exc) or len(values) == 1:
        yield st1, a
        continue
      ta = self.truth(st1, a)
      sb = simp_bool(ta)
      if sb is not None:
        if sb == is_and:   # and: a truthy -> result is rest ; or: a falsy -> rest
          for o in self._boolop(values[1:], is_and, st1, cx):
            yield o
        else:
          yield st1, a
        continue
      guard = ta if is_and else z3.Not(ta)
      rest_node = values[1] if len(values) == 2 else ast.BoolOp(op=ast.And() if is_and else ast.Or(), values=values[1:])
      ast.copy_location(rest_node, values[1])
      b = self.try_pure(rest_node, st1, cx, guard)
      if b is not None:
        same = isinstance(a, V) and isinstance(b, V)
        if same and a.ty.k == 'bool' and b.ty.k == 'bool':
          yield st1, V(BOOL, z3.And(a.t, b.t) if is_and else z3.Or(a.t, b.t))
          continue
        if same:
          try:
            # python value semantics: (a and b) = b if a else a ; (a or b) = a if a else b
            yield st1, (self.merge_vals(ta, b, a) if is_and else self.merge_vals(ta, a, b))
            continue
          except Unsupported:
            pass
        tb = self.truth(st1, b)
        yield st1, V(BOOL, z3.And(ta, tb) if is_and else z3.Or(ta, tb))
        continue
      if self.spec_depth:
        raise Unsupported('impure boolean operand in spec')
      s_go = st1.fork(); s_go.assume(guard)
      s_stop = st1.fork(); s_stop.assume(z3.Not(guard))
      if self.feasible(s_stop):
        yield s_stop, a
      if self.feasible(s_go):
        for o in self._boolop(values[1:], is_and, s_go, cx):
          yield o

  def ev_UnaryOp(self, node, st, cx):
    for st1, v in self.ev(node.operand, st, cx):
      if isinstance(v, Exc):
        yield st1, v
      elif isinstance(node.op, ast.Not):
        yield st1, V(BOOL, z3.Not(self.truth(st1, v)))
      elif isinstance(node.op, ast.USub) and is_num(v):
        real = v.ty.k == 'real'
        yield st1, V(REAL if real else INT, -num_term(v, real))
      elif isinstance(node.op, ast.UAdd) and is_num(v):
        yield st1, v
      else:
        raise Unsupported('unary %s on %r' % (type(node.op).__name__, v))

  # ------------------------------------------------------------------ arithmetic
  def ev_BinOp(self, node, st, cx):
    for st1, vals in self.ev_seq([node.left, node.right], st, cx):
      if isinstance(vals, Exc):
        yield st1, vals
        continue
      for o in self.binop(st1, cx, node.op, vals[0], vals[1], node):
        yield o

  def binop(self, st, cx, op, a, b, node):
    if isinstance(op, ast.Mod) and isinstance(a, V) and a.ty.k == 'str':
      from .bytesalg import FmtTemplate
      if isinstance(a.py, str) and re.match(r'^[!<>=@]?([0-9]*[a-zA-Z]|%d[a-zA-Z])+$', a.py) and '%d' in a.py:
        # a struct format with %d holes: keep it symbolic for pack/unpack
        items = b.items if (isinstance(b, V) and b.ty.k == 'tuple') else [b]
        yield st, V(STR, z3.IntVal(0), py=FmtTemplate(a.py, [num_term(x, False) for x in items]))
        return
      # '%' string formatting: opaque result
      yield st, self.fresh_val(st, STR, 'fmt')
      return
    if isinstance(op, ast.Add) and isinstance(a, V) and isinstance(b, V) and a.ty.k == 'bytes' and b.ty.k == 'bytes':
      from .bytesalg import mk_bytes
      yield st, mk_bytes(list(a.py) + list(b.py))
      return
    if isinstance(op, ast.Add) and isinstance(a, V) and isinstance(b, V) and {a.ty.k, b.ty.k} == {'bytes', 'str'}:
      for o in self.oblige_or_raise(st, cx, z3.BoolVal(False), 'TypeError', node, "can't concat str to bytes"):
        yield o
      return
    if isinstance(op, ast.Add) and isinstance(a, V) and isinstance(b, V) and a.ty.k == 'str' and b.ty.k == 'str':
      if a.py is not None and b.py is not None and type(a.py) == type(b.py):
        yield st, (self.const_str(a.py + b.py) if isinstance(a.py, str) else V(STR, z3.IntVal(self.strs.get(a.py + b.py)), py=a.py + b.py))
        return
      f = z3.Function('strcat', I, I, I)
      r = f(a.t, b.t)
      st.assume(self.strlen(r) == self.strlen(a.t) + self.strlen(b.t))
      yield st, V(STR, r)
      return
    if isinstance(op, ast.Mult) and isinstance(a, V) and a.ty.k == 'list' and is_num(b):
      # [x] * n : a fresh list of n copies of the single element
      n0 = z3.simplify(self.list_len(st, a))
      if not (z3.is_int_value(n0) and n0.as_long() == 1):
        raise Unsupported('list repetition of a list that is not a one-element literal (line %s)' % getattr(node, 'lineno', '?'))
      elem = self.list_get(st, a, z3.IntVal(0))
      cnt = num_term(b, False)
      r = self.new_ref(st)
      res = V(a.ty.with_opt(False), r)
      self.set_list_len(st, res, z3.If(cnt > 0, cnt, z3.IntVal(0)))
      k = z3.Int(fresh_name('k'))
      from .types import flatten
      from .state import to_terms
      for (suf, so), t in zip(flatten(a.ty.args[0]), to_terms(elem, a.ty.args[0])):
        key = self.ckey(a.ty, 'items') + suf
        arr = self.arr(st, key, [I, I, so])
        st.heap[key] = z3.Store(arr, r, z3.K(I, t))
      yield st, res
      return
    if isinstance(op, ast.Sub) and isinstance(a, V) and a.ty.k == 'set' and b.ty.k == 'set':
      yield st, self.set_binop(st, 'minus', a, b)
      return
    # arithmetic on an optional number: TypeError if it is None, else its value
    for which, v in (('a', a), ('b', b)):
      if isinstance(v, V) and v.ty.k in ('int', 'real', 'bool') and v.none is not None:
        for s2, e in self.oblige_or_raise(st, cx, z3.Not(v.none), 'TypeError', node, 'arithmetic on None'):
          if isinstance(e, Exc):
            yield s2, e
          else:
            inner = V(v.ty.with_opt(False), v.t)
            for o in self.binop(s2, cx, op, inner if which == 'a' else a, inner if which == 'b' else b, node):
              yield o
        return
    if not (is_num(a) and is_num(b)):
      raise Unsupported('binary %s on %r, %r (line %s)' % (type(op).__name__, a, b, getattr(node, 'lineno', '?')))
    real = 'real' in (a.ty.k, b.ty.k)
    x, y = num_term(a, real), num_term(b, real)
    T = REAL if real else INT
    if isinstance(op, ast.Add):
      yield st, V(T, x + y)
    elif isinstance(op, ast.Sub):
      yield st, V(T, x - y)
    elif isinstance(op, ast.Mult):
      yield st, V(T, x * y)
    elif isinstance(op, ast.Div):
      xr, yr = num_term(a, True), num_term(b, True)
      for o in self.oblige_or_raise(st, cx, yr != 0, 'ZeroDivisionError', node, 'division by zero'):
        if isinstance(o[1], Exc):
          yield o
        else:
          yield o[0], V(REAL, xr / yr)
    elif isinstance(op, (ast.FloorDiv, ast.Mod)):
      if real:
        raise Unsupported('// or % on reals (line %s)' % getattr(node, 'lineno', '?'))
      if not self.spec_depth:
        pos = simp_bool(y > 0)
        if pos is not True:
          for o in self.oblige_or_raise(st, cx, y != 0, 'ZeroDivisionError', node, 'division by zero'):
            if isinstance(o[1], Exc):
              yield o
              continue
            s = o[0]
            # python floor semantics for either sign of the divisor
            q = z3.If(y > 0, x / y, (-x) / (-y))
            r = x - y * q
            yield s, V(INT, q if isinstance(op, ast.FloorDiv) else r)
          return
      yield st, V(INT, x / y if isinstance(op, ast.FloorDiv) else x % y)
    elif isinstance(op, ast.Pow):
      if z3.is_int_value(y) and not real and y.as_long() >= 0 and z3.is_int_value(x):
        yield st, V(INT, z3.IntVal(x.as_long() ** y.as_long()))
      elif z3.is_int_value(y) and y.as_long() >= 0 and y.as_long() <= 4:
        r = z3.IntVal(1) if not real else z3.RealVal(1)
        for _ in range(y.as_long()):
          r = r * x
        yield st, V(T, r)
      else:
        f = z3.Function('pow', z3.RealSort(), z3.RealSort(), z3.RealSort())
        xr, yr = num_term(a, True), num_term(b, True)
        r = f(xr, yr)
        # the only facts assumed of real exponentiation: positive base gives a positive power;
        # x > 1 and e > 1 give x**e > x ; x >= 1 and e >= 1 give x**e >= x
        st.assume(z3.Implies(xr > 0, r > 0))
        st.assume(z3.Implies(z3.And(xr > 1, yr > 1), r > xr))
        st.assume(z3.Implies(z3.And(xr >= 1, yr >= 1), r >= xr))
        yield st, V(REAL, r)
    elif isinstance(op, (ast.RShift, ast.LShift, ast.BitAnd)):
      if real or not z3.is_int_value(z3.simplify(y)):
        raise Unsupported('bit operation with non-constant right operand (line %s)' % getattr(node, 'lineno', '?'))
      k = z3.simplify(y).as_long()
      if isinstance(op, ast.RShift):
        yield st, V(INT, x / z3.IntVal(2 ** k))
      elif isinstance(op, ast.LShift):
        yield st, V(INT, x * z3.IntVal(2 ** k))
      else:
        if k >= 0 and (k & (k + 1)) == 0:     # mask 2^m - 1
          yield st, V(INT, x % z3.IntVal(k + 1))
        else:
          raise Unsupported('& with non-mask constant %d' % k)
    elif isinstance(op, ast.BitOr) and not real:
      # x | y on unbounded integers: only facts that hold of every pair are assumed -- when one operand is a multiple
      # of 2^k and the other lies in [0, 2^k) the bits do not overlap and the result is their sum; non-negative
      # operands give a result between the larger one and the sum
      r = z3.Int(fresh_name('bitor'))
      for k in (8, 16, 24, 32):
        m = z3.IntVal(2 ** k)
        st.assume(z3.Implies(z3.And(x % m == 0, y >= 0, y < m), r == x + y))
        st.assume(z3.Implies(z3.And(y % m == 0, x >= 0, x < m), r == x + y))
      st.assume(z3.Implies(z3.And(x >= 0, y >= 0), z3.And(r >= x, r >= y, r <= x + y)))
      st.assume(z3.Implies(x == 0, r == y))
      st.assume(z3.Implies(y == 0, r == x))
      yield st, V(INT, r)
    else:
      raise Unsupported('binary operator %s' % type(op).__name__)

  # ------------------------------------------------------------------ comparisons
  def ev_Compare(self, node, st, cx):
    operands = [node.left] + list(node.comparators)
    for st1, vals in self.ev_seq(operands, st, cx):
      if isinstance(vals, Exc):
        yield st1, vals
        continue
      outs = [(st1, [])]
      for n, op in enumerate(node.ops):
        nxt = []
        for s, acc in outs:
          for s2, r in self.compare(s, cx, op, vals[n], vals[n + 1], node):
            if isinstance(r, Exc):
              yield s2, r
            else:
              nxt.append((s2, acc + [r]))
        outs = nxt
      for s, acc in outs:
        yield s, V(BOOL, acc[0] if len(acc) == 1 else z3.And(*acc))

  def eq_terms(self, st, cx, a, b):
    """z3 Bool for python ==, or None when it needs a repo __eq__ (handled by caller)."""
    if isinstance(a, (VClass, VFunc, VBound, VModule)) or isinstance(b, (VClass, VFunc, VBound, VModule)):
      if isinstance(a, VClass) and isinstance(b, VClass):
        return z3.BoolVal(a.name == b.name)
      fa = fn_term(a) if isinstance(a, (VFunc, VBound, VClass)) else (a.t if isinstance(a, V) and a.ty.k in ('fn', 'any') else None)
      fb = fn_term(b) if isinstance(b, (VFunc, VBound, VClass)) else (b.t if isinstance(b, V) and b.ty.k in ('fn', 'any') else None)
      if fa is not None and fb is not None:
        return fa == fb
      raise Unsupported('== on callables')
    if a.ty.k == 'none' or b.ty.k == 'none':
      o = b if a.ty.k == 'none' else a
      return self.is_none(o)
    if a.ty.k == 'bytes' and b.ty.k == 'bytes':
      from .bytesalg import atoms_eq
      r = atoms_eq(a.py, b.py)
      return r if r is not None else z3.BoolVal(False)
    if a.ty.k == 'tuple' and b.ty.k == 'tuple':
      if len(a.items) != len(b.items):
        return z3.BoolVal(False)
      parts = [self.eq_vals(st, cx, x, y) for x, y in zip(a.items, b.items)]
      return z3.And(*parts) if parts else z3.BoolVal(True)
    if is_num(a) and is_num(b):
      real = 'real' in (a.ty.k, b.ty.k)
      if a.ty.k == 'bool' and b.ty.k == 'bool':
        return a.t == b.t
      return num_term(a, real) == num_term(b, real)
    if a.none is not None or b.none is not None:
      an = a.none if a.none is not None else z3.BoolVal(False)
      bn = b.none if b.none is not None else z3.BoolVal(False)
      real = 'real' in (a.ty.k, b.ty.k)
      inner = num_term(V(a.ty.with_opt(False), a.t), real) == num_term(V(b.ty.with_opt(False), b.t), real)
      return z3.Or(z3.And(an, bn), z3.And(z3.Not(an), z3.Not(bn), inner))
    if a.ty.is_reflike and b.ty.is_reflike:
      return a.t == b.t
    if a.ty.is_reflike != b.ty.is_reflike:
      if 'any' in (a.ty.k, b.ty.k):
        return coerce(a, ANY) == coerce(b, ANY)
      return z3.BoolVal(False)
    raise Unsupported('== on %r, %r' % (a, b))

  def is_none(self, v):
    if isinstance(v, (VClass, VFunc, VBound, VModule)):
      return z3.BoolVal(False)
    if v.ty.k == 'none':
      return z3.BoolVal(True)
    if v.none is not None:
      return v.none
    if v.ty.is_reflike:
      return (v.t == 0) if (v.ty.opt or v.ty.k in ('any', 'str', 'fn')) else z3.BoolVal(False)
    return z3.BoolVal(False)

  def eq_vals(self, st, cx, a, b):
    """python == as a z3 Bool, inlining a repository __eq__ when the class defines one."""
    if isinstance(a, V) and a.ty.k == 'ref' and isinstance(b, V):
      fn, mod, owner = self.find_member(a.ty.name, '__eq__')
      if fn is not None:
        v = self.call_pure(st, cx, VFunc(fn, mod, owner, None, owner + '.__eq__'), [a, b], {})
        base = self.truth(st, v)
        if a.ty.opt:
          return z3.If(a.t == 0, self.is_none(b), base)
        return base
    return self.eq_terms(st, cx, a, b)

  def compare(self, st, cx, op, a, b, node):
    if isinstance(op, (ast.Is, ast.IsNot)):
      if isinstance(a, V) and isinstance(b, V) and (a.ty.k == 'none' or b.ty.k == 'none'):
        r = self.is_none(b if a.ty.k == 'none' else a)
      elif not isinstance(a, V) or not isinstance(b, V):
        # callables / classes compared with None or with each other by identity
        if (isinstance(a, V) and a.ty.k == 'none') or (isinstance(b, V) and b.ty.k == 'none'):
          r = z3.BoolVal(False)
        else:
          r = self.eq_terms(st, cx, a, b)
      elif isinstance(a, V) and isinstance(b, V) and a.ty.is_reflike and b.ty.is_reflike and (a.ty.k in ('str', 'any') or b.ty.k in ('str', 'any')) \
          and not (a.ty.k in ('ref',) or b.ty.k in ('ref',) or a.ty.k in ('list', 'set', 'dict', 'deque') or b.ty.k in ('list', 'set', 'dict', 'deque')):
        # opaque values stand for what '==' compares (two equal strings have one id): the same object implies the
        # same value, but equal values need not be one object -- 'is' between them is left undetermined
        nd = z3.Bool(fresh_name('sameobj'))
        r = z3.And(a.t == b.t, z3.Or(a.t == 0, nd))
      elif isinstance(a, V) and isinstance(b, V) and a.ty.is_reflike and b.ty.is_reflike:
        r = a.t == b.t
      elif isinstance(a, V) and isinstance(b, V) and a.ty.k == 'bool' and b.ty.k == 'bool':
        r = a.t == b.t
      else:
        raise Unsupported("'is' on %r, %r" % (a, b))
      yield st, (r if isinstance(op, ast.Is) else z3.Not(r))
      return
    if isinstance(op, (ast.Eq, ast.NotEq)):
      r = self.eq_vals(st, cx, a, b)
      yield st, (r if isinstance(op, ast.Eq) else z3.Not(r))
      return
    if isinstance(op, (ast.In, ast.NotIn)):
      r = self.contains(st, cx, b, a)
      yield st, (r if isinstance(op, ast.In) else z3.Not(r))
      return
    # ordering on an optional number: TypeError when it is None
    for which, v in (('a', a), ('b', b)):
      if isinstance(v, V) and v.ty.k in ('int', 'real', 'bool') and v.none is not None and not self.spec_depth:
        for s2, e in self.oblige_or_raise(st, cx, z3.Not(v.none), 'TypeError', node, 'ordering comparison with None'):
          if isinstance(e, Exc):
            yield s2, e
          else:
            inner = V(v.ty.with_opt(False), v.t)
            for o in self.compare(s2, cx, op, inner if which == 'a' else a, inner if which == 'b' else b, node):
              yield o
        return
    if isinstance(a, V) and isinstance(b, V) and a.ty.k in ('int', 'real', 'bool') and b.ty.k in ('int', 'real', 'bool') and self.spec_depth:
      a = V(a.ty.with_opt(False), a.t)
      b = V(b.ty.with_opt(False), b.t)
    if is_num(a) and is_num(b):
      real = 'real' in (a.ty.k, b.ty.k)
      x, y = num_term(a, real), num_term(b, real)
      r = {ast.Lt: x < y, ast.LtE: x <= y, ast.Gt: x > y, ast.GtE: x >= y}[type(op)]
      yield st, r
      return
    if isinstance(a, V) and a.ty.k == 'ref':
      dunder = {ast.Lt: '__lt__', ast.LtE: '__le__', ast.Gt: '__gt__', ast.GtE: '__ge__'}[type(op)]
      fn, mod, owner = self.find_member(a.ty.name, dunder)
      if fn is not None:
        v = self.call_pure(st, cx, VFunc(fn, mod, owner, None, owner + '.' + dunder), [a, b], {})
        yield st, self.truth(st, v)
        return
      if isinstance(op, ast.Gt):   # reflected: b < a
        fn, mod, owner = self.find_member(b.ty.name, '__lt__') if b.ty.k == 'ref' else (None, None, None)
        if fn is not None:
          v = self.call_pure(st, cx, VFunc(fn, mod, owner, None, owner + '.__lt__'), [b, a], {})
          yield st, self.truth(st, v)
          return
    if isinstance(a, V) and a.none is not None or isinstance(b, V) and b.none is not None:
      raise Unsupported('ordering comparison on optional value (TypeError if None) line %s' % getattr(node, 'lineno', '?'))
    raise Unsupported('ordering on %r, %r (line %s)' % (a, b, getattr(node, 'lineno', '?')))

  def contains(self, st, cx, cont, x):
    if hasattr(cont, 'arr') and hasattr(cont, 'ety'):
      return z3.Select(cont.arr, coerce(x, cont.ety))
    if isinstance(cont, V) and cont.ty.k == 'tuple':
      parts = [self.eq_vals(st, cx, x, it) for it in cont.items]
      return z3.Or(*parts) if parts else z3.BoolVal(False)
    if isinstance(cont, V) and cont.ty.k == 'ref' and self.dictlike_info(cont.ty) is not None:
      f = self.dl_field(self.dictlike_info(cont.ty), x, None)
      return self.load_field(st, cont.t, cont.ty.name, 'has_' + f).t
    if isinstance(cont, V) and cont.ty.k == 'set':
      return z3.Select(self.set_mem_arr(st, cont), coerce(x, cont.ty.args[0]))
    if isinstance(cont, V) and cont.ty.k in ('dict', 'ddict'):
      return z3.Select(self.dict_has_arr(st, cont), self.key_term(st, x, cont.ty.args[0]))
    if isinstance(cont, V) and cont.ty.k == 'str' and isinstance(x, V) and x.ty.k == 'str':
      if cont.py is not None and x.py is not None:
        return z3.BoolVal(x.py in cont.py)
      f = z3.Function('str_contains', I, I, z3.BoolSort())
      return f(cont.t, x.t)
    if isinstance(cont, V) and cont.ty.k in ('list', 'deque'):
      k = z3.Int(fresh_name('k'))
      if cont.ty.k == 'list':
        lo, hi = z3.IntVal(0), self.list_len(st, cont)
      else:
        lo, hi = self.dq_bounds(st, cont)
      ev = self.list_get(st, cont, k) if cont.ty.k == 'list' else self.dq_get(st, cont, k)
      return z3.Exists([k], z3.And(lo <= k, k < hi, self.eq_terms(st, cx, ev, x)))
    raise Unsupported("'in' on %r" % (cont,))

  def set_binop(self, st, op, a, b):
    ma, mb = self.set_mem_arr(st, a), self.set_mem_arr(st, b)
    r = self.new_ref(st)
    res = V(a.ty.with_opt(False), r)
    if op == 'minus':
      mem = z3.SetDifference(ma, mb)
    elif op == 'union':
      mem = z3.SetUnion(ma, mb)
    else:
      mem = z3.SetIntersect(ma, mb)
    card = z3.Int(fresh_name('card'))
    st.assume(card >= 0)
    st.assume((card == 0) == (mem == z3.EmptySet(base_sort(a.ty.args[0]))))
    self.set_update(st, res, mem=mem, card=card)
    return res
