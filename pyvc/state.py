"""Symbolic values and the symbolic state (path condition, heap arrays, frames)."""
import itertools
import z3

from .types import Ty, INT, REAL, BOOL, STR, NONE, ANY, FN, base_sort, flatten

_counter = itertools.count()


def fresh_name(prefix):
  return '%s!%d' % (prefix, next(_counter))


class Unsupported(Exception):
  """Construct outside the modelled subset: unit verdict is undecided."""


class V(object):
  """A symbolic value.  t: z3 term (scalars / references); items: tuple parts;
  none: z3 Bool for optional scalars/tuples; py: concrete python payload."""
  __slots__ = ('ty', 't', 'items', 'none', 'py')

  def __init__(self, ty, t=None, items=None, none=None, py=None):
    self.ty = ty
    self.t = t
    self.items = items
    self.none = none
    self.py = py

  def __repr__(self):
    if self.ty.k == 'tuple':
      return 'V(tuple %r)' % (self.items,)
    return 'V(%r %s)' % (self.ty, self.t if self.t is not None else self.py)


class VFunc(object):
  """A repository function (closure): FunctionDef + defining module + enclosing frame id."""
  def __init__(self, node, mod, cls, frame_id, qual):
    self.node = node
    self.mod = mod
    self.cls = cls            # lexically enclosing class name (for __mangled lookups, super)
    self.frame_id = frame_id  # enclosing frame chain for free variables (None for top level)
    self.qual = qual
    self.fn_id = 5000000 + next(_counter)
  ty = FN


class VBound(object):
  """Bound method or extern callable.  kind: 'repo' | 'extern' | 'pred' | 'class' | 'builtin'"""
  def __init__(self, kind, name, recv=None, func=None, cls=None):
    self.kind = kind
    self.name = name
    self.recv = recv
    self.func = func
    self.cls = cls
    self.fn_id = 6000000 + next(_counter)
    # a method bound to an object: the value is a function of (method, receiver), so that the same bound method
    # read twice compares equal (python: a.m == a.m)
    self.term = None
    if kind == 'repo' and isinstance(recv, V) and func is not None and getattr(func, 'qual', None):
      code = VBound._mcodes.setdefault(func.qual, 9000000 + len(VBound._mcodes))
      self.term = z3.Function('bound_method', z3.IntSort(), z3.IntSort(), z3.IntSort())(z3.IntVal(code), recv.t)
  _mcodes = {}
  ty = FN


def fn_term(v):
  t = getattr(v, 'term', None)
  return t if t is not None else z3.IntVal(v.fn_id)


class VClass(object):
  _ids = {}
  def __init__(self, name):
    self.name = name
    self.fn_id = VClass._ids.setdefault(name, 7000000 + len(VClass._ids))
  ty = FN


class VModule(object):
  _ids = {}
  def __init__(self, name):
    self.name = name
    self.fn_id = VModule._ids.setdefault(name, 8000000 + len(VModule._ids))
  ty = FN


class Exc(object):
  """Exceptional result of evaluating an expression/statement."""
  def __init__(self, cls, node=None, desc='', value=None):
    self.cls = cls
    self.node = node
    self.desc = desc
    self.value = value

  def __repr__(self):
    return 'Exc(%s)' % self.cls


def mk_int(n):
  return V(INT, z3.IntVal(n))


def mk_bool(b):
  return V(BOOL, z3.BoolVal(bool(b)))


def mk_real(x):
  return V(REAL, z3.RealVal(x))


NONE_V = V(NONE)


def to_terms(v, ty):
  """Flatten value v to the component terms of storage type ty (coercing)."""
  if ty.k == 'tuple':
    out = []
    if ty.opt:
      if v.ty.k == 'none':
        out.append(z3.BoolVal(True))
        for a in ty.args:
          out.extend(_default_terms(a))
        return out
      out.append(v.none if v.none is not None else z3.BoolVal(False))
    if v.ty.k != 'tuple' or len(v.items) != len(ty.args):
      raise Unsupported('storing %r as %r' % (v, ty))
    for it, a in zip(v.items, ty.args):
      out.extend(to_terms(it, a))
    return out
  if ty.k == 'none':
    return []
  if ty.opt and ty.k in ('int', 'real', 'bool'):
    if v.ty.k == 'none':
      return [z3.BoolVal(True)] + _default_terms(ty.with_opt(False))
    return [v.none if v.none is not None else z3.BoolVal(False), coerce(v, ty.with_opt(False))]
  return [coerce(v, ty)]


def _default_terms(ty):
  out = []
  for suf, so in flatten(ty):
    if so == z3.BoolSort():
      out.append(z3.BoolVal(False))
    elif so == z3.RealSort():
      out.append(z3.RealVal(0))
    else:
      out.append(z3.IntVal(0))
  return out


def bytes_len_fn():
  return z3.Function('bytes_len', z3.IntSort(), z3.IntSort())


def coerce(v, ty):
  """Single z3 term of v at scalar/reference type ty."""
  if ty.k == 'bytes' and isinstance(v, V) and v.ty.k == 'bytes':
    # a byte string is storable by identity only when it is a single opaque chunk
    if len(v.py) == 1 and v.py[0][0] == 'raw' and z3.eq(z3.simplify(v.py[0][2]), z3.simplify(bytes_len_fn()(v.py[0][1]))):
      return v.py[0][1]
    raise Unsupported('storing a composite byte string')
  if isinstance(v, (VFunc, VBound, VClass, VModule)) and ty.k in ('fn', 'any'):
    return fn_term(v)
  if isinstance(v, (VFunc, VBound, VClass, VModule)):
    raise Unsupported('storing a callable into %r' % ty)
  if v.ty.k == 'none':
    if ty.is_reflike:
      return z3.IntVal(0)
    raise Unsupported('None stored into non-optional %r' % ty)
  if ty.k == 'real':
    if v.ty.k == 'int':
      return z3.ToReal(v.t)
    if v.ty.k == 'bool':
      return z3.If(v.t, z3.RealVal(1), z3.RealVal(0))
    if v.ty.k == 'real':
      return v.t
  if ty.k == 'int':
    if v.ty.k == 'int':
      return v.t
    if v.ty.k == 'bool':
      return z3.If(v.t, z3.IntVal(1), z3.IntVal(0))
  if ty.k == 'bool' and v.ty.k == 'bool':
    return v.t
  if ty.is_reflike and (v.ty.is_reflike):
    return v.t
  if ty.k == 'any' and v.ty.k == 'int':
    return v.t
  if ty.k == 'any' and v.ty.k == 'bool':
    return z3.If(v.t, z3.IntVal(1), z3.IntVal(0))   # False and None are both falsy ids
  raise Unsupported('cannot coerce %r to %r' % (v, ty))


def from_terms(terms, ty):
  """Inverse of to_terms: build a value of type ty from component terms (consumes a list)."""
  if ty.k == 'tuple':
    none = terms.pop(0) if ty.opt else None
    items = [from_terms(terms, a) for a in ty.args]
    return V(ty, items=items, none=none)
  if ty.k == 'none':
    return NONE_V
  if ty.opt and ty.k in ('int', 'real', 'bool'):
    none = terms.pop(0)
    return V(ty, terms.pop(0), none=none)
  if ty.k == 'bytes':
    t = terms.pop(0)
    return V(ty, py=[('raw', t, bytes_len_fn()(t))])
  return V(ty, terms.pop(0))


class State(object):
  def __init__(self):
    self.pc = []
    self.heap = {}          # key -> z3 array
    self.labels = {}        # label name -> heap snapshot (dict)  ('old' = function entry)
    self.frames = {}        # frame id -> dict name -> value
    self.alloc = None       # z3 Int: allocation counter
    self.path = []          # human readable branch decisions
    self.entry_args = {}    # param name -> entry value (for old())
    self.choices = []       # results of extern calls on this path (name, value)
    self.bufs = {}          # BytesIO contents (byte algebra), keyed by the stream reference
    self.maybe_final = False  # an object of a 'final' class may have been created on this path
    self.wf_ids = set()     # ids of path-condition entries that are well-formedness facts (not branch decisions)

  def fork(self):
    s = State()
    s.pc = list(self.pc)
    s.heap = dict(self.heap)
    s.labels = dict(self.labels)
    s.frames = dict((k, dict(v)) for k, v in self.frames.items())
    s.alloc = self.alloc
    s.path = list(self.path)
    s.entry_args = self.entry_args
    s.choices = list(self.choices)
    s.bufs = dict(self.bufs)
    s.wf_ids = set(self.wf_ids)
    s.maybe_final = self.maybe_final
    return s

  def assume(self, b):
    if z3.is_true(b):
      return
    self.pc.append(b)

  def assume_wf(self, b):
    """A fact about the heap that holds on every path (allocatedness, non-negative lengths)."""
    if z3.is_true(b):
      return
    self.pc.append(b)
    self.wf_ids.add(b.get_id())
