"""Discharging obligations: z3 first, cvc5 for what z3 leaves unknown."""
import os
import subprocess
import tempfile
import time
import z3

CVC5 = '/usr/bin/cvc5'


def smt2_of(hyps, goal):
  s = z3.Solver()
  s.add(*hyps)
  s.add(z3.Not(goal))
  return s.to_smt2()


def run_cvc5(text, timeout_s):
  """-> 'unsat' | 'sat' | 'unknown' (never raises)."""
  if not os.path.exists(CVC5):
    return 'unknown', 'cvc5 not installed'
  fd, path = tempfile.mkstemp(suffix='.smt2', prefix='pyvc_')
  try:
    with os.fdopen(fd, 'w') as f:
      f.write('(set-logic ALL)\n' + text)
    try:
      p = subprocess.run([CVC5, '--tlimit=%d' % int(timeout_s * 1000), '--full-saturate-quant', path],
                         stdout=subprocess.PIPE, stderr=subprocess.PIPE, timeout=timeout_s + 5)
    except subprocess.TimeoutExpired:
      return 'unknown', 'cvc5 timeout'
    out = p.stdout.decode(errors='replace').strip().split('\n')[0] if p.stdout else ''
    if out in ('unsat', 'sat'):
      return out, 'cvc5'
    return 'unknown', (p.stderr.decode(errors='replace')[:200] or out)
  finally:
    try:
      os.unlink(path)
    except OSError:
      pass


def discharge(ob, timeout_ms=10000, use_cvc5=True, recheck_cvc5=False):
  """Sets ob.status in {proved, failed, unknown}; ob.model on failure."""
  if ob.status == 'proved':
    return ob
  t0 = time.time()
  # proofs are refutations: e-matching alone (no model-based instantiation) is usually
  # the fastest way to 'unsat'; the full configuration is used for models and as fallback
  s0 = z3.Solver()
  s0.set('timeout', max(1000, timeout_ms // 2))
  s0.set('smt.mbqi', False)
  s0.add(*ob.hyps)
  s0.add(z3.Not(ob.goal))
  if s0.check() == z3.unsat:
    ob.status, ob.backend = 'proved', 'z3(ematching)'
    ob.time = time.time() - t0
    if recheck_cvc5:
      c, why = run_cvc5(smt2_of(ob.hyps, ob.goal), timeout_ms / 1000.0)
      ob.reason = 'cvc5 recheck: %s' % c
    return ob
  s = z3.Solver()
  s.set('timeout', timeout_ms)
  s.add(*ob.hyps)
  s.add(z3.Not(ob.goal))
  r = s.check()
  if r == z3.unsat:
    ob.status, ob.backend = 'proved', 'z3'
    if recheck_cvc5:
      c, why = run_cvc5(smt2_of(ob.hyps, ob.goal), timeout_ms / 1000.0)
      ob.reason = 'cvc5 recheck: %s' % c
      if c == 'sat':
        ob.status, ob.backend = 'unknown', 'z3/cvc5 disagree'
  elif r == z3.sat:
    ob.status, ob.backend = 'failed', 'z3'
    ob.model = s.model()
  else:
    ob.reason = 'z3: %s' % s.reason_unknown()
    if use_cvc5:
      c, why = run_cvc5(smt2_of(ob.hyps, ob.goal), timeout_ms / 1000.0)
      if c == 'unsat':
        ob.status, ob.backend = 'proved', 'cvc5'
      else:
        ob.status, ob.backend = 'unknown', 'z3+cvc5'
        ob.reason += '; cvc5: %s %s' % (c, why)
    else:
      ob.status, ob.backend = 'unknown', 'z3'
  ob.time = time.time() - t0
  return ob
