"""Mechanical extraction of functions and classes from the repository sources.

Nothing is transcribed: every run parses the files under the repository root and
looks functions up by qualified name ('Class.method', 'Class.method.inner').
"""
import ast
import hashlib
import os


class SourceError(Exception):
  """Function/class not found or shape drifted: verdict is undecided, not violated."""


class ModuleSrc(object):
  def __init__(self, root, relpath):
    self.relpath = relpath
    self.path = os.path.join(root, relpath)
    with open(self.path) as f:
      self.text = f.read()
    self.tree = ast.parse(self.text, self.path)
    self.imports = {}     # local name -> dotted qualified name
    self.toplevel = {}    # name -> node (FunctionDef / ClassDef / Assign value)
    for n in self.tree.body:
      self._scan_top(n)

  def _scan_top(self, n):
    if isinstance(n, ast.Import):
      for a in n.names:
        self.imports[(a.asname or a.name).split('.')[0]] = a.name if a.asname else a.name.split('.')[0]
    elif isinstance(n, ast.ImportFrom):
      mod = n.module or ''
      for a in n.names:
        self.imports[a.asname or a.name] = (mod + '.' if mod else '') + a.name
    elif isinstance(n, (ast.FunctionDef, ast.ClassDef)):
      self.toplevel[n.name] = n
    elif isinstance(n, ast.Assign):
      for t in n.targets:
        if isinstance(t, ast.Name):
          self.toplevel[t.id] = n.value
    elif isinstance(n, ast.Try):
      for b in n.body:
        self._scan_top(b)
      # 'except ImportError:' fallbacks define the same names; first wins
      for h in n.handlers:
        for b in h.body:
          if isinstance(b, (ast.Import, ast.ImportFrom)):
            for a in b.names:
              self.imports.setdefault(a.asname or a.name, (getattr(b, 'module', None) or '') + '.' + a.name)
          elif isinstance(b, ast.Assign):
            for t in b.targets:
              if isinstance(t, ast.Name):
                self.toplevel.setdefault(t.id, b.value)

  def find(self, qual):
    """Find a ClassDef/FunctionDef by dotted path inside this module."""
    parts = qual.split('.')
    body = self.tree.body
    node = None
    for p in parts:
      node = None
      for n in _walk_defs(body):
        if isinstance(n, (ast.FunctionDef, ast.ClassDef)) and n.name == p:
          node = n
          break
      if node is None:
        raise SourceError('%s: %s not found' % (self.relpath, qual))
      body = node.body
    return node

  def segment(self, node):
    return ast.get_source_segment(self.text, node) or ''

  def hash_of(self, node):
    # hash of the AST dump without positions: insensitive to comments/whitespace
    return hashlib.sha256(ast.dump(node, include_attributes=False).encode()).hexdigest()[:16]


def _walk_defs(body):
  """Definitions directly in a body, looking through if/try/with at the same level."""
  for n in body:
    if isinstance(n, (ast.FunctionDef, ast.ClassDef)):
      yield n
    elif isinstance(n, (ast.If, ast.Try, ast.With, ast.For, ast.While)):
      for sub in ('body', 'orelse', 'finalbody'):
        for m in _walk_defs(getattr(n, sub, []) or []):
          yield m
      for h in getattr(n, 'handlers', []) or []:
        for m in _walk_defs(h.body):
          yield m


class Sources(object):
  def __init__(self, root):
    self.root = root
    self._mods = {}

  def module(self, relpath):
    if relpath not in self._mods:
      try:
        self._mods[relpath] = ModuleSrc(self.root, relpath)
      except (IOError, OSError, SyntaxError) as e:
        raise SourceError('%s: %s' % (relpath, e))
    return self._mods[relpath]
