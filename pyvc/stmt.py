"""Statement execution: paths, loops cut at invariants, exceptions."""
import ast
import z3

from .types import Ty, INT, REAL, BOOL, STR, NONE, ANY, FN, parse_type, base_sort
from .state import (V, VFunc, VBound, VClass, VModule, Exc, Unsupported, fresh_name,
                    mk_int, mk_bool, NONE_V, coerce)
from .expr import Ctx, is_num, num_term, simp_bool
from .access import attr_chain

NEXT = ('next', None)

# exception class -> parent (python / gevent hierarchy as far as the repository uses it)
EXC_PARENT = {
  'BaseException': None, 'Exception': 'BaseException', 'GreenletExit': 'BaseException',
  'Timeout': 'BaseException', 'KeyboardInterrupt': 'BaseException',
  'LookupError': 'Exception', 'IndexError': 'LookupError', 'KeyError': 'LookupError',
  'ArithmeticError': 'Exception', 'ZeroDivisionError': 'ArithmeticError',
  'OSError': 'Exception', 'error': 'OSError', 'EOFError': 'Exception',
  'RuntimeError': 'Exception', 'NotImplementedError': 'RuntimeError',
  'ValueError': 'Exception', 'TypeError': 'Exception', 'AttributeError': 'Exception',
  'StopIteration': 'Exception', 'AssertionError': 'Exception',
}

LOCK_NAMES = ('_heap_lock', '_open_lock')


def exc_is(cls, handler):
  c = cls
  seen = 0
  while c is not None and seen < 20:
    if c == handler:
      return True
    c = EXC_PARENT.get(c, 'Exception' if c not in ('BaseException',) else None)
    seen += 1
  return False


def assigned_names(stmts):
  """Local names (re)bound anywhere in stmts, not descending into nested defs/lambdas."""
  out = set()
  def tgt(t):
    if isinstance(t, ast.Name):
      out.add(t.id)
    elif isinstance(t, (ast.Tuple, ast.List)):
      for e in t.elts:
        tgt(e)
  def rec(n):
    if isinstance(n, (ast.FunctionDef, ast.Lambda, ast.ClassDef)):
      if isinstance(n, ast.FunctionDef):
        out.add(n.name)
      return
    if isinstance(n, ast.Assign):
      for t in n.targets:
        tgt(t)
    elif isinstance(n, (ast.AugAssign, ast.AnnAssign)):
      tgt(n.target)
    elif isinstance(n, (ast.For,)):
      tgt(n.target)
    elif isinstance(n, ast.ExceptHandler) and n.name:
      out.add(n.name)
    elif isinstance(n, ast.With):
      for it in n.items:
        if it.optional_vars is not None:
          tgt(it.optional_vars)
    for c in ast.iter_child_nodes(n):
      rec(c)
  for s in stmts:
    rec(s)
  return out


def loops_of(fnode):
  """Loops of a function in source order (not descending into nested defs)."""
  out = []
  def rec(n):
    for c in ast.iter_child_nodes(n):
      if isinstance(c, (ast.FunctionDef, ast.Lambda, ast.ClassDef)):
        continue
      if isinstance(c, (ast.While, ast.For)):
        out.append(c)
      if isinstance(c, ast.Expr) and isinstance(c.value, ast.ListComp):
        out.append(c.value)       # a comprehension used as a statement is a loop
      if (isinstance(c, ast.Expr) and isinstance(c.value, ast.Call) and isinstance(c.value.func, ast.Attribute) and c.value.func.attr == 'update'
          and len(c.value.args) == 1 and isinstance(c.value.args[0], ast.GeneratorExp)):
        out.append(c.value.args[0])   # d.update(<generator of pairs>) is a loop of item assignments
      rec(c)
  rec(fnode)
  return out


class StmtMixin(object):

  def exec_block(self, stmts, st, cx):
    """Generator of (state, (kind, value)); kind in next/ret/brk/cont/exc."""
    if not stmts:
      yield st, NEXT
      return
    for s1, out in self.exec_stmt(stmts[0], st, cx):
      if out[0] != 'next':
        yield s1, out
      else:
        for o in self.exec_block(stmts[1:], s1, cx):
          yield o

  def exec_stmt(self, node, st, cx):
    m = getattr(self, 'ex_' + type(node).__name__, None)
    if m is None:
      raise Unsupported('statement %s at line %s' % (type(node).__name__, getattr(node, 'lineno', '?')))
    self.stmts_seen += 1
    ghosts = self.ghosts_at(cx, node)
    if not ghosts:
      return m(node, st, cx)
    return self._with_ghost(m, node, st, cx, ghosts)

  @staticmethod
  def _stmt_text(node):
    txt = ast.unparse(node).strip()
    if isinstance(node, (ast.If, ast.While, ast.For, ast.Try, ast.With)):
      txt = txt.split('\n')[0].strip()      # compound statements are anchored by their header line ('before' only)
    return txt

  @staticmethod
  def _stmt_shape(node):
    """What identifies a simple statement when its text has been edited: the assigned targets, or the called function."""
    if isinstance(node, ast.Assign):
      return ('assign',) + tuple(ast.unparse(t) for t in node.targets)
    if isinstance(node, ast.AugAssign):
      return ('augassign', ast.unparse(node.target))
    if isinstance(node, ast.Expr) and isinstance(node.value, ast.Call):
      return ('call', ast.unparse(node.value.func))
    if isinstance(node, ast.Raise) and node.exc is not None:
      e = node.exc.func if isinstance(node.exc, ast.Call) else node.exc
      return ('raise', ast.unparse(e))
    if isinstance(node, ast.Delete):
      return ('del',) + tuple(ast.unparse(t) for t in node.targets)
    if isinstance(node, (ast.If, ast.While)):
      # a compound statement is recognised by the functions its condition calls (arguments may have changed)
      called = sorted(set(ast.unparse(c.func) for c in ast.walk(node.test) if isinstance(c, ast.Call)))
      if called:
        return ('if' if isinstance(node, ast.If) else 'while',) + tuple(called)
    return None

  def resolve_anchors(self, spec, fnode):
    """Map each ghost anchor of the sidecar to statements of the function.  An anchor names a statement by its
    text; when that text is no longer there (the statement was edited), the unique statement of the same shape
    (same assignment targets / same called function) takes the anchor, so that an edited statement is checked
    against the contract instead of leaving the unit undecided."""
    stmts = [n for n in ast.walk(fnode) if isinstance(n, ast.stmt) and n is not fnode and not isinstance(n, ast.FunctionDef)]
    texts = {}
    for n in stmts:
      texts.setdefault(self._stmt_text(n), []).append(n)
    amap, drift = {}, []
    exact_nodes = set()
    pending = []
    for g in spec.ghost:
      a = g.get('after', g.get('before')).strip()
      if a in texts:
        for n in texts[a]:
          amap.setdefault(id(n), []).append(g)
          exact_nodes.add(id(n))
        self.anchor_lines.setdefault(spec.name, {})[a] = texts[a][0].lineno - fnode.lineno
      else:
        pending.append((g, a))
    for g, a in pending:
      try:
        an = ast.parse(a + (' pass' if a.endswith(':') else '')).body[0]
      except SyntaxError:
        continue
      shape = self._stmt_shape(an)
      if shape is None:
        continue
      cands = [n for n in stmts if id(n) not in exact_nodes and self._stmt_shape(n) == shape]
      if not cands and shape[0] == 'assign' and len(shape) == 2:
        # x = ... folded into a tuple assignment  x, y, z = ...
        def names(n):
          out = set()
          if isinstance(n, ast.Assign):
            for t in n.targets:
              for e in (t.elts if isinstance(t, (ast.Tuple, ast.List)) else [t]):
                out.add(ast.unparse(e))
          return out
        cands = [n for n in stmts if id(n) not in exact_nodes and shape[1] in names(n)]
      if not cands and isinstance(an, ast.Assign):
        # the assigned local was renamed: the unique assignment of the same right-hand side
        rhs = ast.unparse(an.value)
        cands = [n for n in stmts if id(n) not in exact_nodes and isinstance(n, ast.Assign) and ast.unparse(n.value) == rhs]
      if len(cands) > 1:
        # several statements of that shape: the one closest to where the anchor stood on the unchanged tree
        # (line offset within the function, recorded with the baseline)
        hint = (getattr(self, 'anchor_hints', None) or {}).get(spec.name, {}).get(a)
        if hint is not None:
          ds = sorted((abs((n.lineno - fnode.lineno) - hint), k) for k, n in enumerate(cands))
          if len(ds) == 1 or ds[0][0] < ds[1][0]:
            cands = [cands[ds[0][1]]]
      if len(cands) == 1:
        amap.setdefault(id(cands[0]), []).append(g)
        drift.append('%s: anchor %r re-attached to %r (line %d)' % (spec.name, a, self._stmt_text(cands[0]), cands[0].lineno))
    return amap, drift, set(id(n) for n in stmts)

  def ghosts_at(self, cx, node):
    """Ghost statements the sidecar attaches before/after this statement of the function under contract."""
    spec = cx.spec
    if spec is None or not getattr(spec, 'ghost', None) or cx.qual != spec.name:
      return None
    if isinstance(node, (ast.FunctionDef,)):
      return None
    res = self.anchor_maps.get(spec.name)
    if res is None:
      fnode = self.fnode_of.get(spec.name)
      if fnode is None:
        return None
      res = self.anchor_maps[spec.name] = self.resolve_anchors(spec, fnode)
      self.anchor_drift.extend(res[1])
    if id(node) in res[2]:
      hits = res[0].get(id(node))
    else:     # a statement the engine synthesised (e.g. the element call of a comprehension used as a loop): by text
      txt = self._stmt_text(node)
      hits = [g for g in spec.ghost if g.get('after', g.get('before')).strip() == txt]
    for g in hits or ():
      self.ghost_hits.add((spec.name, g.get('after', g.get('before')).strip()))
    return hits or None

  def _ghost_stmts(self, ghosts, node):
    stmts = []
    for g in ghosts:
      for line in g['do']:
        stmts.extend(ast.parse(line).body)
    for n in ast.walk(ast.Module(body=stmts, type_ignores=[])):
      if not hasattr(n, 'lineno'):
        n.lineno = getattr(node, 'lineno', 0)
        n.col_offset = 0
    return stmts

  def _with_ghost(self, m, node, st, cx, ghosts):
    before = [g for g in ghosts if 'before' in g]
    ghosts = [g for g in ghosts if 'after' in g]
    if ghosts and isinstance(node, (ast.If, ast.While, ast.For, ast.Try, ast.With)):
      raise Unsupported("'after' ghost anchor on a compound statement (line %d)" % node.lineno)
    if before:
      self.ghost_depth += 1
      try:
        pre = list(self.exec_block(self._ghost_stmts(before, node), st, cx))
      finally:
        self.ghost_depth -= 1
    else:
      pre = [(st, ('next', None))]
    for s0, o0 in pre:
      if o0[0] != 'next':
        yield s0, o0
        continue
      for o in self._with_ghost_after(m, node, s0, cx, ghosts):
        yield o

  def _with_ghost_after(self, m, node, st, cx, ghosts):
    for s1, out in m(node, st, cx):
      if out[0] != 'next':
        yield s1, out
        continue
      if not ghosts:
        yield s1, out
        continue
      stmts = self._ghost_stmts(ghosts, node)
      self.ghost_depth += 1
      try:
        outs = list(self.exec_block(stmts, s1, cx))
      finally:
        self.ghost_depth -= 1
      for o in outs:
        yield o

  # ------------------------------------------------------------------ simple statements
  def ex_Pass(self, node, st, cx):
    yield st, NEXT

  def ex_Delete(self, node, st, cx):
    for t in node.targets:
      if isinstance(t, ast.Name):
        st.frames[cx.chain[0]].pop(t.id, None)
      else:
        raise Unsupported('del of a non-local (line %d)' % node.lineno)
    yield st, NEXT

  def ex_Expr(self, node, st, cx):
    if isinstance(node.value, ast.Constant):   # docstring
      yield st, NEXT
      return
    if isinstance(node.value, ast.ListComp) and len(node.value.generators) == 1 and not node.value.generators[0].is_async:
      # [f(x) for x in xs] as a statement: the loop it abbreviates (the resulting list is dropped)
      lc = node.value
      g = lc.generators[0]
      body = [ast.Expr(value=lc.elt)]
      for cond in reversed(g.ifs):
        body = [ast.If(test=cond, body=body, orelse=[])]
      loop = ast.For(target=g.target, iter=g.iter, body=body, orelse=[], type_comment=None)
      ast.copy_location(loop, node)
      ast.fix_missing_locations(loop)
      loop._pyvc_spec_node = lc
      for o in self.ex_For(loop, st, cx):
        yield o
      return
    c = node.value
    if (isinstance(c, ast.Call) and isinstance(c.func, ast.Attribute) and c.func.attr == 'update' and len(c.args) == 1 and not c.keywords
        and isinstance(c.args[0], ast.GeneratorExp) and len(c.args[0].generators) == 1 and not c.args[0].generators[0].is_async
        and isinstance(c.args[0].elt, ast.Tuple) and len(c.args[0].elt.elts) == 2):
      # d.update((k, v) for x in xs): the loop  for x in xs: d[k] = v
      ge = c.args[0]
      g = ge.generators[0]
      body = [ast.Assign(targets=[ast.Subscript(value=c.func.value, slice=ge.elt.elts[0], ctx=ast.Store())], value=ge.elt.elts[1], type_comment=None)]
      for cond in reversed(g.ifs):
        body = [ast.If(test=cond, body=body, orelse=[])]
      loop = ast.For(target=g.target, iter=g.iter, body=body, orelse=[], type_comment=None)
      ast.copy_location(loop, node)
      ast.fix_missing_locations(loop)
      loop._pyvc_spec_node = ge
      for o in self.ex_For(loop, st, cx):
        yield o
      return
    for s1, v in self.ev(node.value, st, cx):
      yield s1, (('exc', v) if isinstance(v, Exc) else NEXT)

  def ex_Return(self, node, st, cx):
    if node.value is None:
      yield st, ('ret', NONE_V)
      return
    for s1, v in self.ev(node.value, st, cx):
      yield s1, (('exc', v) if isinstance(v, Exc) else ('ret', v))

  def ex_Break(self, node, st, cx):
    yield st, ('brk', None)

  def ex_Continue(self, node, st, cx):
    yield st, ('cont', None)

  def ex_FunctionDef(self, node, st, cx):
    st.frames[cx.chain[0]][node.name] = VFunc(node, cx.mod, cx.cls, list(cx.chain), cx.qual + '.' + node.name)
    yield st, NEXT

  def ex_Assert(self, node, st, cx):
    for s1, v in self.ev(node.test, st, cx):
      if isinstance(v, Exc):
        yield s1, ('exc', v)
        continue
      for o in self.oblige_or_raise(s1, cx, self.truth(s1, v), 'AssertionError', node, 'assert'):
        yield o[0], (('exc', o[1]) if isinstance(o[1], Exc) else NEXT)

  def ex_Raise(self, node, st, cx):
    if node.exc is None:
      cur = st.frames[cx.chain[0]].get('$exc')
      if cur is None:
        raise Unsupported('bare raise outside a handler (line %d)' % node.lineno)
      yield st, ('exc', cur)
      return
    for s1, v in self.ev(node.exc, st, cx):
      if isinstance(v, Exc):
        yield s1, ('exc', v)
        continue
      if isinstance(v, (VClass, VBound, VModule)):
        name = v.name.split('.')[-1]
        r = self.new_ref(s1, name if name in self.reg.classes else None)
        yield s1, ('exc', Exc(name, node, 'raise', value=V(Ty('ref', (), name), r)))
      elif isinstance(v, V) and v.ty.k == 'ref':
        yield s1, ('exc', Exc(v.ty.name, node, 'raise', value=v))
      else:
        raise Unsupported('raise of %r (line %d)' % (v, node.lineno))

  # ------------------------------------------------------------------ assignment
  def annotate_literal(self, value, ty):
    if ty is None:
      return
    if isinstance(value, (ast.List, ast.Dict, ast.Call, ast.BinOp, ast.ListComp, ast.Set)):
      value._pyvc_type = ty
      if isinstance(value, ast.BinOp):
        self.annotate_literal(value.left, ty)

  def target_type(self, st, cx, t):
    if isinstance(t, ast.Name):
      if cx.spec is not None and t.id in cx.spec.locals:
        return cx.spec.locals[t.id]
      return None
    if isinstance(t, ast.Attribute) and isinstance(t.value, ast.Name):
      try:
        base = self.lookup(st, cx, t.value.id)
      except Unsupported:
        return None
      if isinstance(base, V) and base.ty.k == 'ref':
        cls = self.mangled_owner(cx, t.attr) or base.ty.name
        owner, fty = self.field_decl(cls, t.attr)
        return fty
    return None

  def ex_Assign(self, node, st, cx):
    if len(node.targets) == 1:
      self.annotate_literal(node.value, self.target_type(st, cx, node.targets[0]))
    # parallel assignment a, b = b, a : evaluate RHS fully first (python semantics)
    for s1, v in self.ev(node.value, st, cx):
      if isinstance(v, Exc):
        yield s1, ('exc', v)
        continue
      outs = [(s1, None)]
      for t in node.targets:
        nxt = []
        for s2, _ in outs:
          for o in self.assign_to(t, v, s2, cx):
            if isinstance(o[1], Exc):
              yield o[0], ('exc', o[1])
            else:
              nxt.append(o)
        outs = nxt
      for s2, _ in outs:
        yield s2, NEXT

  def assign_to(self, t, v, st, cx):
    if isinstance(t, ast.Name):
      decl = cx.spec.locals.get(t.id) if cx.spec is not None else None
      if decl is not None and isinstance(v, V):
        v = self.cast_to(st, v, decl)
      # closures write through to the frame that owns the name?  python rebinding is local
      st.frames[cx.chain[0]][t.id] = v
      yield st, None
    elif isinstance(t, (ast.Tuple, ast.List)):
      if (isinstance(v, V) and v.ty.k == 'ref' and self.reg.classes.get(v.ty.name) is not None
          and self.reg.classes[v.ty.name].listlike and len(self.reg.classes[v.ty.name].listlike) == len(t.elts)):
        items = [self.load_field(st, v.t, v.ty.name, f) for f in self.reg.classes[v.ty.name].listlike]
        v = V(Ty('tuple', [i.ty for i in items]), items=items)
      if isinstance(v, V) and v.ty.k == 'list':
        # unpacking a list: ValueError unless it has exactly as many items as there are targets
        n = self.list_len(st, v)
        for s0, e in self.oblige_or_raise(st, cx, n == len(t.elts), 'ValueError', t, 'unpack of a list with exactly %d items' % len(t.elts)):
          if isinstance(e, Exc):
            yield s0, e
            continue
          items = [self.list_get(s0, v, z3.IntVal(i)) for i in range(len(t.elts))]
          for o in self.assign_to(t, V(Ty('tuple', [i.ty for i in items]), items=items), s0, cx):
            yield o
        return
      if not (isinstance(v, V) and v.ty.k == 'tuple' and len(v.items) == len(t.elts)):
        raise Unsupported('unpacking %r into %d targets (line %d)' % (v, len(t.elts), t.lineno))
      if v.none is not None and not self.spec_depth:
        gen = self.oblige_or_raise(st, cx, z3.Not(v.none), 'TypeError', t, 'unpacking a non-None value')
      else:
        gen = iter([(st, None)])
      for s0, e in gen:
        if isinstance(e, Exc):
          yield s0, e
          continue
        outs = [(s0, None)]
        for sub, item in zip(t.elts, v.items):
          nxt = []
          for s2, _ in outs:
            for o in self.assign_to(sub, item, s2, cx):
              if isinstance(o[1], Exc):
                yield o
              else:
                nxt.append(o)
          outs = nxt
        for o in outs:
          yield o
    elif isinstance(t, ast.Attribute):
      for s1, base in self.ev(t.value, st, cx):
        if isinstance(base, Exc):
          yield s1, base
          continue
        if not (isinstance(base, V) and base.ty.k == 'ref'):
          raise Unsupported('attribute store on %r (line %d)' % (base, t.lineno))
        cls = self.mangled_owner(cx, t.attr) or base.ty.name
        owner, fty = self.field_decl(cls, t.attr)
        if owner is None:
          # property setter?
          member, mod, mowner = self.find_member(cls, t.attr)
          if member is not None and isinstance(member, ast.FunctionDef):
            setter = None
            cnode, cmod = self.class_node(mowner)
            for n in cnode.body:
              if isinstance(n, ast.FunctionDef) and n.name == t.attr and any(
                  isinstance(d, ast.Attribute) and d.attr == 'setter' for d in n.decorator_list):
                setter = n
            if setter is not None:
              fn = VFunc(setter, cmod, mowner, None, mowner + '.' + t.attr + '.setter')
              for o in self.inline_call(s1, cx, fn, [base, v], {}, t):
                yield o[0], (o[1] if isinstance(o[1], Exc) else None)
              continue
          from .access import DROP_ROOTS
          if t.attr.lstrip('_') in tuple(r.lstrip('_') for r in DROP_ROOTS) or t.attr in ('endpoint',) and False:
            # storing the (dropped) logger / metrics object: part of what the extraction drops
            self.dropped.add('%s.%s = ...' % (cls, t.attr))
            yield s1, None
            continue
          raise Unsupported('field %s.%s not declared (line %d)' % (cls, t.attr, t.lineno))
        if base.ty.opt:
          gen = self.oblige_or_raise(s1, cx, base.t != 0, 'AttributeError', t, 'None.%s = ...' % t.attr)
        else:
          gen = iter([(s1, None)])
        for s2, e in gen:
          if isinstance(e, Exc):
            yield s2, e
          else:
            self.store_field(s2, base.t, cls, t.attr, v)
            yield s2, None
    elif isinstance(t, ast.Subscript):
      for s1, vals in self.ev_seq([t.value, t.slice], st, cx):
        if isinstance(vals, Exc):
          yield s1, vals
          continue
        base, idx = vals
        k = base.ty.k if isinstance(base, V) else None
        if k == 'list':
          n = self.list_len(s1, base)
          j, ok = self.norm_index(s1, cx, idx, n, t, 'list')
          for s2, e in self.oblige_or_raise(s1, cx, ok, 'IndexError', t, 'list assignment index in range'):
            if isinstance(e, Exc):
              yield s2, e
            else:
              self.list_set(s2, base, j, v)
              yield s2, None
        elif k in ('dict', 'ddict'):
          self.dict_set(s1, base, self.key_term(s1, idx, base.ty.args[0]), v)
          yield s1, None
        elif k == 'ref' and self.reg.classes.get(base.ty.name) is not None and self.reg.classes[base.ty.name].listlike:
          c = z3.simplify(idx.t)
          if not z3.is_int_value(c):
            raise Unsupported('record index must be constant (line %d)' % t.lineno)
          self.store_field(s1, base.t, base.ty.name, self.reg.classes[base.ty.name].listlike[c.as_long()], v)
          yield s1, None
        elif k == 'ref' and self.dictlike_info(base.ty) is not None:
          f = self.dl_field(self.dictlike_info(base.ty), idx, t)
          self.store_field(s1, base.t, base.ty.name, f, v)
          self.store_field(s1, base.t, base.ty.name, 'has_' + f, mk_bool(True))
          yield s1, None
        else:
          raise Unsupported('subscript store on %r (line %d)' % (base, t.lineno))
    else:
      raise Unsupported('assignment target %s' % type(t).__name__)

  def cast_to(self, st, v, ty):
    """Re-type a value to a declared local type (e.g. None -> Node?)."""
    if v.ty == ty:
      return v
    if v.ty.k == 'none':
      return self.default_of(ty) if not ty.is_reflike else V(ty, z3.IntVal(0))
    if ty.is_reflike and v.ty.is_reflike:
      return V(ty, v.t)
    if ty.k in ('int', 'real', 'bool') and ty.opt and v.ty.k in ('int', 'real', 'bool'):
      return V(ty, coerce(V(v.ty.with_opt(False), v.t), ty.with_opt(False)),
               none=v.none if v.none is not None else z3.BoolVal(False))
    if ty.k == 'real' and v.ty.k == 'int':
      return V(ty, z3.ToReal(v.t))
    return v

  def ex_AugAssign(self, node, st, cx):
    load = ast.copy_location(_as_load(node.target), node.target)
    for s1, vals in self.ev_seq([load, node.value], st, cx):
      if isinstance(vals, Exc):
        yield s1, ('exc', vals)
        continue
      for s2, r in self.binop(s1, cx, node.op, vals[0], vals[1], node):
        if isinstance(r, Exc):
          yield s2, ('exc', r)
          continue
        for o in self.assign_to(node.target, r, s2, cx):
          yield o[0], (('exc', o[1]) if isinstance(o[1], Exc) else NEXT)

  # ------------------------------------------------------------------ control flow
  def ex_If(self, node, st, cx):
    for s1, c in self.ev(node.test, st, cx):
      if isinstance(c, Exc):
        yield s1, ('exc', c)
        continue
      tc = self.truth(s1, c)
      sb = simp_bool(tc)
      line = node.lineno
      if sb is True:
        for o in self.exec_block(node.body, s1, cx):
          yield o
        continue
      if sb is False:
        for o in self.exec_block(node.orelse, s1, cx):
          yield o
        continue
      s_t = s1.fork(); s_t.assume(tc); s_t.path.append('L%d:T' % line)
      s_f = s1; s_f.assume(z3.Not(tc)); s_f.path.append('L%d:F' % line)
      if self.feasible(s_t):
        for o in self.exec_block(node.body, s_t, cx):
          yield o
      if self.feasible(s_f):
        for o in self.exec_block(node.orelse, s_f, cx):
          yield o

  def ex_With(self, node, st, cx):
    for it in node.items:
      e = it.context_expr
      ch = attr_chain(e.func if isinstance(e, ast.Call) else e) or []
      ok = (ch and ch[-1] in LOCK_NAMES) or (isinstance(e, ast.Call) and ch and ch[-1] == 'Measure')
      if not ok or it.optional_vars is not None:
        raise Unsupported('with-statement on %s (line %d)' % ('.'.join(ch) or '?', node.lineno))
      if ch[-1] in LOCK_NAMES:
        self.dropped.add('with ' + '.'.join(ch))
      else:
        self.dropped.add('with ' + '.'.join(ch) + '()')
    locked = any((attr_chain(it.context_expr) or ['?'])[-1] in LOCK_NAMES for it in node.items)
    if locked:
      self.lock_depth += 1
    try:
      outs = list(self.exec_block(node.body, st, cx))
    finally:
      if locked:
        self.lock_depth -= 1
    for o in outs:
      yield o

  def handler_matches(self, h, exc):
    if h.type is None:
      return True
    types = h.type.elts if isinstance(h.type, ast.Tuple) else [h.type]
    for t in types:
      name = t.id if isinstance(t, ast.Name) else (t.attr if isinstance(t, ast.Attribute) else None)
      if name is None:
        raise Unsupported('except clause type (line %d)' % h.lineno)
      if exc_is(exc.cls, name):
        return True
    return False

  def ex_Try(self, node, st, cx):
    results = []
    for s1, out in list(self.exec_block(node.body, st, cx)):
      if out[0] == 'exc':
        exc = out[1]
        handled = False
        for h in node.handlers:
          if self.handler_matches(h, exc):
            handled = True
            fr = s1.frames[cx.chain[0]]
            if h.name:
              val = exc.value
              if val is None:
                val = V(Ty('ref', (), exc.cls if exc.cls in self.reg.classes else 'Exception'), self.new_ref(s1))
              fr[h.name] = val
            prev = fr.get('$exc')
            fr['$exc'] = exc
            s1.path.append('except@%d' % h.lineno)
            for s2, o2 in self.exec_block(h.body, s1, cx):
              f2 = s2.frames.get(cx.chain[0])
              if f2 is not None:
                if prev is None:
                  f2.pop('$exc', None)
                else:
                  f2['$exc'] = prev
              results.append((s2, o2))
            break
        if not handled:
          results.append((s1, out))
      elif out[0] == 'next' and node.orelse:
        for o in self.exec_block(node.orelse, s1, cx):
          results.append(o)
      else:
        results.append((s1, out))
    if not node.finalbody:
      for o in results:
        yield o
      return
    for s1, out in results:
      for s2, o2 in self.exec_block(node.finalbody, s1, cx):
        yield s2, (out if o2[0] == 'next' else o2)

  # ------------------------------------------------------------------ loops
  def loop_spec(self, cx, node):
    direct = getattr(node, '_pyvc_loop_spec', None)
    if direct is not None:
      return direct
    fn = self.fnode_of.get(cx.qual)
    spec = cx.spec
    if fn is None or spec is None:
      raise Unsupported('loop at line %d in a function without a sidecar entry (%s)' % (node.lineno, cx.qual))
    lps = loops_of(fn)
    node = getattr(node, '_pyvc_spec_node', node)
    try:
      ordn = [id(l) for l in lps].index(id(node))
    except ValueError:
      raise Unsupported('loop at line %d not found in %s' % (node.lineno, cx.qual))
    ls = spec.loops.get(ordn)
    if ls is None:
      # a loop the sidecar has no invariant for (new code): cut with the invariant 'true', everything havocked
      self.degraded.append('loop #%d of %s (line %d) has no invariant: abstracted as arbitrary effects' % (ordn, cx.qual, node.lineno))
      ls = dict(invariant=[], modifies=['*'], allocates='any')
    return ordn, ls

  def ex_While(self, node, st, cx):
    if node.orelse:
      raise Unsupported('while-else (line %d)' % node.lineno)
    ordn, ls = self.loop_spec(cx, node)
    return self.run_loop(node, st, cx, ordn, ls, test=node.test, body=node.body, step=None)

  def run_loop(self, node, st, cx, ordn, ls, test, body, step, pre_body=None):
    """Cut the loop at its invariant.  test: ast expr or callable(st)->z3 Bool;
    step: callable(st) applied after each normal/continue iteration;
    pre_body: callable(st) run at the start of each iteration (binds the loop variable)."""
    tag = '%s.loop%d' % (cx.qual, ordn)
    line = node.lineno
    frame = st.frames[cx.chain[0]]
    for n, e in enumerate(ls.get('invariant', ())):
      self.oblige(st, 'inv-init[%s#%d]' % (tag, n), self.spec_bool(st, cx, e), node, 'loop invariant %r holds on entry' % e)
    # havoc what the loop may change
    names = assigned_names(body) | set(ls.get('havoc_locals', ()))
    for nm in sorted(names):
      if nm in frame and isinstance(frame[nm], V):
        decl = cx.spec.locals.get(nm) if cx.spec is not None else None
        ty = decl or frame[nm].ty
        if ty.k == 'none':
          raise Unsupported('local %s is None before loop %s and reassigned: declare its type in locals' % (nm, tag))
        frame[nm] = self.fresh_val(st, ty, nm)
      elif nm in frame and not isinstance(frame[nm], V):
        pass   # rebinding a closure: keep
    mods = ls.get('modifies', cx.spec.modifies if cx.spec is not None else ())
    self.havoc_patterns(st, mods)
    lalloc = ls.get('allocates', cx.spec.allocates if cx.spec is not None else True)
    if lalloc:
      a = z3.Int(fresh_name('alloc'))
      st.assume(a >= st.alloc)
      if lalloc != 'any':
        st.assume(self.no_finals_between(st, st.alloc, a))   # re-established by the obligation at the unit's exit
      st.alloc = a
    head_alloc = st.alloc
    head_maybe_final = st.maybe_final
    # streams written by the loop body: what earlier iterations wrote is an opaque chunk
    if st.bufs and ls.get('writes_streams', True) and any(
        isinstance(n, ast.Attribute) and (n.attr == 'write' or n.attr.startswith('Write')) for b in body for n in ast.walk(b)):
      nb = {}
      for key, bf in st.bufs.items():
        sym, ln = z3.Int(fresh_name('chunk')), z3.Int(fresh_name('chunklen'))
        st.assume(ln >= 0)
        nb[key] = dict(bf, data=list(bf['data']) + [('raw', sym, ln)])
      st.bufs = nb
    if st.bufs and any(isinstance(n, ast.Attribute) and (n.attr in ('read', 'Unpack') or n.attr.startswith('Read'))
                       for b in body for n in ast.walk(b)):
      # streams read by the loop body: how far earlier iterations got is unknown
      nb = {}
      for key, bf in st.bufs.items():
        sym, ln = z3.Int(fresh_name('unread')), z3.Int(fresh_name('unreadlen'))
        st.assume(ln >= 0)
        nb[key] = dict(bf, data=[('raw', sym, ln)], rpos=0, reading=True)
      st.bufs = nb
    head_heap = dict(st.heap)
    head_heap['$alloc'] = st.alloc      # objects one iteration creates are outside the loop's frame
    modkeys = self.keys_of_patterns(mods)
    for e in ls.get('invariant', ()):
      t = self.parse_spec(e)
      if (isinstance(t, ast.Call) and isinstance(t.func, ast.Name) and t.func.id == 'beq' and isinstance(t.args[0], ast.Name)
          and t.args[0].id in frame and isinstance(frame[t.args[0].id], V) and frame[t.args[0].id].ty.k == 'bytes' and t.args[0].id in names):
        # a byte-string local is defined by its invariant (opaque bytes cannot be constrained by equality)
        self.spec_depth += 1
        try:
          frame[t.args[0].id] = self.ev1(t.args[1], st, cx)
        finally:
          self.spec_depth -= 1
        continue
      st.assume(self.spec_bool(st, cx, e))
    st.path.append('loop%d@%d' % (ordn, line))
    # condition
    if callable(test):
      conds = [(st, V(BOOL, test(st)))]
    else:
      conds = list(self.ev(test, st, cx))
    for s1, c in conds:
      if isinstance(c, Exc):
        yield s1, ('exc', c)
        continue
      tc = self.truth(s1, c)
      sb = simp_bool(tc)
      if sb is not True:
        s_exit = s1.fork()
        s_exit.assume(z3.Not(tc))
        if self.feasible(s_exit):
          s_exit.path.append('loop%d:exit' % ordn)
          yield s_exit, NEXT
      if sb is False:
        continue
      s_body = s1
      s_body.assume(tc)
      if not self.feasible(s_body):
        continue
      dec0 = None
      if ls.get('decreases'):
        dec0 = num_term(self.spec_value(s_body, cx, ls['decreases']), False)
      if pre_body is not None:
        pre = list(pre_body(s_body))
      else:
        pre = [(s_body, None)]
      for s_b, e in pre:
        if isinstance(e, Exc):
          yield s_b, ('exc', e)
          continue
        for s2, out in self.exec_block(body, s_b, cx):
          kind = out[0]
          if kind in ('next', 'cont'):
            if step is not None:
              step(s2)
            for n, e2 in enumerate(ls.get('invariant', ())):
              self.oblige(s2, 'inv-pres[%s#%d]' % (tag, n), self.spec_bool(s2, cx, e2), node, 'loop invariant %r is preserved' % e2)
            if dec0 is not None:
              d1 = num_term(self.spec_value(s2, cx, ls['decreases']), False)
              self.oblige(s2, 'decreases[%s]' % tag, z3.And(d1 >= 0, d1 < dec0), node, 'loop variant decreases')
            self.check_frame(s2, head_heap, modkeys, 'loop-frame[%s]' % tag, node)
            if s2.alloc is not head_alloc and not ls.get('allocates', cx.spec.allocates if cx.spec is not None else True):
              self.oblige(s2, 'loop-no-alloc[%s]' % tag, s2.alloc == head_alloc, node, 'the loop body allocates nothing')
            elif lalloc != 'any' and s2.maybe_final and not head_maybe_final:
              self.oblige(s2, 'loop-no-final-alloc[%s]' % tag, z3.BoolVal(False), node,
                          "one iteration creates no instance of a 'final' class")
          elif kind == 'brk':
            self.check_frame(s2, head_heap, modkeys, 'loop-frame[%s]' % tag, node)
            s2.path.append('loop%d:break' % ordn)
            yield s2, NEXT
          else:
            yield s2, out

  def check_frame(self, st, base_heap, modkeys, name, node):
    """Everything outside the declared modifies set is unchanged."""
    if '*' in modkeys:
      return
    for k, a in st.heap.items():
      if k in modkeys or k == '$cls':
        continue
      b = base_heap.get(k)
      if b is None or b is a or z3.eq(a, b):
        continue
      lim = base_heap.get('$alloc')
      if lim is not None and a.sort().domain() == z3.IntSort():
        # objects allocated since then are the function's own: only pre-existing ones are framed
        r = z3.Int(fresh_name('fr'))
        goal = z3.ForAll([r], z3.Implies(r <= lim, z3.Select(a, r) == z3.Select(b, r)))
      else:
        goal = a == b
      self.oblige(st, '%s:%s' % (name, k), goal, node, 'heap component %s is not modified (on pre-existing objects)' % k)

  def ex_For(self, node, st, cx):
    if node.orelse:
      raise Unsupported('for-else (line %d)' % node.lineno)
    ordn, ls = self.loop_spec(cx, node)
    it = node.iter
    frame_id = cx.chain[0]
    # for x in range(a[, b])
    if isinstance(it, ast.Call) and isinstance(it.func, ast.Name) and it.func.id == 'range' and isinstance(node.target, ast.Name):
      var = node.target.id
      for s1, vals in self.ev_seq(list(it.args), st, cx):
        if isinstance(vals, Exc):
          yield s1, ('exc', vals)
          continue
        lo, hi = (mk_int(0), vals[0]) if len(vals) == 1 else (vals[0], vals[1])
        if len(vals) > 2:
          raise Unsupported('range with step')
        hi_t = num_term(hi, False)
        ctr = '$ctr%d' % ordn
        s1.frames[frame_id][ctr] = V(INT, num_term(lo, False))
        s1.frames[frame_id][var] = V(INT, num_term(lo, False))
        ls2 = dict(ls)
        ls2['havoc_locals'] = list(ls.get('havoc_locals', ())) + [var, ctr]
        def test(s, hi_t=hi_t, var=var):
          return s.frames[frame_id][var].t < hi_t
        def step(s, var=var):
          # the loop variable takes the next value (a body may not rebind it for our purposes)
          s.frames[frame_id][var] = V(INT, s.frames[frame_id][ctr].t + 1)
          s.frames[frame_id][ctr] = V(INT, s.frames[frame_id][ctr].t + 1)
        def pre(s, var=var):
          s.frames[frame_id][ctr] = s.frames[frame_id][var]
          yield s, None
        for o in self.run_loop(node, s1, cx, ordn, ls2, test, node.body, step, pre):
          yield o
      return
    # for x in <list>  /  for i, x in enumerate(<list>)
    enum = isinstance(it, ast.Call) and isinstance(it.func, ast.Name) and it.func.id == 'enumerate'
    src = it.args[0] if enum else it
    for s1, seq in self.ev(src, st, cx):
      if isinstance(seq, Exc):
        yield s1, ('exc', seq)
        continue
      if isinstance(seq, V) and seq.ty.k == 'deque' and not enum:
        for o in self.for_deque(node, s1, cx, ordn, ls, seq):
          yield o
        continue
      if not (isinstance(seq, V) and seq.ty.k == 'list'):
        for o in self.for_other(node, s1, cx, ordn, ls, seq, enum):
          yield o
        continue
      idx = '_i%d' % ordn
      s1.frames[frame_id][idx] = mk_int(0)
      ls2 = dict(ls)
      ls2['havoc_locals'] = list(ls.get('havoc_locals', ())) + [idx]
      ls2['invariant'] = list(ls.get('invariant', ())) + ['%s >= 0' % idx]     # the hidden position never goes negative
      def test(s, seq=seq):
        return s.frames[frame_id][idx].t < self.list_len(s, seq)
      def step(s):
        s.frames[frame_id][idx] = V(INT, s.frames[frame_id][idx].t + 1)
      def pre(s, seq=seq):
        i = s.frames[frame_id][idx]
        item = self.list_get(s, seq, i.t)
        val = V(Ty('tuple', [INT, item.ty]), items=[i, item]) if enum else item
        for o in self.assign_to(node.target, val, s, cx):
          yield o
      for o in self.run_loop(node, s1, cx, ordn, ls2, test, node.body, step, pre):
        yield o

  def for_deque(self, node, st, cx, ordn, ls, seq):
    """for x in <deque>: absolute positions lo..hi-1 in order ('_p<n>' is the hidden position);
    CPython raises RuntimeError if the deque is mutated during iteration."""
    frame_id = cx.chain[0]
    pos = '_p%d' % ordn
    lo0, hi0 = self.dq_bounds(st, seq)
    st.frames[frame_id][pos] = V(INT, lo0)
    ls2 = dict(ls)
    ls2['havoc_locals'] = list(ls.get('havoc_locals', ())) + [pos]
    ls2['invariant'] = list(ls.get('invariant', ())) + ['%s >= dq_lo_entry' % pos] if False else list(ls.get('invariant', ()))
    def test(s):
      lo, hi = self.dq_bounds(s, seq)
      return s.frames[frame_id][pos].t < hi
    def step(s):
      lo, hi = self.dq_bounds(s, seq)
      self.oblige(s, 'no-RuntimeError[%s.loop%d]' % (cx.qual, ordn), z3.And(lo == lo0, hi == hi0), node,
                  'the deque is not mutated while it is iterated')
      s.frames[frame_id][pos] = V(INT, s.frames[frame_id][pos].t + 1)
    def pre(s):
      p = s.frames[frame_id][pos]
      s.assume(p.t >= lo0)
      item = self.dq_get(s, seq, p.t)
      for o in self.assign_to(node.target, item, s, cx):
        yield o
    for o in self.run_loop(node, st, cx, ordn, ls2, test, node.body, step, pre):
      yield o

  def for_other(self, node, st, cx, ordn, ls, seq, enum):
    """for k, v in d.items() / for k in d.keys() / for v in d.values(): an arbitrary number of
    iterations, each over an arbitrary entry of the dictionary; CPython raises RuntimeError if
    the dictionary changes size while iterated (obligation at the end of every iteration)."""
    from .state import VBound
    if isinstance(seq, V) and seq.ty.k == 'any' and not enum:
      # an opaque sequence: any number of iterations over opaque elements
      frame_id = cx.chain[0]
      more = '$more%d' % ordn
      st.frames[frame_id][more] = V(BOOL, z3.Bool(fresh_name('more')))
      ls2 = dict(ls)
      ls2['havoc_locals'] = list(ls.get('havoc_locals', ())) + [more]
      def test(s):
        return s.frames[frame_id][more].t
      def step(s):
        s.frames[frame_id][more] = V(BOOL, z3.Bool(fresh_name('more')))
      def pre(s):
        for o in self.assign_to(node.target, self.fresh_val(s, ANY, 'elem'), s, cx):
          yield o
      for o in self.run_loop(node, st, cx, ordn, ls2, test, node.body, step, pre):
        yield o
      return
    if isinstance(seq, V) and seq.ty.k == 'set' and not enum:
      # for x in <set>: any number of iterations, each over some element of the set as it was when the loop started
      # (iteration order is unspecified); CPython raises RuntimeError if the set changes size while iterated
      frame_id = cx.chain[0]
      more = '$more%d' % ordn
      st.frames[frame_id][more] = V(BOOL, z3.Bool(fresh_name('more')))
      ls2 = dict(ls)
      ls2['havoc_locals'] = list(ls.get('havoc_locals', ())) + [more]
      mem0 = self.set_mem_arr(st, seq)
      card0 = self.set_card(st, seq)
      ety = seq.ty.args[0]
      def test(s):
        return s.frames[frame_id][more].t
      def step(s):
        self.oblige(s, 'no-RuntimeError[%s.loop%d]' % (cx.qual, ordn), self.set_card(s, seq) == card0, node,
                    'the set does not change size while it is iterated')
        s.frames[frame_id][more] = V(BOOL, z3.Bool(fresh_name('more')))
      def pre(s):
        e = self.fresh_val(s, ety, 'elem')
        s.assume(z3.Select(mem0, coerce(e, ety)))
        s.assume(card0 >= 1)
        for o in self.assign_to(node.target, e, s, cx):
          yield o
      for o in self.run_loop(node, st, cx, ordn, ls2, test, node.body, step, pre):
        yield o
      return
    if not (isinstance(seq, VBound) and seq.kind == 'dictview') or enum:
      raise Unsupported('for-loop over %r (line %d)' % (seq, node.lineno))
    d = seq.recv
    frame_id = cx.chain[0]
    kty, vty = d.ty.args
    more = '$more%d' % ordn
    st.frames[frame_id][more] = V(BOOL, z3.Bool(fresh_name('more')))
    ls2 = dict(ls)
    ls2['havoc_locals'] = list(ls.get('havoc_locals', ())) + [more]
    card0 = self.dict_card(st, d)
    def test(s):
      return s.frames[frame_id][more].t
    def step(s):
      self.oblige(s, 'no-RuntimeError[%s.loop%d]' % (cx.qual, ordn), self.dict_card(s, d) == card0, node,
                  'the dictionary does not change size while it is iterated')
      s.frames[frame_id][more] = V(BOOL, z3.Bool(fresh_name('more')))
    def pre(s):
      k = self.fresh_val(s, kty, 'key')
      s.assume(z3.Select(self.dict_has_arr(s, d), k.t))
      val = self.dict_get(s, d, k.t)
      item = {'items': V(Ty('tuple', [kty, vty]), items=[k, val]), 'keys': k, 'values': val}[seq.name]
      for o in self.assign_to(node.target, item, s, cx):
        yield o
    for o in self.run_loop(node, st, cx, ordn, ls2, test, node.body, step, pre):
      yield o


def _as_load(t):
  if isinstance(t, ast.Name):
    return ast.Name(id=t.id, ctx=ast.Load())
  if isinstance(t, ast.Attribute):
    return ast.Attribute(value=t.value, attr=t.attr, ctx=ast.Load())
  if isinstance(t, ast.Subscript):
    return ast.Subscript(value=t.value, slice=t.slice, ctx=ast.Load())
  raise Unsupported('augmented assignment target')
