"""pyvc: a verification-condition generator for a typed subset of Python.

It reads the *real* functions of /repo (via ast) on every run, executes them
symbolically against sidecar contracts (/verif/specs) and discharges every
obligation with z3 (cvc5 as second back end).  See /verif/DESIGN.md section 2.
"""
