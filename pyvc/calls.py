"""Calls: contracts (modular), inlining, externs, pure-call merging, spec builtins."""
import ast
import z3

from .types import Ty, INT, REAL, BOOL, STR, NONE, ANY, FN, parse_type, base_sort
from .state import (V, VFunc, VBound, VClass, VModule, Exc, Unsupported, fresh_name,
                    mk_int, mk_bool, NONE_V, coerce, to_terms, from_terms)
from .expr import Ctx, is_num, num_term, simp_bool

I = z3.IntSort()
MAX_INLINE_DEPTH = 10


def _pattern_ok(t):
  """Patterns must be built from uninterpreted applications / selects over constants."""
  stack = [t]
  while stack:
    x = stack.pop()
    if z3.is_app(x):
      k = x.decl().kind()
      if k in (z3.Z3_OP_STORE, z3.Z3_OP_ITE, z3.Z3_OP_ADD, z3.Z3_OP_SUB, z3.Z3_OP_MUL,
               z3.Z3_OP_IDIV, z3.Z3_OP_DIV, z3.Z3_OP_MOD):
        return False
      stack.extend(x.children())
  return True


class LSet(object):
  """Logical (spec-only) set value: a z3 membership array."""
  def __init__(self, arr, ety):
    self.arr = arr
    self.ety = ety
    self.ty = Ty('lset', [ety])


class CallMixin(object):

  # ------------------------------------------------------------------ obligations that python turns into exceptions
  def oblige_or_raise(self, st, cx, cond, excname, node, desc):
    """Fork on an implicit python error: the failing side raises excname (and is pruned when
    infeasible).  Whether the exception may escape is decided at the function exit."""
    sb = simp_bool(cond)
    if sb is True or self.spec_depth:
      yield st, None
      return
    bad = st.fork()
    bad.assume(z3.Not(cond))
    if sb is False:
      bad.path.append('%s@%s' % (excname, getattr(node, 'lineno', '?')))
      yield bad, Exc(excname, node, desc)
      return
    if self.feasible(bad):
      bad.path.append('%s@%s' % (excname, getattr(node, 'lineno', '?')))
      yield bad, Exc(excname, node, desc)
    st.assume(cond)
    yield st, None

  # ------------------------------------------------------------------ ev_Call
  def ev_Call(self, node, st, cx):
    f = node.func
    # spec builtins bind variables: handled on the AST
    if (self.spec_depth or self.ghost_depth) and isinstance(f, ast.Name) and f.id in ('forall', 'exists', 'forall_ref', 'exists_ref', 'old', 'let', 'at'):
      self.spec_depth += 1
      try:
        v = self.spec_binder(f.id, node, st, cx)
      finally:
        self.spec_depth -= 1
      yield st, v
      return
    if self.ghost_depth and not self.spec_depth and isinstance(f, ast.Name) and f.id in ('prove', 'assume'):
      txt = ast.unparse(node.args[0])
      self.spec_depth += 1
      try:
        g = self.truth(st, self.ev1(node.args[0], st, cx))
      finally:
        self.spec_depth -= 1
      if f.id == 'assume':
        st.assume(g)
        self.assumes.append('%s: assume(%s)' % (cx.qual, txt))
      else:
        label = node.args[1].value if len(node.args) > 1 and isinstance(node.args[1], ast.Constant) else txt[:40]
        self.oblige(st, 'prove[%s:%s]@%s' % (cx.qual, label, getattr(node, 'lineno', '?')), g, node, 'at this point: %s' % txt)
      yield st, NONE_V
      return
    if self.is_dropped_call(node, cx):
      self.dropped.add('.'.join(self._chain(f)))
      yield st, NONE_V
      return
    if isinstance(f, ast.Name) and f.id == 'next' and len(node.args) == 2 and isinstance(node.args[0], ast.GeneratorExp) and not node.keywords:
      for o in self.ev_first_match(node, st, cx):
        yield o
      return
    # super(C, self).m(...)
    if (isinstance(f, ast.Attribute) and isinstance(f.value, ast.Call)
        and isinstance(f.value.func, ast.Name) and f.value.func.id == 'super'):
      sargs = f.value.args
      cname = sargs[0].id if sargs else cx.cls
      if sargs and cx.mod is not None:
        for rn, ci in self.reg.classes.items():     # the class may be declared under another registry name
          if ci.file == cx.mod.relpath and ci.path == sargs[0].id:
            cname = rn
      if cname not in self.reg.classes:
        cname = cx.cls
      selfv = self.lookup(st, cx, sargs[1].id if len(sargs) > 1 else 'self')
      target = None
      for b in self.mro(cname)[1:]:
        member, mod, owner = self.find_member(b, f.attr)
        if member is not None and owner != cname:
          target = VBound('repo', f.attr, recv=selfv, func=VFunc(member, mod, owner, None, owner + '.' + f.attr), cls=owner)
          break
      if target is None:
        if f.attr == '__init__':
          for st1, vals in self.ev_seq(list(node.args), st, cx):
            yield st1, (vals if isinstance(vals, Exc) else NONE_V)
          return
        raise Unsupported('super().%s not found' % f.attr)
      for o in self._call_with_args(node, st, cx, target):
        yield o
      return
    f._pyvc_callee = True          # (an attribute read whose value is called at once: never an opaque data attribute)
    for st1, callee in self.ev(f, st, cx):
      if isinstance(callee, Exc):
        yield st1, callee
        continue
      for o in self._call_with_args(node, st1, cx, callee):
        yield o

  def _chain(self, f):
    from .access import attr_chain
    return attr_chain(f) or ['?']

  def _call_with_args(self, node, st, cx, callee):
    arg_nodes = []
    star = None
    for a in node.args:
      if isinstance(a, ast.Starred):
        star = a
      else:
        arg_nodes.append(a)
    kw_nodes = [k for k in node.keywords if k.arg is not None]
    dstar = [k for k in node.keywords if k.arg is None]
    all_nodes = arg_nodes + [k.value for k in kw_nodes] + ([star.value] if star else []) + [k.value for k in dstar]
    for st1, vals in self.ev_seq(all_nodes, st, cx):
      if isinstance(vals, Exc):
        yield st1, vals
        continue
      args = vals[:len(arg_nodes)]
      kwargs = dict((k.arg, v) for k, v in zip(kw_nodes, vals[len(arg_nodes):]))
      extra = vals[len(arg_nodes) + len(kw_nodes):]
      if star is not None:
        sv = extra[0]
        if isinstance(sv, V) and sv.ty.k == 'tuple':
          args = args + list(sv.items)
        elif isinstance(sv, V) and sv.ty.k == 'list' and z3.is_int_value(z3.simplify(self.list_len(st1, sv))):
          n = z3.simplify(self.list_len(st1, sv)).as_long()
          args = args + [self.list_get(st1, sv, z3.IntVal(i)) for i in range(n)]
        else:
          kwargs['*'] = sv
        extra = extra[1:]
      if dstar:
        kwargs['**'] = extra[0]
      for o in self.call(st1, cx, callee, args, kwargs, node):
        yield o

  # ------------------------------------------------------------------ dispatch
  def call(self, st, cx, callee, args, kwargs, node):
    if isinstance(callee, VBound):
      k = callee.kind
      if k == 'builtin':
        return self.call_builtin(st, cx, callee.name, args, kwargs, node)
      if k == 'method':
        return self.call_method(st, cx, callee.recv, callee.name, args, kwargs, node)
      if k == 'noop':
        return iter([(st, NONE_V)])
      if k == 'stream':
        return self.stream_method(st, cx, callee.recv, callee.name, args, node)
      if k == 'structm':
        if callee.name == 'pack':
          return self.struct_pack(st, cx, callee.recv.py, list(args), node)
        if callee.name == 'unpack':
          return self.struct_unpack(st, cx, callee.recv.py, args[0], node)
        raise Unsupported('Struct.%s' % callee.name)
      if k == 'dictlike':
        return self.dl_method(st, cx, callee.recv, callee.name, args, node)
      if k == 'pred':
        return iter([(st, self.call_pred(st, cx, callee.name, args, node))])
      if k == 'specbuiltin':
        return iter([(st, self.spec_fn(st, cx, callee.name, args, node))])
      if k == 'ghostprove':
        txt = ast.unparse(node.args[0]) if node is not None else '?'
        self.spec_depth += 1
        try:
          g = self.truth(st, self.ev1(node.args[0], st, cx))
        finally:
          self.spec_depth -= 1
        label = args[1].py if len(args) > 1 and getattr(args[1], 'py', None) else txt[:40]
        self.oblige(st, 'prove[%s:%s]@%s' % (cx.qual, label, getattr(node, 'lineno', '?')), g, node, 'at this point: %s' % txt)
        return iter([(st, NONE_V)])
      if k == 'ghostassume':
        st.assume(self.truth(st, args[0]))
        self.assumes.append('%s: assume(%s)' % (cx.qual, ast.unparse(node.args[0]) if node is not None else '?'))
        return iter([(st, NONE_V)])
      if k == 'extern':
        return self.call_extern(st, cx, callee.name, callee.recv, args, kwargs, node)
      if k == 'repo':
        a = list(args)
        if callee.recv is not None and callee.recv != 'unbound':
          a = [callee.recv] + a
        return self.call_repo(st, cx, callee.func, a, kwargs, node)
      raise Unsupported('call of %s' % k)
    if isinstance(callee, VFunc):
      return self.call_repo(st, cx, callee, list(args), kwargs, node)
    if isinstance(callee, VModule):
      short = callee.name.split('.')[-1]
      if short == 'crc32' and args and isinstance(args[0], V) and args[0].ty.k == 'bytes':
        # zlib.crc32 as an uninterpreted function of the (normalised) bytes; a running crc carries
        # the bytes it stands for, so crc32(b, crc32(a)) = crc32(a ++ b) holds by construction
        from .bytesalg import normalise
        atoms = list(args[0].py)
        if len(args) > 1:
          if not isinstance(args[1].py, list):
            raise Unsupported('crc32 continuation from an unknown crc value')
          atoms = list(args[1].py) + atoms
        parts = []
        for a in normalise(atoms):
          parts.extend([z3.IntVal({'u': 1, 'raw': 2, 'fix': 3}[a[0]])] + [x if not isinstance(x, int) else z3.IntVal(x) for x in a[1:]])
        f = z3.Function('crc32_%d' % len(parts), *([I] * (len(parts) + 1)))
        r = f(*parts) if parts else z3.IntVal(0)
        st.assume(z3.And(r >= 0, r < 4294967296))
        return iter([(st, V(INT, r, py=atoms))])
      if short == 'BytesIO' and not args:
        return iter([(st, self.new_buffer(st))])
      if short == 'BytesIO' and len(args) == 1 and isinstance(args[0], V) and args[0].ty.k == 'bytes':
        v = self.new_buffer(st, args[0].py)
        st.bufs[self.buf_key(v)]['reading'] = True
        return iter([(st, v)])
      if short == 'pack' and args:
        return self.struct_pack(st, cx, self.fmt_of(args[0]), list(args[1:]), node)
      if short == 'unpack' and len(args) == 2:
        return self.struct_unpack(st, cx, self.fmt_of(args[0]), args[1], node)
      if short == 'Struct' and len(args) == 1:
        from .bytesalg import FmtTemplate
        return iter([(st, V(Ty('structfmt'), py=self.fmt_of(args[0])))])
      if short == 'calcsize' and len(args) == 1:
        from .bytesalg import CODES
        n = 0
        for code, count in self.fmt_of(args[0]).fields():
          n += CODES[code][0] * count
        return iter([(st, mk_int(n))])
      ty = getattr(node, '_pyvc_type', None) if node is not None else None
      if short == 'deque' and not args and ty is not None and ty.k == 'deque':
        r = self.new_ref(st)
        dq = V(ty.with_opt(False), r)
        self.dq_set_bounds(st, dq, lo=z3.IntVal(0), hi=z3.IntVal(0))
        return iter([(st, dq)])
      return self.call_extern(st, cx, callee.name, None, args, kwargs, node)
    if isinstance(callee, VClass):
      return self.construct(st, cx, callee.name, args, kwargs, node)
    if isinstance(callee, V) and callee.ty.k == 'ref' and (callee.ty.name + '.__call__') in self.reg.externs:
      return self.call_extern(st, cx, callee.ty.name + '.__call__', callee, args, kwargs, node)
    if isinstance(callee, V) and callee.ty.k in ('fn', 'any'):
      cands = (getattr(cx.spec, 'dispatch', None) or {}).get(ast.unparse(node)) if cx.spec is not None and node is not None else None
      if cands:
        return self.call_dispatch(st, cx, callee, cands, args, kwargs, node)
      return self.call_opaque(st, cx, callee, args, kwargs, node)
    raise Unsupported('call of %r (line %s)' % (callee, getattr(node, 'lineno', '?')))

  def ev_first_match(self, node, st, cx):
    """next((elt for x in L if cond), default)  /  next((elt for i, x in enumerate(L) if cond), default):
    the element expression at the first position of L whose item satisfies cond, else the default."""
    ge = node.args[0]
    gen = ge.generators[0] if len(ge.generators) == 1 else None
    if gen is None or gen.is_async or len(gen.ifs) > 1:
      raise Unsupported('generator expression shape (line %d)' % node.lineno)
    it, tgt = gen.iter, gen.target
    ivar = xvar = None
    if (isinstance(it, ast.Call) and isinstance(it.func, ast.Name) and it.func.id == 'enumerate' and len(it.args) == 1
        and isinstance(tgt, ast.Tuple) and len(tgt.elts) == 2 and all(isinstance(e, ast.Name) for e in tgt.elts)):
      ivar, xvar, it = tgt.elts[0].id, tgt.elts[1].id, it.args[0]
    elif isinstance(tgt, ast.Name):
      xvar = tgt.id
    else:
      raise Unsupported('generator expression target (line %d)' % node.lineno)
    for st1, vals in self.ev_seq([it, node.args[1]], st, cx):
      if isinstance(vals, Exc):
        yield st1, vals
        continue
      src, dflt = vals
      if not (isinstance(src, V) and src.ty.k == 'list'):
        raise Unsupported('first-match over %r (line %d)' % (src, node.lineno))
      n = self.list_len(st1, src)
      j = z3.Int(fresh_name('fm'))
      fid = fresh_name('ge')
      fr = {xvar: self.list_get(st1, src, j)}
      if ivar:
        fr[ivar] = V(INT, j)
      st1.frames[fid] = fr
      ccx = Ctx(cx.mod, cx.cls, [fid] + list(cx.chain), cx.spec, cx.qual)
      self.spec_depth += 1      # element / filter expressions must be pure
      try:
        elt = self.ev1(ge.elt, st1, ccx)
        cond = self.truth(st1, self.ev1(gen.ifs[0], st1, ccx)) if gen.ifs else z3.BoolVal(True)
      finally:
        self.spec_depth -= 1
        st1.frames.pop(fid, None)
      if not isinstance(elt, V) or elt.ty.k == 'tuple' or elt.py is not None and elt.ty.k == 'bytes':
        raise Unsupported('first-match element (line %d)' % node.lineno)
      sub = lambda t, v: z3.substitute(t, (j, v))
      q = z3.Int(fresh_name('q'))
      # found at position i: cond holds there and nowhere before
      s_f = st1.fork()
      i = z3.Int(fresh_name('first'))
      s_f.assume(z3.And(0 <= i, i < n, sub(cond, i)))
      s_f.assume(z3.ForAll([q], z3.Implies(z3.And(0 <= q, q < i), z3.Not(sub(cond, q)))))
      if self.feasible(s_f):
        terms = [sub(t, i) for t in to_terms(elt, elt.ty)]
        yield s_f, from_terms(terms, elt.ty)
      s_n = st1.fork()
      s_n.assume(z3.ForAll([q], z3.Implies(z3.And(0 <= q, q < n), z3.Not(sub(cond, q)))))
      if self.feasible(s_n):
        yield s_n, dflt

  def call_dispatch(self, st, cx, callee, cands, args, kwargs, node):
    """A call through a stored callable that the sidecar says is one of the listed bound methods: the
    callee value must provably be one of them, and each is then called through its own contract."""
    targets = []
    for e in cands:
      self.spec_depth += 1
      try:
        tv = self.ev1(self.parse_spec(e), st, cx)
      finally:
        self.spec_depth -= 1
      if not isinstance(tv, VBound) or tv.term is None:
        raise Unsupported('dispatch candidate %s is not a bound repository method' % e)
      targets.append(tv)
    self.oblige(st, 'dispatch[%s]@%s' % (cx.qual, getattr(node, 'lineno', '?')), z3.Or(*[callee.t == t.term for t in targets]), node,
                'the called value is one of %s' % ', '.join(cands))
    for tv in targets:
      s2 = st.fork()
      s2.assume(callee.t == tv.term)
      if not self.feasible(s2):
        continue
      for o in self.call(s2, cx, tv, args, kwargs, node):
        yield o

  def call_opaque(self, st, cx, callee, args, kwargs, node):
    """Calling an opaque value: TypeError unless it stands for something callable."""
    ok = z3.Or(callee.t >= 5000000, z3.Function('is_callable', I, z3.BoolSort())(callee.t))
    for s2, e in self.oblige_or_raise(st, cx, ok, 'TypeError', node, 'object is not callable'):
      if isinstance(e, Exc):
        yield s2, e
      else:
        for o in self.call_extern(s2, cx, '<call>', callee, args, kwargs, node):
          yield o

  # ------------------------------------------------------------------ parameter binding
  def bind_params(self, st, cx, fn, args, kwargs, node):
    """dict name -> value for a FunctionDef call (defaults from the def)."""
    a = fn.node.args
    names = [x.arg for x in a.args]
    out = {}
    if len(args) > len(names) and not a.vararg:
      raise Unsupported('too many arguments for %s' % fn.qual)
    for n, v in zip(names, args):
      out[n] = v
    if a.vararg:
      rest = args[len(names):]
      out[a.vararg.arg] = V(Ty('tuple', [getattr(v, 'ty', FN) for v in rest]), items=list(rest))
    for k, v in kwargs.items():
      if k in ('*', '**'):
        raise Unsupported('star-args into %s' % fn.qual)
      if k not in names and not a.kwarg:
        raise Unsupported('unexpected keyword %s for %s' % (k, fn.qual))
      out[k] = v
    defaults = a.defaults
    for n, d in zip(names[len(names) - len(defaults):], defaults):
      if n not in out:
        out[n] = self.eval_const(d, fn.mod, n)
    for n in names:
      if n not in out:
        raise Unsupported('missing argument %s for %s (line %s)' % (n, fn.qual, getattr(node, 'lineno', '?')))
    return out

  # ------------------------------------------------------------------ repository functions
  def spec_for(self, fn, args):
    """Contract for a repo function: by owner-qualified name, or by the receiver's class."""
    u = self.reg.functions.get(self.unit)
    if u is not None and u.aspect:
      for a in [u.aspect] + list(self.reg.aspect_fallback.get(u.aspect, ())):
        if (fn.qual + '@' + a) in self.reg.functions:
          return self.reg.functions[fn.qual + '@' + a]     # callees are taken with the unit's own aspect (or one it builds on)
    if fn.qual in self.reg.functions:
      return self.reg.functions[fn.qual]
    return None

  def call_repo(self, st, cx, fn, args, kwargs, node):
    spec = self.spec_for(fn, args)
    if spec is not None and spec.pure:
      v = self.call_pure(st, cx, fn, args, kwargs)
      yield st, v
      return
    if spec is None and any((isinstance(d, ast.Name) and d.id in ('abstractmethod', 'abstractproperty')) or
                            (isinstance(d, ast.Attribute) and d.attr in ('abstractmethod', 'abstractproperty'))
                            for d in fn.node.decorator_list):
      raise Unsupported('call of abstract %s needs a (behavioural) contract' % fn.qual)
    if spec is None or spec.inline or self.force_inline(fn):
      for o in self.inline_call(st, cx, fn, args, kwargs, node):
        yield o
      return
    if self.spec_depth:
      raise Unsupported('call of non-pure %s inside a spec' % fn.qual)
    for o in self.contract_call(st, cx, fn, spec, args, kwargs, node):
      yield o

  def force_inline(self, fn):
    u = self.reg.functions.get(self.unit)
    return u is not None and fn.qual in u.inline_calls

  def inline_call(self, st, cx, fn, args, kwargs, node):
    if self.depth >= MAX_INLINE_DEPTH:
      raise Unsupported('inline depth exceeded at %s' % fn.qual)
    params = self.bind_params(st, cx, fn, args, kwargs, node)
    fid = fresh_name('fr')
    st.frames[fid] = params
    chain = [fid] + (list(fn.frame_id) if fn.frame_id else [])
    spec = self.reg.functions.get(fn.qual)
    cx2 = Ctx(fn.mod, fn.cls, chain, spec, fn.qual)
    self.inlined.add(fn.qual)
    self.depth += 1
    try:
      outs = list(self.exec_block(fn.node.body, st, cx2))
    finally:
      self.depth -= 1
    for s, out in outs:
      s.frames.pop(fid, None)
      kind, val = out
      if kind == 'ret':
        yield s, val
      elif kind == 'next':
        yield s, NONE_V
      elif kind == 'exc':
        yield s, val
      else:
        raise Unsupported('%s escaping function %s' % (kind, fn.qual))

  def closure_chain(self, fn):
    return list(self.frame_parents.get(fn.frame_id, []))

  def call_pure(self, st, cx, fn, args, kwargs):
    """Inline a side-effect-free function and merge its paths into one value."""
    s = st.fork()
    n0 = len(s.pc)
    self.pure_depth += 1
    try:
      outs = list(self.inline_call(s, cx, fn, args, kwargs, None))
    finally:
      self.pure_depth -= 1
    vals = []
    for s1, v in outs:
      if isinstance(v, Exc):
        raise Unsupported('pure function %s may raise %s' % (fn.qual, v.cls))
      for k in s1.heap:
        if k in st.heap and s1.heap[k] is not st.heap[k]:
          raise Unsupported('pure function %s modifies %s' % (fn.qual, k))
      extra = [e for e in s1.pc[n0:] if e.get_id() not in s1.wf_ids]
      for e in s1.pc[n0:]:
        if e.get_id() in s1.wf_ids:
          st.assume_wf(e)        # well-formedness facts hold on every path: not part of the branch condition
      vals.append((z3.And(*extra) if extra else z3.BoolVal(True), v, s1))
    if not vals:
      raise Unsupported('pure function %s has no feasible path' % fn.qual)
    for _, _, s1 in vals:
      for k, a in s1.heap.items():
        if k not in st.heap:
          st.heap[k] = a
          for lab in st.labels.values():
            lab.setdefault(k, a)
    res = vals[-1][1]
    for cond, v, _ in reversed(vals[:-1]):
      res = self.merge_vals(cond, v, res)
    return res

  # ------------------------------------------------------------------ modular (contract) call
  def spec_frame_ctx(self, st, spec, fn, params):
    fid = fresh_name('sp')
    st.frames[fid] = dict(params)
    mod = self.src.module(spec.file) if spec.file else (fn.mod if fn else None)
    cls = spec.cls or (fn.cls if fn else None)
    return fid, Ctx(mod, cls, [fid], spec, spec.name)

  def contract_call(self, st, cx, fn, spec, args, kwargs, node):
    params = self.bind_params(st, cx, fn, args, kwargs, node)
    for pn, pt in spec.params.items():
      if pn in params and isinstance(params[pn], V):
        params[pn] = self.cast_to(st, params[pn], pt)
    line = getattr(node, 'lineno', '?')
    self.contracts_used.add(spec.name)
    fid, scx = self.spec_frame_ctx(st, spec, fn, params)
    # preconditions (clauses over the unit's ghost captures are verification scaffolding of the
    # callee's own unit -- symbolic names for the content of its stream parameters -- not caller duties)
    capnames = set(spec.captures) if not isinstance(fn.frame_id, list) or True else set()
    def mentions_capture(text):
      return bool(capnames) and any(isinstance(n, ast.Name) and n.id in capnames for n in ast.walk(self.parse_spec(text)))
    for n, r in enumerate(spec.requires):
      if mentions_capture(r) and not fn.frame_id:
        continue
      g = self.spec_bool(st, scx, r)
      self.oblige(st, 'pre[%s#%d]@%s' % (spec.name, n, line), g, node, 'precondition %r of %s' % (r, spec.name))
    if spec.may_yield and not self.spec_depth:
      class _Y(object):
        name = spec.name
      # may_yield may be a condition (over the pre-state): the callee only blocks when it holds
      skip = False
      if isinstance(spec.may_yield, str):
        cond = self.spec_bool(st, scx, spec.may_yield)
        skip = self.entails(st, z3.Not(cond))
      if not skip:
        self.at_yield(st, cx, node, _Y)
    snap = dict(st.heap)
    snap['$alloc'] = st.alloc
    outs = []
    # exceptional exits
    for exc, d in spec.raises.items():
      s2 = st.fork()
      self._havoc_for_call(s2, spec)
      self.old_stack.append((snap, dict(params)))
      try:
        if d.get('when'):
          s2.assume(self.spec_bool(s2, scx, 'old(%s)' % d['when']))
        for e in d.get('ensures', ()):
          s2.assume(self.spec_bool(s2, scx, e))
      finally:
        self.old_stack.pop()
      s2.frames.pop(fid, None)
      if self.feasible(s2):
        s2.path.append('%s raises %s@%s' % (spec.name, exc, line))
        outs.append((s2, Exc(exc, node, 'raised by %s' % spec.name)))
    # normal exit
    self._havoc_for_call(st, spec)
    res = self.fresh_val(st, spec.returns, 'ret_' + spec.name.split('.')[-1]) if spec.returns is not None else NONE_V
    st.frames[fid]['result'] = res
    self.old_stack.append((snap, dict(params)))
    try:
      for e in spec.ensures:
        t = self.parse_spec(e)
        if mentions_capture(e) and not fn.frame_id:
          continue
        if (spec.returns is not None and spec.returns.k == 'bytes' and isinstance(t, ast.Call) and isinstance(t.func, ast.Name)
            and t.func.id == 'beq' and isinstance(t.args[0], ast.Name) and t.args[0].id == 'result'):
          # a byte-string result defined by its contract: take the defining expression as the value
          self.spec_depth += 1
          try:
            res = self.ev1(t.args[1], st, scx)
          finally:
            self.spec_depth -= 1
          st.frames[fid]['result'] = res
          continue
        st.assume(self.spec_bool(st, scx, e))
      if spec.conc:
        # the callee establishes the shared-state invariant at its exit and its guarantee over
        # every segment (guarantees are transitive and hold for interleaved operations too)
        c = self.reg.concurrency.get(spec.conc) or {}
        for e in list(c.get('invariant', ())) + list(c.get('guarantee', ())):
          st.assume(self.spec_bool(st, scx, e))
    finally:
      self.old_stack.pop()
    st.frames.pop(fid, None)
    outs.append((st, res))
    for o in outs:
      yield o

  def no_finals_between(self, st, lo, hi):
    """forall r in (lo, hi]: r is not an instance of a 'final' repository class."""
    finals = [self.class_id(c) for c, ci in self.reg.classes.items() if ci.final]
    if not finals:
      return z3.BoolVal(True)
    r = z3.Int(fresh_name('r'))
    cls_arr = self.arr(st, '$cls', [I, I])
    body = z3.Implies(z3.And(r > lo, r <= hi), z3.And(*[z3.Select(cls_arr, r) != f for f in finals]))
    if z3.is_const(cls_arr):
      return z3.ForAll([r], body, patterns=[z3.Select(cls_arr, r)])
    return z3.ForAll([r], body)

  def _havoc_for_call(self, st, spec):
    self.havoc_patterns(st, spec.modifies)
    if spec.allocates:
      a = z3.Int(fresh_name('alloc'))
      st.assume(a >= st.alloc)
      if spec.allocates != 'any':
        # allocates=True: nothing of a 'final' class is created (checked at the callee's exit);
        # allocates='any': the callee's ensures must describe what it creates
        st.assume(self.no_finals_between(st, st.alloc, a))
      else:
        st.maybe_final = True
      st.alloc = a

  # ------------------------------------------------------------------ externs
  def call_extern(self, st, cx, name, recv, args, kwargs, node):
    ex = self.reg.externs.get(name)
    line = getattr(node, 'lineno', '?')
    if ex is None:
      short = name.split('.')[-1]
      ex = self.reg.externs.get(short)
    if ex is None:
      raise Unsupported('no extern contract for %s (line %s)' % (name, line))
    if self.spec_depth and (ex.modifies or ex.may_raise or ex.yields):
      raise Unsupported('effectful extern %s in a spec' % name)
    self.externs_used.add(ex.name)
    params = {}
    if recv is not None:
      params['self'] = recv
    pnames = [p for p, _ in ex.params]
    if len(args) > len(pnames) and not ex.varargs:
      raise Unsupported('too many arguments for extern %s (line %s)' % (name, line))
    for (p, t), v in zip(ex.params, args):
      params[p] = v
    for k, v in kwargs.items():
      params[k] = v
    for p, t in ex.params:
      if p not in params:
        params[p] = NONE_V
    fid = fresh_name('ex')
    st.frames[fid] = params
    scx = Ctx(None, None, [fid], None, ex.name)
    # a pure extern defined by 'result == <expr>' is evaluated functionally (needed when the call
    # sits under a binder, e.g. in a comprehension filter)
    if not ex.modifies and not ex.may_raise and not ex.yields and not ex.requires and not ex.allocates \
        and len(ex.ensures) == 1 and ex.returns is not None:
      t = self.parse_spec(ex.ensures[0])
      if isinstance(t, ast.Compare) and len(t.ops) == 1 and isinstance(t.ops[0], ast.Eq) \
          and isinstance(t.left, ast.Name) and t.left.id == 'result':
        self.spec_depth += 1
        try:
          v = self.ev1(t.comparators[0], st, scx)
        finally:
          self.spec_depth -= 1
          st.frames.pop(fid, None)
        if isinstance(v, V):
          v = self.cast_to(st, v, ex.returns)
        yield st, v
        return
    for n, r in enumerate(ex.requires):
      g = self.spec_bool(st, scx, r)
      self.oblige(st, 'pre[%s#%d]@%s' % (ex.name, n, line), g, node, 'precondition %r of extern %s' % (r, ex.name))
    if ex.yields and not self.spec_depth:
      self.at_yield(st, cx, node, ex)
    snap = dict(st.heap)
    snap['$alloc'] = st.alloc
    outs = []
    for exc in ex.may_raise:
      s2 = st.fork()
      self.havoc_patterns(s2, ex.modifies)
      self.old_stack.append((snap, dict(params)))
      try:
        for e in ex.raise_ensures:
          s2.assume(self.spec_bool(s2, scx, e))
      finally:
        self.old_stack.pop()
      s2.frames.pop(fid, None)
      r = self.new_ref(s2, exc)
      s2.path.append('%s raises %s@%s' % (ex.name, exc, line))
      outs.append((s2, Exc(exc, node, 'raised by extern %s' % ex.name, value=V(Ty('ref', (), exc), r))))
    self.havoc_patterns(st, ex.modifies)
    if ex.allocates:
      a = z3.Int(fresh_name('alloc'))
      st.assume(a >= st.alloc)
      # objects an extern allocates internally are never instances of the repository's
      # 'final' classes (those are created only by repository code under contract)
      st.assume(self.no_finals_between(st, st.alloc, a))
      st.alloc = a
    if ex.returns is None:
      res = NONE_V
    elif ex.fresh:
      res = V(ex.returns.with_opt(False), self.new_ref(st, ex.returns.name if ex.returns.k == 'ref' else None))
    else:
      res = self.fresh_val(st, ex.returns, 'ext_' + ex.name.split('.')[-1])
    st.frames[fid]['result'] = res
    if isinstance(res, V) and res.ty.k != 'none':
      st.choices.append((ex.name, res))
      if cx.chain and cx.chain[0] in st.frames:
        st.frames[cx.chain[0]]['_last_result'] = res    # visible to ghost statements only
    for pname, bexpr in ex.writes.items():
      tgt = params.get(pname)
      self.spec_depth += 1
      try:
        bv = self.ev1(self.parse_spec(bexpr), st, scx)
      finally:
        self.spec_depth -= 1
      b = dict(self.buf_of(st, tgt))
      b['data'] = list(b['data']) + list(bv.py)
      st.bufs[self.buf_key(tgt)] = b
    self.old_stack.append((snap, dict(params)))
    try:
      for e in ex.ensures:
        st.assume(self.spec_bool(st, scx, e))
    finally:
      self.old_stack.pop()
    st.frames.pop(fid, None)
    outs.append((st, res))
    for o in outs:
      yield o

  def at_yield(self, st, cx, node, ex):
    """Hook: a cooperative scheduling point (overridden by the unit driver)."""
    raise Unsupported('yield point %s at line %s without a yields entry' % (ex.name, getattr(node, 'lineno', '?')))

  # ------------------------------------------------------------------ constructors
  def construct(self, st, cx, cname, args, kwargs, node):
    ctor = self.reg.externs.get(cname + '.__init__')
    if ctor is not None:
      for o in self.call_extern(st, cx, cname + '.__init__', None, args, kwargs, node):
        yield o
      return
    ci = self.class_info(cname)
    if ci.listlike and ci.extern:
      # namedtuple-like record: positional / keyword fields
      vals = list(args) + [kwargs[f] for f in ci.listlike[len(args):] if f in kwargs]
      yield st, self.make_record(st, Ty('ref', (), cname), vals, node)
      return
    member, mod, owner = self.find_member(cname, '__init__')
    r = self.new_ref(st, cname)
    obj = V(Ty('ref', (), cname), r)
    if member is None:
      yield st, obj
      return
    fn = VFunc(member, mod, owner, None, owner + '.__init__')
    for s, v in self.call_repo(st, cx, fn, [obj] + list(args), kwargs, node):
      yield s, (v if isinstance(v, Exc) else obj)

  # ------------------------------------------------------------------ spec evaluation
  def spec_bool(self, st, cx, text):
    """Evaluate a spec clause (string) to a z3 Bool in state st."""
    tree = self.parse_spec(text)
    self.spec_depth += 1
    try:
      v = self.ev1(tree, st, cx)
    except Unsupported as e:
      raise Unsupported('in spec clause %r: %s' % (text, e))
    finally:
      self.spec_depth -= 1
    return self.truth(st, v) if not isinstance(v, LSet) else z3.BoolVal(True)

  def spec_value(self, st, cx, text):
    tree = self.parse_spec(text)
    self.spec_depth += 1
    try:
      return self.ev1(tree, st, cx)
    finally:
      self.spec_depth -= 1

  _spec_cache = None
  def parse_spec(self, text):
    if self._spec_cache is None:
      self._spec_cache = {}
    t = self._spec_cache.get(text)
    if t is None:
      t = ast.parse(text.strip(), mode='eval').body
      self._spec_cache[text] = t
    return t

  def call_pred(self, st, cx, name, args, node):
    params, body = self.reg.predicates[name]
    if len(params) != len(args):
      raise Unsupported('predicate %s expects %d arguments' % (name, len(params)))
    fid = fresh_name('pr')
    st.frames[fid] = dict(zip(params, args))
    pcx = Ctx(None, cx.cls, [fid], cx.spec, name)
    try:
      v = self.ev1(self.parse_spec(body), st, pcx)
    finally:
      st.frames.pop(fid, None)
    return v

  def spec_binder(self, name, node, st, cx):
    a = node.args
    if name == 'old':
      if not self.old_stack:
        raise Unsupported('old() without a pre-state')
      snap, entry = self.old_stack[-1]
      s2 = st.fork()
      cur_heap = s2.heap
      s2.heap = dict((k, v) for k, v in snap.items() if k != '$alloc')
      s2.alloc = snap.get('$alloc', st.alloc)
      fid = fresh_name('old')
      s2.frames[fid] = dict(entry)
      cx2 = Ctx(cx.mod, cx.cls, [fid] + list(cx.chain), cx.spec, cx.qual)
      # nested old() refers to the same snapshot
      v = self.ev1(a[0], s2, cx2)
      # arrays first touched while evaluating in the old state exist unchanged now
      for k, arr in s2.heap.items():
        if k not in st.heap:
          st.heap[k] = arr
          for lab in st.labels.values():
            lab.setdefault(k, arr)
      return v
    if name == 'let':
      fid = fresh_name('let')
      val = self.ev1(a[1], st, cx)
      st.frames[fid] = {a[0].id: val}
      try:
        return self.ev1(a[2], st, Ctx(cx.mod, cx.cls, [fid] + list(cx.chain), cx.spec, cx.qual))
      finally:
        st.frames.pop(fid, None)
    is_all = name.startswith('forall')
    fid = fresh_name('q')
    trig_node = None
    multi = isinstance(a[0], ast.Tuple)
    if multi:
      xs = [z3.Int(fresh_name(e.id)) for e in a[0].elts]
      if name.endswith('_ref'):
        ty = Ty('ref', (), a[1].id)
        body_i, trig_i = 2, 3
      else:
        ty = INT            # forall((i, j), body[, triggers]) over integers
        body_i, trig_i = 1, 2
      st.frames[fid] = dict((e.id, V(ty, xv)) for e, xv in zip(a[0].elts, xs))
      pats = []
      try:
        qcx = Ctx(cx.mod, cx.cls, [fid] + list(cx.chain), cx.spec, cx.qual)
        body = self.ev1(a[body_i], st, qcx)
        if len(a) > trig_i:
          tn = a[trig_i].elts if isinstance(a[trig_i], ast.Tuple) else [a[trig_i]]
          pats = [self.ev1(t, st, qcx).t for t in tn]
      finally:
        st.frames.pop(fid, None)
      b = self.truth(st, body)
      kw = {}
      if pats and all(_pattern_ok(p) for p in pats):
        kw = {'patterns': [z3.MultiPattern(*pats)] if len(pats) > 1 else pats}
      return V(BOOL, z3.ForAll(xs, b, **kw) if is_all else z3.Exists(xs, b, **kw))
    var = a[0].id
    x = z3.Int(fresh_name(var))
    if name.endswith('_ref'):
      cname = a[1].id
      ty = Ty('ref', (), cname)
      st.frames[fid] = {var: V(ty, x)}
      body_node = a[2]
      guard = z3.BoolVal(True)     # all reference values, None (0) included
      if len(a) > 3:
        trig_node = a[3]
    elif len(a) >= 4:
      lo = self.ev1(a[1], st, cx)
      hi = self.ev1(a[2], st, cx)
      st.frames[fid] = {var: V(INT, x)}
      body_node = a[3]
      guard = z3.And(num_term(lo, False) <= x, x < num_term(hi, False))
      if len(a) > 4:
        trig_node = a[4]
    elif len(a) == 3 and isinstance(a[1], ast.Constant) and isinstance(a[1].value, str):
      ty = parse_type(a[1].value)
      x = z3.Const(fresh_name(var), base_sort(ty))
      st.frames[fid] = {var: V(ty, x)}
      body_node = a[2]
      guard = z3.BoolVal(True)
    else:
      st.frames[fid] = {var: V(INT, x)}
      body_node = a[1]
      guard = z3.BoolVal(True)
    pats = []
    try:
      qcx = Ctx(cx.mod, cx.cls, [fid] + list(cx.chain), cx.spec, cx.qual)
      body = self.ev1(body_node, st, qcx)
      if trig_node is not None:
        tn = trig_node.elts if isinstance(trig_node, ast.Tuple) else [trig_node]
        for t in tn:
          tv = self.ev1(t, st, qcx)
          pats.append(tv.t)
    finally:
      st.frames.pop(fid, None)
    b = self.truth(st, body)
    kw = {'patterns': pats} if pats and all(_pattern_ok(p) for p in pats) else {}
    if is_all:
      return V(BOOL, z3.ForAll([x], z3.Implies(guard, b), **kw))
    return V(BOOL, z3.Exists([x], z3.And(guard, b), **kw))

  def as_lset(self, st, v):
    if isinstance(v, LSet):
      return v
    if isinstance(v, V) and v.ty.k == 'set':
      return LSet(self.set_mem_arr(st, v), v.ty.args[0])
    if isinstance(v, V) and v.ty.k == 'dict':
      return LSet(self.dict_has_arr(st, v), v.ty.args[0])
    raise Unsupported('not a set: %r' % (v,))

  def spec_fn(self, st, cx, name, args, node):
    from .bytesalg import BYTE_SPEC_FNS
    if name in BYTE_SPEC_FNS:
      return self.bytes_spec_fn(st, cx, name, args, node)
    if name == 'implies':
      return V(BOOL, z3.Implies(self.truth(st, args[0]), self.truth(st, args[1])))
    if name == 'iff':
      return V(BOOL, self.truth(st, args[0]) == self.truth(st, args[1]))
    if name == 'ite':
      return self.merge_vals(self.truth(st, args[0]), args[1], args[2])
    if name == 'truthy':
      return V(BOOL, self.truth(st, args[0]))
    if name == 'is_none':
      return V(BOOL, self.is_none(args[0]))
    if name == 'caught':
      # caught("Cls"): inside an except handler, whether the exception being handled on this path is a Cls
      # (paths are split per raised class, so this is a constant of the path; False outside any handler)
      from .stmt import exc_is
      exc = None
      for fid in cx.chain:
        exc = st.frames.get(fid, {}).get('$exc')
        if exc is not None:
          break
      return V(BOOL, z3.BoolVal(exc is not None and exc_is(exc.cls, args[0].py)))
    if name == 'allocated':
      b = z3.And(args[0].t > 0, args[0].t <= st.alloc)
      ty = args[0].ty
      if ty.k == 'ref' and ty.name in self.reg.classes and self.reg.classes[ty.name].final:
        b = z3.And(b, self.dyn_class(st, args[0].t) == self.class_id(ty.name))
      return V(BOOL, b)
    if name == 'fresh':
      snap, _ = self.old_stack[-1]
      return V(BOOL, z3.And(args[0].t > snap.get('$alloc', st.alloc), args[0].t <= st.alloc))
    if name == 'dyn_is':
      return V(BOOL, self.isinstance_(st, args[0], args[1]))
    if name == 'tag_is':    # the dynamic class test on the object's class tag, whatever the static type says
      return V(BOOL, z3.And(args[0].t != 0, z3.Or(*[self.dyn_class(st, args[0].t) == self.class_id(c) for c in self.subclasses_of(args[1].name)])))
    if name == 'cast':      # cast(x, C): x read as a reference to a C (a specification-only view; guard it with dyn_is)
      return V(Ty('ref', (), args[1].name, True), args[0].t)
    if name in ('dq_lo', 'dq_hi'):
      lo, hi = self.dq_bounds(st, args[0])
      return V(INT, lo if name == 'dq_lo' else hi)
    if name == 'dq_at':     # element at an absolute position (stable under popleft/append)
      return self.dq_get(st, args[0], num_term(args[1], False))
    if name == 'setof':
      return self.as_lset(st, args[0])
    if name == 'card':
      return V(INT, self.container_len(st, args[0]))
    if name == 'floor_div':
      return V(INT, num_term(args[0], False) / num_term(args[1], False))
    if name in ('subset', 'set_eq', 'disjoint', 'set_minus', 'set_union'):
      a, b = self.as_lset(st, args[0]), self.as_lset(st, args[1])
      if name == 'subset':
        return V(BOOL, z3.IsSubset(a.arr, b.arr))
      if name == 'set_eq':
        return V(BOOL, a.arr == b.arr)
      if name == 'disjoint':
        return V(BOOL, z3.SetIntersect(a.arr, b.arr) == z3.EmptySet(base_sort(a.ety)))
      if name == 'set_minus':
        return LSet(z3.SetDifference(a.arr, b.arr), a.ety)
      return LSet(z3.SetUnion(a.arr, b.arr), a.ety)
    if name in ('set_add', 'set_del'):
      a = self.as_lset(st, args[0])
      return LSet(z3.Store(a.arr, coerce(args[1], a.ety), z3.BoolVal(name == 'set_add')), a.ety)
    if name == 'empty_set':
      ty = parse_type(args[0].py)
      return LSet(z3.EmptySet(base_sort(ty)), ty)
    if name == 'has_key':
      return V(BOOL, z3.Select(self.as_lset(st, args[0]).arr, coerce(args[1], self.as_lset(st, args[0]).ety)))
    if name == 'keys_eq':
      return V(BOOL, self.as_lset(st, args[0]).arr == self.as_lset(st, args[1]).arr)
    if name == 'unchanged':
      # unchanged('Class.field') : the whole heap component equals its old value
      snap, _ = self.old_stack[-1]
      parts = []
      for key, sorts in self.expand_pattern(args[0].py):
        cur = self.arr(st, key, sorts)
        old = snap.get(key)
        if old is None:
          # not touched before the snapshot was taken: it still had its entry-state value
          so = sorts[-1]
          for d in reversed(sorts[:-1]):
            so = z3.ArraySort(d, so)
          old = z3.Const('H_' + key.replace(' ', ''), so)
        parts.append(cur == old)
      return V(BOOL, z3.And(*parts) if parts else z3.BoolVal(True))
    raise Unsupported('spec builtin %s' % name)
