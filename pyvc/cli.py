"""Command line: python3-vt -m pyvc.cli check <property> [--tier quick|thorough] [--repo DIR]

Exit codes: 0 all obligations discharged (known findings listed), 1 violation,
2 undecided (unknown / timeout / unmodelled construct / source drift), 3 checker inconsistency.
"""
import argparse
import concurrent.futures as cf
import importlib
import json
import os
import re
import subprocess
import sys
import time
import traceback

DEFAULT_REPO = os.environ.get('VERIF_REPO', '/repo')
ROOT = os.path.dirname(os.path.dirname(os.path.abspath(__file__)))
if ROOT not in sys.path:
  sys.path.insert(0, ROOT)

import z3

from .registry import Registry
from .source import Sources
from .engine import Engine
from . import solve as solve_mod

VENV_PY = '/venv/bin/python'


def stable(name):
  """Obligation name without line numbers / occurrence counters (robust to harmless edits)."""
  return re.sub(r'~\d+$', '', re.sub(r'@\d+', '', name))


# ---------------------------------------------------------------------------- workers
_REG = None


def _registry():
  global _REG
  if _REG is None:
    _REG = Registry().load_package('specs')
  return _REG


def gen_unit(args):
  unit, repo = args[0], args[1]
  hints = args[2] if len(args) > 2 else None
  try:
    eng = Engine(_registry(), Sources(repo))
    if hints:
      eng.anchor_hints = {unit: hints}
    res = eng.verify_unit(unit)
    obs = []
    for ob in res.obligations:
      d = dict(unit=unit, name=ob.name, desc=ob.desc, line=ob.line, path=ob.path[-12:],
               status=ob.status, backend=ob.backend)
      if ob.status != 'proved':
        d['smt2'] = solve_mod.smt2_of(ob.hyps, ob.goal)
      obs.append(d)
    return dict(unit=unit, error=res.error, cover=res.cover, paths=res.paths, file=res.file,
                line=res.line, hash=res.source_hash, dropped=res.dropped, inlined=res.inlined,
                externs=res.externs, contracts=res.contracts, gen_time=res.gen_time, obligations=obs,
                feas_calls=eng.feas_calls, stmts=eng.stmts_seen, degraded=getattr(res, 'degraded', []), anchor_drift=getattr(res, 'anchor_drift', []),
                anchor_lines=getattr(res, 'anchor_lines', {}))
  except Exception as e:   # engine crash: undecided, never a violation
    return dict(unit=unit, error='engine crash: %s\n%s' % (e, traceback.format_exc()[-1500:]), obligations=[],
                cover=None, paths=0, file=None, line=None, hash=None, dropped=[], inlined=[], externs=[],
                contracts=[], gen_time=0.0, feas_calls=0, stmts=0, degraded=[], anchor_drift=[], anchor_lines={})


# z3 configurations tried in order (refutation portfolio).  The quick e-matching configurations get short fixed
# slots (they either succeed at once or not at all); the default configuration and cvc5 get the per-obligation budget,
# which is sized generously so that verdicts do not flip when all cores are busy.  'sat' is only accepted from the
# default configuration.
PORTFOLIO = [
  ('z3(ematch,eager)', {'smt.mbqi': False, 'smt.qi.eager_threshold': 50.0, 'smt.qi.lazy_threshold': 200.0}, 3000),
  ('z3(ematch)', {'smt.mbqi': False}, 4000),
  ('z3(ematch,seed1)', {'smt.mbqi': False, 'smt.random_seed': 1}, 5000),
  ('z3(ematch,arith6)', {'smt.mbqi': False, 'smt.arith.solver': 6}, 5000),
  ('z3(ematch,arith2)', {'smt.mbqi': False, 'smt.arith.solver': 2}, 4000),
  ('z3(ematch,seed2)', {'smt.mbqi': False, 'smt.random_seed': 2}, 5000),
  ('z3(ematch,seed3)', {'smt.mbqi': False, 'smt.random_seed': 3, 'smt.qi.eager_threshold': 100.0}, 4000),
  ('z3(ematch,seed7)', {'smt.mbqi': False, 'smt.random_seed': 7, 'smt.arith.solver': 2, 'smt.qi.eager_threshold': 20.0}, 6000),
  ('z3(ematch,seed11)', {'smt.mbqi': False, 'smt.random_seed': 11}, 8000),
  ('z3(ematch,seed13)', {'smt.mbqi': False, 'smt.random_seed': 13, 'smt.arith.solver': 6}, 8000),
  ('z3(ematch,seed17)', {'smt.mbqi': False, 'smt.random_seed': 17, 'smt.qi.eager_threshold': 30.0}, 8000),
  ('z3', {}, None),
]


def solve_text(args):
  text, timeout_ms, recheck = args
  t0 = time.time()
  out = None
  reason = ''
  try:
    for name, cfg, slot in PORTFOLIO:
      s = z3.Solver()
      s.set('timeout', int(slot if slot is not None else timeout_ms))
      for k, v in cfg.items():
        s.set(k, v)
      s.from_string(text)
      r = s.check()
      if r == z3.unsat:
        out = ['proved', name, '']
        break
      if r == z3.sat and not cfg:
        out = ['failed', 'z3', '']
        break
      reason = 'z3: %s' % s.reason_unknown()
    if out is None:
      c, why = solve_mod.run_cvc5(text, timeout_ms / 1000.0)
      if c == 'unsat':
        out = ['proved', 'cvc5', '']
      else:
        out = ['unknown', 'z3+cvc5', '%s; cvc5: %s %s' % (reason, c, why)]
    if recheck and out[0] == 'proved' and out[1] != 'cvc5':
      c, why = solve_mod.run_cvc5(text, timeout_ms / 1000.0)
      out[2] = 'cvc5 recheck: %s' % c
      if c == 'sat':
        out = ['unknown', 'z3/cvc5 disagree', out[2]]
  except Exception as e:
    out = ['unknown', 'solver crash', str(e)[:300]]
  return out + [time.time() - t0]


# ---------------------------------------------------------------------------- findings
def load_findings():
  p = os.path.join(ROOT, 'known_findings.json')
  if not os.path.exists(p):
    return []
  with open(p) as f:
    return json.load(f).get('findings', [])


# ---------------------------------------------------------------------------- witness / replay
def witness_and_replay(prop, unit, obname, repo, outdir):
  """Re-generate the unit in this process, get a (small) model for the failed obligation,
  dump it to a replay file and run the replay against the real code."""
  from .witness import extract_witness
  eng = Engine(_registry(), Sources(repo))
  hints = load_baseline(prop).get(unit, {}).get('anchors')
  if hints:
    eng.anchor_hints = {unit: hints}
  res = eng.verify_unit(unit)
  target = None
  for ob in res.obligations:
    if ob.name == obname:
      target = ob
  os.makedirs(outdir, exist_ok=True)
  fname = re.sub(r'[^A-Za-z0-9_.-]+', '_', '%s__%s' % (unit, obname))[:150] + '.json'
  path = os.path.join(outdir, fname)
  rec = dict(property=prop, unit=unit, obligation=obname, stable=stable(obname),
             description=target.desc if target is not None else '', file=res.file, line=res.line,
             source_hash=res.source_hash, repo=repo, path=target.path if target is not None else [])
  confirmed = False
  if target is not None:
    w, solver_out = extract_witness(eng, target)
    rec['witness'] = w
    rec['solver_output'] = solver_out
  with open(path, 'w') as f:
    json.dump(rec, f, indent=1, default=str)
  if target is not None:
    # replay functions that do not depend on the model's values (fixed input families) run even without a witness
    try:
      p = subprocess.run([VENV_PY, os.path.join(ROOT, 'pyvc', 'replay.py'), path],
                         stdout=subprocess.PIPE, stderr=subprocess.STDOUT, timeout=120,
                         env=dict(os.environ, PYTHONPATH=repo + os.pathsep + ROOT))
      out = p.stdout.decode(errors='replace')
      rec['replay_output'] = out[-4000:]
      confirmed = (p.returncode == 10)
      rec['replay_confirmed'] = confirmed
    except Exception as e:
      rec['replay_output'] = 'replay failed to run: %s' % e
    with open(path, 'w') as f:
      json.dump(rec, f, indent=1, default=str)
  return path, confirmed


def replay_only(prop, unit, repo, outdir, reason):
  """The unit's text changed into something the engine cannot put under its contract (no obligations to refute):
  the unit's replay scenarios are run on the real code as a stand-in.  Only a confirmed failure is reported."""
  os.makedirs(outdir, exist_ok=True)
  path = os.path.join(outdir, re.sub(r'[^A-Za-z0-9_.-]+', '_', '%s__%s' % (unit, 'bounded' if reason.startswith('bounded') else 'unverifiable'))[:150] + '.json')
  rec = dict(property=prop, unit=unit, obligation='contract of %s (not checkable on the changed text)' % unit, repo=repo,
             description='the changed function is outside the verified subset (%s); replay of its contract scenarios on the real code' % reason,
             witness=None, solver_output='no verification conditions could be generated: ' + reason)
  with open(path, 'w') as f:
    json.dump(rec, f, indent=1, default=str)
  confirmed = False
  try:
    p = subprocess.run([VENV_PY, os.path.join(ROOT, 'pyvc', 'replay.py'), path], stdout=subprocess.PIPE, stderr=subprocess.STDOUT, timeout=120,
                       env=dict(os.environ, PYTHONPATH=repo + os.pathsep + ROOT))
    rec['replay_output'] = p.stdout.decode(errors='replace')[-4000:]
    confirmed = (p.returncode == 10)
  except Exception as e:
    rec['replay_output'] = 'replay failed to run: %s' % e
  rec['replay_confirmed'] = confirmed
  with open(path, 'w') as f:
    json.dump(rec, f, indent=1, default=str)
  return path, confirmed


def _witness_task(args):
  prop, unit, obname, repo, outdir = args
  try:
    path, confirmed = witness_and_replay(prop, unit, obname, repo, outdir)
    return path, confirmed, ''
  except Exception as e:
    os.makedirs(outdir, exist_ok=True)
    path = os.path.join(outdir, re.sub(r'[^A-Za-z0-9_.-]+', '_', '%s__%s' % (unit, obname))[:150] + '.json')
    with open(path, 'w') as f:
      json.dump(dict(property=prop, unit=unit, obligation=obname, error=str(e),
                     traceback=traceback.format_exc()[-3000:]), f, indent=1)
    return path, False, str(e)


def load_baseline(prop):
  p = os.path.join(ROOT, 'baseline', prop + '.json')
  if not os.path.exists(p):
    return {}
  with open(p) as f:
    return json.load(f)


def write_baseline(prop, gens):
  os.makedirs(os.path.join(ROOT, 'baseline'), exist_ok=True)
  old = load_baseline(prop)
  out = {}
  for g in gens:
    was = old.get(g['unit'], {})
    out[g['unit']] = dict(hash=g['hash'], proved=sorted(set(stable(ob['name']) for ob in g['obligations'] if ob['status'] == 'proved')),
                          anchors=g.get('anchor_lines', {}),
                          cover=(g.get('cover') is True) or (was.get('hash') == g['hash'] and bool(was.get('cover'))))
  with open(os.path.join(ROOT, 'baseline', prop + '.json'), 'w') as f:
    json.dump(out, f, indent=1, sort_keys=True)


# ---------------------------------------------------------------------------- check
def run_check(prop, tier, repo, jobs, seed, record_baseline=False):
  t_start = time.time()
  reg = _registry()
  pmod = importlib.import_module('props.' + prop)
  units = sorted(set(getattr(pmod, 'UNITS', [])) | set(n for n, f in reg.functions.items() if prop in f.props))
  # an aspect unit assumes what its base unit proves: the base unit is always checked with it
  units = sorted(set(units) | set(reg.functions[u].base_name for u in units if u in reg.functions and reg.functions[u].base_name))
  trusted_units = [u for u in units if u in reg.functions and reg.functions[u].trusted]
  units = [u for u in units if u not in trusted_units]
  if not units:
    print('UNDECIDED property=%s no units' % prop)
    return 2
  timeout_ms = 40000 if tier == 'quick' else 120000
  recheck = (tier == 'thorough')
  with cf.ProcessPoolExecutor(max_workers=jobs) as pool:
    base0 = load_baseline(prop)
    gens = list(pool.map(gen_unit, [(u, repo, base0.get(u, {}).get('anchors')) for u in units]))
    todo = []
    for g in gens:
      for ob in g['obligations']:
        if ob['status'] != 'proved':
          todo.append(ob)
    results = list(pool.map(solve_text, [(ob.pop('smt2'), timeout_ms, recheck) for ob in todo]))
  for ob, r in zip(todo, results):
    ob['status'], ob['backend'], ob['reason'], ob['time'] = r
  if os.environ.get('PYVC_SLOW'):
    for ob in sorted(todo, key=lambda o: -o['time'])[:12]:
      print('SLOW %.1fs %s %s::%s' % (ob['time'], ob['backend'], ob['unit'], ob['name']))
  findings = load_findings()
  open_f = [f for f in findings if f.get('status') == 'open' and f.get('property') == prop]
  all_obs = [ob for g in gens for ob in g['obligations']]
  errors = [g for g in gens if g['error']]
  failed = [ob for ob in all_obs if ob['status'] == 'failed']
  unknown = [ob for ob in all_obs if ob['status'] == 'unknown']
  hash_of = dict((g['unit'], g['hash']) for g in gens)
  # units whose (changed) text the sidecar covers only in part: the uncovered parts were over-approximated or their
  # ghost blocks skipped, so only refutations that replay on the real code are believed; everything else is undecided
  degraded = dict((g['unit'], g['degraded']) for g in gens if g.get('degraded'))
  baseline = load_baseline(prop)
  known_hits = []
  suspects = []
  seen = set()
  for ob in failed + unknown:
    key = (ob['unit'], stable(ob['name']))
    hit = None
    for f in open_f:
      if f['unit'] == ob['unit'] and f['obligation'] == stable(ob['name']) and f.get('source_hash') == hash_of.get(ob['unit']):
        hit = f
    if hit is not None:
      known_hits.append((hit, ob))
      ob['known'] = True
    elif key not in seen:
      seen.add(key)
      suspects.append(ob)
  lines = []
  reported = set()
  for f, ob in known_hits:
    if id(f) not in reported:
      reported.add(id(f))
      lines.append('KNOWN-FINDING: property=%s %s' % (prop, f['what']))
  outdir = os.path.join(ROOT, 'replays', prop)
  vio_records = []
  undecided_obs = []
  if suspects:
    with cf.ProcessPoolExecutor(max_workers=min(jobs, len(suspects))) as pool:
      outs = list(pool.map(_witness_task, [(prop, ob['unit'], ob['name'], repo, outdir) for ob in suspects]))
    for ob, (path, confirmed, note) in zip(suspects, outs):
      b = baseline.get(ob['unit'], {})
      changed = b.get('hash') is not None and b.get('hash') != hash_of.get(ob['unit'])
      was_proved = stable(ob['name']) in b.get('proved', [])
      if confirmed:
        vio_records.append((ob, path, True))
        lines.append('VIOLATION property=%s replay=%s' % (prop, path))
      elif ob['unit'] in degraded:
        undecided_obs.append(ob)
        continue
      elif ob['status'] == 'failed' or (was_proved and changed):
        # the solver refuted the obligation (or it was discharged on the unchanged tree and the
        # function's text has changed since) but no input reproduces on the real code
        vio_records.append((ob, path, False))
        lines.append('VIOLATION property=%s replay=%s no-failing-input-found' % (prop, path))
      else:
        undecided_obs.append(ob)
        continue
      lines.append('  failed obligation %s::%s (%s)' % (ob['unit'], ob['name'], ob['desc']))
  # units that could not be put under contract at all (or only in part, with nothing refuted) although their text
  # changed since the recorded baseline: replay stand-in
  for g in gens:
    b = baseline.get(g['unit'], {})
    changed = b.get('hash') is not None and g.get('hash') is not None and b.get('hash') != g['hash']
    if changed and (g['error'] or g.get('degraded')) and not any(v[0]['unit'] == g['unit'] for v in vio_records):
      path, confirmed = replay_only(prop, g['unit'], repo, outdir, (g['error'] or '; '.join(g['degraded'])).split('\n')[0][:200])
      if confirmed:
        ob = dict(unit=g['unit'], name='contract-not-checkable', desc='changed text outside the verified subset; replay of the contract scenarios fails on the real code',
                  status='failed', backend='replay', line=g.get('line'), path=[])
        vio_records.append((ob, path, True))
        lines.append('VIOLATION property=%s replay=%s' % (prop, path))
        lines.append('  %s: %s' % (g['unit'], ob['desc']))
  # bounded stand-ins (props.BOUNDED): clauses whose code is outside the verified subset are exercised on the real code
  # over a stated finite family on every run.  They are never counted as proved; a failing one is a violation.
  bounded_results = []
  for b in getattr(pmod, 'BOUNDED', []):
    path, confirmed = replay_only(prop, b['replay_unit'], repo, outdir, 'bounded stand-in: ' + b['bound'])
    bounded_results.append(dict(name=b['name'], bound=b['bound'], held=not confirmed, replay=path))
    if confirmed:
      ob = dict(unit=b['replay_unit'], name='bounded:' + b['name'], desc='bounded stand-in fails on the real code (%s)' % b['bound'],
                status='failed', backend='bounded-replay', line=None, path=[])
      vio_records.append((ob, path, True))
      lines.append('VIOLATION property=%s replay=%s' % (prop, path))
      lines.append('  bounded stand-in %s (%s)' % (b['name'], b['bound']))
  # thorough tier: in addition to the longer solver budgets, every unit's replay scenarios are run on the real code
  # (a bounded regression of the contracts' concrete readings; a failing one is a violation)
  if tier == 'thorough':
    seen_replay = set(b['replay_unit'] for b in getattr(pmod, 'BOUNDED', []))
    for g in gens:
      if g['unit'] in seen_replay or any(v[0]['unit'] == g['unit'] for v in vio_records):
        continue
      path, confirmed = replay_only(prop, g['unit'], repo, outdir, 'bounded stand-in: thorough-tier replay of the unit scenarios')
      bounded_results.append(dict(name='replay:' + g['unit'], bound='scenario family of replays_src for this unit', held=not confirmed, replay=path))
      if confirmed:
        ob = dict(unit=g['unit'], name='thorough-replay', desc='the unit\'s replay scenarios fail on the real code', status='failed', backend='bounded-replay', line=g.get('line'), path=[])
        vio_records.append((ob, path, True))
        lines.append('VIOLATION property=%s replay=%s' % (prop, path))
        lines.append('  thorough-tier replay of %s' % g['unit'])
  violations = [v[0] for v in vio_records]
  unknown = undecided_obs
  for g in errors:
    lines.append('UNDECIDED property=%s unit=%s %s' % (prop, g['unit'], (g['error'] or '').split('\n')[0]))
  for u, why in sorted(degraded.items()):
    lines.append('UNDECIDED property=%s unit=%s sidecar does not cover the current text: %s' % (prop, u, '; '.join(why)[:300]))
  for ob in unknown:
    lines.append('UNDECIDED property=%s obligation=%s::%s %s' % (prop, ob['unit'], ob['name'], ob.get('reason', '')[:160]))
  n_ob = len(all_obs)
  n_dis = sum(1 for ob in all_obs if ob['status'] == 'proved')
  if n_ob == 0 and not errors:
    lines.append('UNDECIDED property=%s zero obligations generated' % prop)
  # vacuity guard: the obligation count must not collapse
  expected = getattr(pmod, 'MIN_OBLIGATIONS', 1)
  if n_ob < expected and not errors:
    lines.append('UNDECIDED property=%s only %d obligations generated (expected >= %d)' % (prop, n_ob, expected))
  # an inconclusive cover check (solver timeout under load) on text whose cover check succeeded when the baseline was
  # recorded is not news
  covers = [g for g in gens if g['cover'] is not True and not g['error']
            and not (baseline.get(g['unit'], {}).get('hash') == g['hash'] and baseline.get(g['unit'], {}).get('cover'))]
  for g in covers:
    lines.append('UNDECIDED property=%s unit=%s precondition cover check inconclusive' % (prop, g['unit']))
  if violations:
    code = 1
  elif errors or unknown or n_ob < expected or covers or degraded:
    code = 2
  else:
    code = 0
  wall = time.time() - t_start
  if record_baseline and code == 0:
    write_baseline(prop, gens)
  write_evidence(prop, tier, seed, pmod, gens, all_obs, n_ob, n_dis, known_hits, vio_records, errors, unknown, wall, repo, timeout_ms, trusted_units, bounded_results)
  for l in lines:
    print(l)
  print('%s property=%s tier=%s units=%d obligations=%d discharged=%d failed=%d unknown=%d errors=%d wall=%.1fs' % (
    {0: 'OK', 1: 'FAIL', 2: 'UNDECIDED'}[code], prop, tier, len(units), n_ob, n_dis, len(failed), len(unknown), len(errors), wall))
  return code


def write_evidence(prop, tier, seed, pmod, gens, all_obs, n_ob, n_dis, known_hits, vio_records, errors, unknown, wall, repo, timeout_ms, trusted_units=(), bounded_results=()):
  reg = _registry()
  backends = {}
  for ob in all_obs:
    backends[ob['backend'] or '?'] = backends.get(ob['backend'] or '?', 0) + 1
  samples = []
  for ob in all_obs:
    if ob['backend'] not in ('simplifier',) and len(samples) < 6:
      samples.append(dict(unit=ob['unit'], obligation=ob['name'], statement=ob['desc'], status=ob['status'],
                          backend=ob['backend'], line=ob['line'], path=ob['path']))
  externs = sorted(set(e for g in gens for e in g['externs']))
  dropped = sorted(set(e for g in gens for e in g['dropped']))
  inlined = sorted(set(e for g in gens for e in g['inlined']))
  trusted = ['pyvc engine (this directory) incl. its encoding of python semantics (DESIGN 2.4)',
             'z3 %s' % z3.get_version_string(), 'cvc5 (for z3 unknowns%s)' % (', and re-check of every obligation' if tier == 'thorough' else ''),
             "CPython 'ast' parser"]
  trusted += ['assumed extern contract: %s' % e for e in externs]
  trusted += ['assumed (unverified) contract of repository function: %s -- %s' % (u, reg.functions[u].notes) for u in trusted_units]
  trusted += list(getattr(pmod, 'TRUSTED', []))
  ev = dict(
    property_id=prop, tier=tier, seed=seed, level='proof', wall_s=round(wall, 2),
    violations=len(vio_records),
    coverage=dict(
      obligations=n_ob, discharged=n_dis,
      checker_cmd='python3-vt -m pyvc.cli check %s --tier %s' % (prop, tier),
      trusted_base=trusted,
      functions_under_contract=[dict(unit=g['unit'], file=g['file'], line=g['line'], source_hash=g['hash'],
                                     obligations=len(g['obligations']), paths=g['paths'],
                                     precondition_satisfiable=g['cover'], error=g['error'],
                                     contracts_used=g['contracts'], gen_time_s=round(g['gen_time'], 2))
                                for g in gens],
      backends=backends,
      solver_time_s=round(sum(ob.get('time', 0.0) or 0.0 for ob in all_obs), 2),
      per_obligation_timeout_ms=timeout_ms,
      undischarged=[dict(unit=ob['unit'], obligation=ob['name'], status=ob['status'], reason=ob.get('reason', ''))
                    for ob in all_obs if ob['status'] != 'proved'],
      known_findings=[dict(obligation=ob['unit'] + '::' + ob['name'], what=f['what']) for f, ob in known_hits],
      violation_replays=[dict(obligation=ob['unit'] + '::' + ob['name'], replay=p, confirmed_on_real_code=c) for ob, p, c in vio_records],
      dropped_by_extraction=dropped, inlined_from_source=inlined,
      bounded=list(bounded_results),
      samples=samples,
      repo=repo,
    ),
    assumptions=list(getattr(pmod, 'ASSUMPTIONS', [])),
  )
  # a proof-level claim needs discharged == obligations; if not, say what this run is worth
  # evidence/ describes the tree the registered commands check (/repo); runs against a scratch copy (--repo DIR,
  # used for seeded changes) keep theirs apart
  evdir = os.path.join(ROOT, 'evidence') if os.path.realpath(repo) == os.path.realpath(DEFAULT_REPO) else os.path.join(ROOT, 'replays', 'scratch-evidence')
  os.makedirs(evdir, exist_ok=True)
  with open(os.path.join(evdir, prop + '.json'), 'w') as f:
    json.dump(ev, f, indent=1, default=str)


def selfcheck():
  import cvc5  # noqa
  reg = _registry()
  print('pyvc selfcheck: z3 %s, cvc5 module ok, %d classes, %d functions, %d externs' % (
    z3.get_version_string(), len(reg.classes), len(reg.functions), len(reg.externs)))
  x = z3.Int('x')
  s = z3.Solver()
  s.add(x > 0, x < 0)
  assert s.check() == z3.unsat
  c, why = solve_mod.run_cvc5('(declare-const x Int)(assert (and (> x 0) (< x 0)))(check-sat)', 5)
  assert c == 'unsat', (c, why)
  return 0


def main(argv=None):
  ap = argparse.ArgumentParser()
  sub = ap.add_subparsers(dest='cmd')
  c = sub.add_parser('check')
  c.add_argument('prop')
  c.add_argument('--tier', default=os.environ.get('VERIF_TIER', 'quick'))
  c.add_argument('--repo', default=os.environ.get('VERIF_REPO', '/repo'))
  c.add_argument('--jobs', type=int, default=int(os.environ.get('VERIF_JOBS', '16')))
  c.add_argument('--record-baseline', action='store_true',
                 help='on a passing run, record which obligations are discharged (and the source hashes)')
  sub.add_parser('selfcheck')
  a = ap.parse_args(argv)
  os.chdir(ROOT)
  if a.cmd == 'selfcheck':
    return selfcheck()
  if a.cmd == 'check':
    seed = int(os.environ.get('VERIF_SEED', '0') or 0)
    tier = a.tier if a.tier in ('quick', 'thorough') else 'quick'
    try:
      return run_check(a.prop, tier, a.repo, a.jobs, seed, a.record_baseline)
    except Exception:
      traceback.print_exc()
      print('UNDECIDED property=%s checker crashed' % a.prop)
      return 3
  ap.print_help()
  return 2


if __name__ == '__main__':
  sys.exit(main())
