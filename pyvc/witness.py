"""Turn a counter-model of a failed obligation into a JSON witness of the entry state."""
import z3

from .state import V, VFunc, VBound, VClass, VModule
from .types import flatten, base_sort

I = z3.IntSort()
MAX_ITEMS = 16


def _py(model, t):
  v = model.eval(t, model_completion=True)
  if z3.is_int_value(v):
    return v.as_long()
  if z3.is_rational_value(v):
    n, d = v.numerator_as_long(), v.denominator_as_long()
    return n if d == 1 else {'num': n, 'den': d, 'float': n / float(d)}
  if z3.is_true(v):
    return True
  if z3.is_false(v):
    return False
  if z3.is_algebraic_value(v):
    return {'approx': v.approx(10).as_decimal(10)}
  return str(v)


class Dumper(object):
  def __init__(self, eng, model):
    self.eng = eng
    self.m = model
    self.entry = eng.old_stack[0][0] if eng.old_stack else {}
    self.objects = {}

  def arr(self, key, sorts):
    a = self.entry.get(key)
    if a is None:
      return None
    return a

  def dump(self, v, depth=0):
    if isinstance(v, (VFunc, VBound, VClass, VModule)):
      return '<callable>'
    ty = v.ty
    if ty.k == 'none':
      return None
    if ty.k == 'tuple':
      if v.none is not None and _py(self.m, v.none) is True:
        return None
      return [self.dump(i, depth) for i in v.items]
    if ty.k in ('int', 'real', 'bool'):
      if v.none is not None and _py(self.m, v.none) is True:
        return None
      return _py(self.m, v.t)
    if ty.k == 'str':
      n = _py(self.m, v.t)
      s = self.eng.strs.rev.get(n)
      return {'str_id': n, 'literal': s if isinstance(s, str) else (repr(s) if s is not None else None),
              'len': _py(self.m, self.eng.strlen(v.t))}
    if ty.k in ('any', 'fn'):
      return {'opaque': _py(self.m, v.t)}
    r = _py(self.m, v.t)
    if r == 0:
      return None
    if ty.k == 'ref':
      return self.dump_obj(r, ty.name, depth)
    if ty.k == 'list':
      return self.dump_list(r, ty, depth)
    if ty.k == 'deque':
      return self.dump_deque(r, ty, depth)
    if ty.k == 'set':
      return self.dump_set(r, ty)
    if ty.k == 'dict':
      return self.dump_dict(r, ty, depth)
    return {'ref': r}

  def dump_obj(self, r, cls, depth):
    key = 'obj%d' % r
    if key in self.objects or depth > 4:
      return {'ref': key}
    out = {'class': cls}
    self.objects[key] = out
    eng = self.eng
    for c in eng.mro(cls):
      ci = eng.class_info(c)
      for fname, fty in ci.fields.items():
        terms = []
        missing = False
        for suf, so in flatten(fty):
          a = self.entry.get(eng.fkey(c, fname) + suf)
          if a is None:
            missing = True
            break
          terms.append(z3.Select(a, z3.IntVal(r)))
        if missing:
          continue
        from .state import from_terms
        out[fname] = self.dump(from_terms(terms, fty), depth + 1)
    return {'ref': key}

  def _items(self, ty, r, positions, depth, comp='items'):
    eng = self.eng
    ety = ty.args[0]
    out = []
    from .state import from_terms
    for p in positions:
      terms = []
      for suf, so in flatten(ety):
        a = self.entry.get(eng.ckey(ty, comp) + suf)
        if a is None:
          terms = None
          break
        terms.append(z3.Select(z3.Select(a, z3.IntVal(r)), z3.IntVal(p)))
      out.append(self.dump(from_terms(terms, ety), depth + 1) if terms is not None else '?')
    return out

  def dump_list(self, r, ty, depth):
    a = self.entry.get(self.eng.ckey(ty, 'len'))
    n = _py(self.m, z3.Select(a, z3.IntVal(r))) if a is not None else 0
    shown = max(0, min(n, MAX_ITEMS))
    return {'list': 'obj%d' % r, 'len': n, 'items': self._items(ty, r, range(shown), depth)}

  def dump_deque(self, r, ty, depth):
    lo_a = self.entry.get(self.eng.ckey(ty, 'lo'))
    hi_a = self.entry.get(self.eng.ckey(ty, 'hi'))
    lo = _py(self.m, z3.Select(lo_a, z3.IntVal(r))) if lo_a is not None else 0
    hi = _py(self.m, z3.Select(hi_a, z3.IntVal(r))) if hi_a is not None else 0
    n = max(0, min(hi - lo, MAX_ITEMS))
    return {'deque': 'obj%d' % r, 'len': hi - lo, 'items': self._items(ty, r, range(lo, lo + n), depth)}

  def dump_set(self, r, ty):
    a = self.entry.get(self.eng.ckey(ty, 'mem'))
    c = self.entry.get(self.eng.ckey(ty, 'card'))
    out = {'set': 'obj%d' % r, 'card': _py(self.m, z3.Select(c, z3.IntVal(r))) if c is not None else '?'}
    if a is not None:
      out['mem'] = str(self.m.eval(z3.Select(a, z3.IntVal(r)), model_completion=True))[:400]
      if ty.args[0].k == 'int':
        out['members'] = [v for v in self.candidates() if _py(self.m, z3.Select(z3.Select(a, z3.IntVal(r)), z3.IntVal(v))) is True]
    return out

  def candidates(self):
    c = set(range(-2, 41))
    for name, v in (self.eng.entry_params or {}).items():
      if isinstance(v, V) and v.ty.k == 'int' and v.t is not None:
        x = _py(self.m, v.t)
        if isinstance(x, int):
          c.update([x - 1, x, x + 1])
    return sorted(c)

  def dump_dict(self, r, ty, depth):
    a = self.entry.get(self.eng.ckey(ty, 'has'))
    c = self.entry.get(self.eng.ckey(ty, 'card'))
    out = {'dict': 'obj%d' % r, 'card': _py(self.m, z3.Select(c, z3.IntVal(r))) if c is not None else '?'}
    if a is not None:
      out['has'] = str(self.m.eval(z3.Select(a, z3.IntVal(r)), model_completion=True))[:400]
      if ty.args[0].k == 'int':
        out['keys'] = [v for v in self.candidates() if _py(self.m, z3.Select(z3.Select(a, z3.IntVal(r)), z3.IntVal(v))) is True]
    return out


def _inst_vals(B):
  return [z3.IntVal(v) for v in range(-1, B + 1)]


def bounded_instances(e, B, positive=True, depth=0):
  """Finite instantiation of universally quantified Int variables over [-1, B] (for
  counter-model *search* only: the result is weaker than e, so a model must be validated
  by replaying it on the real code)."""
  if depth > 6:
    return e if positive else z3.Not(e)
  if z3.is_quantifier(e):
    univ = e.is_forall()
    if (univ and positive) or ((not univ) and (not positive)):
      n = e.num_vars()
      if all(e.var_sort(i) == I for i in range(n)) and n <= 2:
        import itertools
        outs = []
        for combo in itertools.product(_inst_vals(B), repeat=n):
          # de Bruijn: var 0 is the innermost/last declared
          body = z3.substitute_vars(e.body(), *reversed(combo))
          outs.append(bounded_instances(body, B, positive, depth + 1))
        return z3.And(*outs) if positive else z3.And(*outs)
    return e if positive else z3.Not(e)
  if z3.is_and(e):
    parts = [bounded_instances(c, B, positive, depth) for c in e.children()]
    return z3.And(*parts) if positive else z3.Or(*parts)
  if z3.is_or(e):
    parts = [bounded_instances(c, B, positive, depth) for c in e.children()]
    return z3.Or(*parts) if positive else z3.And(*parts)
  if z3.is_implies(e):
    a, b = e.children()
    if positive:
      return z3.Or(bounded_instances(a, B, False, depth), bounded_instances(b, B, True, depth))
    return z3.And(bounded_instances(a, B, True, depth), bounded_instances(b, B, False, depth))
  if z3.is_not(e):
    return bounded_instances(e.children()[0], B, not positive, depth)
  return e if positive else z3.Not(e)


def _collect_arrays(ob):
  seen_arrays = {}
  seen = set()
  def collect(e):
    stack = [e]
    while stack:
      x = stack.pop()
      if x.get_id() in seen:
        continue
      seen.add(x.get_id())
      if z3.is_const(x) and z3.is_array(x) and x.decl().name().startswith('H_'):
        seen_arrays[x.decl().name()] = x
      if z3.is_quantifier(x):
        stack.append(x.body())
      else:
        stack.extend(x.children())
  for h in ob.hyps:
    collect(h)
  collect(ob.goal)
  return seen_arrays


def canonical_shape(eng, entry, max_len):
  """Symmetry breaking for counter-model search: the receiver gets id 1, its container
  fields and their reference items get consecutive ids (no aliasing among them).  Models with
  aliasing are excluded, so this is tried first and dropped if unsatisfiable."""
  cons = []
  nid = [0]
  def fresh():
    nid[0] += 1
    return nid[0]
  params = eng.entry_params or {}
  root = params.get('self')
  if root is None or not isinstance(root, V) or root.ty.k != 'ref':
    for nm, v in params.items():
      if isinstance(v, V) and v.ty.k in ('list', 'deque'):
        root = v
        break
  if root is None or not isinstance(root, V):
    return cons, 4
  rid = fresh()
  cons.append(root.t == rid)
  def expand_container(ty, cid):
    if ty.k not in ('list', 'deque'):
      return
    ety = ty.args[0]
    ln = entry.get(eng.ckey(ty, 'len'))
    if ln is not None:
      cons.append(z3.Select(ln, z3.IntVal(cid)) <= max_len)
    if ety.k == 'ref' and not ety.opt:
      a = entry.get(eng.ckey(ty, 'items'))
      if a is not None:
        for k in range(0, max_len + 1):
          cons.append(z3.Select(z3.Select(a, z3.IntVal(cid)), z3.IntVal(k)) == fresh())
  if root.ty.k == 'ref':
    for c in eng.mro(root.ty.name):
      ci = eng.class_info(c)
      for fname, fty in sorted(ci.fields.items()):
        if fty.k in ('list', 'deque', 'set', 'dict') and not fty.opt:
          a = entry.get(eng.fkey(c, fname))
          if a is None:
            continue
          cid = fresh()
          cons.append(z3.Select(a, z3.IntVal(rid)) == cid)
          expand_container(fty, cid)
  else:
    expand_container(root.ty, rid)
  return cons, nid[0]


def find_model(eng, ob, max_len=7):
  """-> (model or None, text).  Exact query first; then finite instantiation of the
  quantifiers, with and without canonical naming of the receiver's containers."""
  text = ''
  entry = eng.old_stack[0][0] if eng.old_stack else {}
  s = z3.Solver()
  s.set('timeout', 10000)
  s.add(*ob.hyps)
  s.add(z3.Not(ob.goal))
  r = s.check()
  text += 'exact query: %s\n' % r
  if r == z3.sat:
    return s.model(), text + 'model is exact (satisfies every quantified hypothesis)\n'
  arrays = _collect_arrays(ob)
  for canonical in (True, False):
    shape, nids = canonical_shape(eng, entry, max_len) if canonical else ([], 6)
    B = max(nids + 3, max_len + 1)
    small = list(shape)
    if '$alloc' in entry:
      small.append(entry['$alloc'] <= B - 1)
      small.append(entry['$alloc'] >= nids)
    for key, a in entry.items():
      if key.endswith('.len'):
        for v in range(0, B + 1):
          small.append(z3.Select(a, z3.IntVal(v)) <= max_len)
    for nm, a in arrays.items():
      key = nm[2:].split('!')[0]
      if canonical or not eng.key_holds_refs(key):
        continue
      so = a.sort()
      if so.range() == I:
        for v in range(0, B + 1):
          small.append(z3.And(z3.Select(a, z3.IntVal(v)) >= 0, z3.Select(a, z3.IntVal(v)) <= B))
      elif so.range().kind() == z3.Z3_ARRAY_SORT and so.range().range() == I and so.range().domain() == I:
        for v in range(0, B + 1):
          for k in range(0, max_len + 1):
            t = z3.Select(z3.Select(a, z3.IntVal(v)), z3.IntVal(k))
            small.append(z3.And(t >= 0, t <= B))
    for nm, v in (eng.entry_params or {}).items():
      if isinstance(v, V) and v.ty.is_reflike and v.ty.k not in ('str', 'any', 'fn') and v.t is not None:
        small.append(z3.And(v.t >= 0, v.t <= B))
    s2 = z3.Solver()
    s2.set('timeout', 30000 if canonical else 60000)
    for h in ob.hyps:
      s2.add(bounded_instances(h, B, True))
    s2.add(bounded_instances(ob.goal, B, False))
    s2.add(*small)
    r = s2.check()
    text += 'finite instantiation over [-1,%d], list lengths <= %d, %s: %s\n' % (
      B, max_len, 'canonical naming' if canonical else 'free naming', r)
    if r == z3.sat:
      return s2.model(), text + 'candidate model (quantifiers instantiated on a finite range: must be confirmed by replay)\n'
  return None, text


def extract_witness(eng, ob, extra_terms=None):
  """-> (witness dict or None, solver output text)."""
  model, text = find_model(eng, ob)
  if model is None:
    return None, text
  d = Dumper(eng, model)
  params = {}
  for name, v in (eng.entry_params or {}).items():
    try:
      params[name] = d.dump(v)
    except Exception as e:
      params[name] = 'dump failed: %s' % e
  w = {'params': params, 'objects': d.objects, 'captures': dict((k, v) for k, v in params.items() if k.startswith('g_'))}
  ch = []
  for nm, v in getattr(ob, 'choices', []) or []:
    try:
      ch.append({'extern': nm, 'value': d.dump(v)})
    except Exception as e:
      ch.append({'extern': nm, 'value': 'dump failed: %s' % e})
  w['choices'] = ch
  text += 'model:\n' + str(model)[:6000]
  return w, text
