"""Turn a counter-model of a failed obligation into a JSON witness of the entry state."""
import z3

from .state import V, VFunc, VBound, VClass, VModule
from .types import flatten, base_sort

I = z3.IntSort()
MAX_ITEMS = 16


def _py(model, t):
  v = model.eval(t, model_completion=True)
  if z3.is_int_value(v):
    return v.as_long()
  if z3.is_rational_value(v):
    n, d = v.numerator_as_long(), v.denominator_as_long()
    return n if d == 1 else {'num': n, 'den': d, 'float': n / float(d)}
  if z3.is_true(v):
    return True
  if z3.is_false(v):
    return False
  if z3.is_algebraic_value(v):
    return {'approx': v.approx(10).as_decimal(10)}
  return str(v)


class Dumper(object):
  def __init__(self, eng, model):
    self.eng = eng
    self.m = model
    self.entry = eng.old_stack[0][0] if eng.old_stack else {}
    self.objects = {}

  def arr(self, key, sorts):
    a = self.entry.get(key)
    if a is None:
      return None
    return a

  def dump(self, v, depth=0):
    if isinstance(v, (VFunc, VBound, VClass, VModule)):
      return '<callable>'
    ty = v.ty
    if ty.k == 'none':
      return None
    if ty.k == 'tuple':
      if v.none is not None and _py(self.m, v.none) is True:
        return None
      return [self.dump(i, depth) for i in v.items]
    if ty.k in ('int', 'real', 'bool'):
      if v.none is not None and _py(self.m, v.none) is True:
        return None
      return _py(self.m, v.t)
    if ty.k == 'str':
      n = _py(self.m, v.t)
      s = self.eng.strs.rev.get(n)
      return {'str_id': n, 'literal': s if isinstance(s, str) else (repr(s) if s is not None else None),
              'len': _py(self.m, self.eng.strlen(v.t))}
    if ty.k in ('any', 'fn'):
      return {'opaque': _py(self.m, v.t)}
    r = _py(self.m, v.t)
    if r == 0:
      return None
    if ty.k == 'ref':
      return self.dump_obj(r, ty.name, depth)
    if ty.k == 'list':
      return self.dump_list(r, ty, depth)
    if ty.k == 'deque':
      return self.dump_deque(r, ty, depth)
    if ty.k == 'set':
      return self.dump_set(r, ty)
    if ty.k == 'dict':
      return self.dump_dict(r, ty, depth)
    return {'ref': r}

  def dump_obj(self, r, cls, depth):
    key = 'obj%d' % r
    if key in self.objects or depth > 4:
      return {'ref': key}
    out = {'class': cls}
    self.objects[key] = out
    eng = self.eng
    for c in eng.mro(cls):
      ci = eng.class_info(c)
      for fname, fty in ci.fields.items():
        terms = []
        missing = False
        for suf, so in flatten(fty):
          a = self.entry.get(eng.fkey(c, fname) + suf)
          if a is None:
            missing = True
            break
          terms.append(z3.Select(a, z3.IntVal(r)))
        if missing:
          continue
        from .state import from_terms
        out[fname] = self.dump(from_terms(terms, fty), depth + 1)
    return {'ref': key}

  def _items(self, ty, r, positions, depth, comp='items'):
    eng = self.eng
    ety = ty.args[0]
    out = []
    from .state import from_terms
    for p in positions:
      terms = []
      for suf, so in flatten(ety):
        a = self.entry.get(eng.ckey(ty, comp) + suf)
        if a is None:
          terms = None
          break
        terms.append(z3.Select(z3.Select(a, z3.IntVal(r)), z3.IntVal(p)))
      out.append(self.dump(from_terms(terms, ety), depth + 1) if terms is not None else '?')
    return out

  def dump_list(self, r, ty, depth):
    a = self.entry.get(self.eng.ckey(ty, 'len'))
    n = _py(self.m, z3.Select(a, z3.IntVal(r))) if a is not None else 0
    shown = max(0, min(n, MAX_ITEMS))
    return {'list': 'obj%d' % r, 'len': n, 'items': self._items(ty, r, range(shown), depth)}

  def dump_deque(self, r, ty, depth):
    lo_a = self.entry.get(self.eng.ckey(ty, 'lo'))
    hi_a = self.entry.get(self.eng.ckey(ty, 'hi'))
    lo = _py(self.m, z3.Select(lo_a, z3.IntVal(r))) if lo_a is not None else 0
    hi = _py(self.m, z3.Select(hi_a, z3.IntVal(r))) if hi_a is not None else 0
    n = max(0, min(hi - lo, MAX_ITEMS))
    return {'deque': 'obj%d' % r, 'len': hi - lo, 'items': self._items(ty, r, range(lo, lo + n), depth)}

  def dump_set(self, r, ty):
    a = self.entry.get(self.eng.ckey(ty, 'mem'))
    c = self.entry.get(self.eng.ckey(ty, 'card'))
    out = {'set': 'obj%d' % r, 'card': _py(self.m, z3.Select(c, z3.IntVal(r))) if c is not None else '?'}
    if a is not None:
      out['mem'] = str(self.m.eval(z3.Select(a, z3.IntVal(r)), model_completion=True))[:400]
    return out

  def dump_dict(self, r, ty, depth):
    a = self.entry.get(self.eng.ckey(ty, 'has'))
    c = self.entry.get(self.eng.ckey(ty, 'card'))
    out = {'dict': 'obj%d' % r, 'card': _py(self.m, z3.Select(c, z3.IntVal(r))) if c is not None else '?'}
    if a is not None:
      out['has'] = str(self.m.eval(z3.Select(a, z3.IntVal(r)), model_completion=True))[:400]
    return out


def _inst_vals(B):
  return [z3.IntVal(v) for v in range(-1, B + 1)]


def bounded_instances(e, B, positive=True, depth=0):
  """Finite instantiation of universally quantified Int variables over [-1, B] (for
  counter-model *search* only: the result is weaker than e, so a model must be validated
  by replaying it on the real code)."""
  if depth > 6:
    return e if positive else z3.Not(e)
  if z3.is_quantifier(e):
    univ = e.is_forall()
    if (univ and positive) or ((not univ) and (not positive)):
      n = e.num_vars()
      if all(e.var_sort(i) == I for i in range(n)) and n <= 2:
        import itertools
        outs = []
        for combo in itertools.product(_inst_vals(B), repeat=n):
          # de Bruijn: var 0 is the innermost/last declared
          body = z3.substitute_vars(e.body(), *reversed(combo))
          outs.append(bounded_instances(body, B, positive, depth + 1))
        return z3.And(*outs) if positive else z3.And(*outs)
    return e if positive else z3.Not(e)
  if z3.is_and(e):
    parts = [bounded_instances(c, B, positive, depth) for c in e.children()]
    return z3.And(*parts) if positive else z3.Or(*parts)
  if z3.is_or(e):
    parts = [bounded_instances(c, B, positive, depth) for c in e.children()]
    return z3.Or(*parts) if positive else z3.And(*parts)
  if z3.is_implies(e):
    a, b = e.children()
    if positive:
      return z3.Or(bounded_instances(a, B, False, depth), bounded_instances(b, B, True, depth))
    return z3.And(bounded_instances(a, B, True, depth), bounded_instances(b, B, False, depth))
  if z3.is_not(e):
    return bounded_instances(e.children()[0], B, not positive, depth)
  return e if positive else z3.Not(e)


def find_model(eng, ob, B=9, max_len=6):
  """-> (model or None, text).  First the exact query, then bounded instantiation."""
  text = ''
  s = z3.Solver()
  s.set('timeout', 15000)
  s.add(*ob.hyps)
  s.add(z3.Not(ob.goal))
  entry = eng.old_stack[0][0] if eng.old_stack else {}
  small = []
  for key, a in entry.items():
    if key.endswith('.len') and key != '$alloc':
      for v in range(0, B + 1):
        small.append(z3.Select(a, z3.IntVal(v)) <= max_len)
  if '$alloc' in entry:
    small.append(entry['$alloc'] <= B - 3)
  s.push()
  s.add(*small)
  r = s.check()
  text += 'exact query with small-size constraints: %s\n' % r
  if r == z3.sat:
    return s.model(), text + 'model is exact (satisfies every quantified hypothesis)\n'
  s.pop()
  s2 = z3.Solver()
  s2.set('timeout', 120000)
  for h in ob.hyps:
    s2.add(bounded_instances(h, B, True))
  s2.add(bounded_instances(ob.goal, B, False))
  s2.add(*small)
  r = s2.check()
  text += 'bounded instantiation over [-1,%d], list lengths <= %d: %s\n' % (B, max_len, r)
  if r == z3.sat:
    return s2.model(), text + 'candidate model (quantifiers instantiated on a finite range: must be confirmed by replay)\n'
  return None, text


def extract_witness(eng, ob, extra_terms=None):
  """-> (witness dict or None, solver output text)."""
  model, text = find_model(eng, ob)
  if model is None:
    return None, text
  d = Dumper(eng, model)
  params = {}
  for name, v in (eng.entry_params or {}).items():
    try:
      params[name] = d.dump(v)
    except Exception as e:
      params[name] = 'dump failed: %s' % e
  w = {'params': params, 'objects': d.objects}
  text += 'model:\n' + str(model)[:6000]
  return w, text
