"""Small driver used during development: python3-vt -m pyvc.run <unit> ..."""
import sys, time
from .registry import Registry
from .source import Sources
from .engine import Engine
from .solve import discharge

def main(argv):
  reg = Registry().load_package('specs')
  src = Sources(__import__('os').environ.get('PYVC_REPO', '/repo'))
  for unit in argv:
    eng = Engine(reg, src)
    t0 = time.time()
    res = eng.verify_unit(unit)
    print('== %s: %d obligations, paths=%d, gen %.2fs, error=%s' % (unit, len(res.obligations), res.paths, res.gen_time, res.error))
    from .cli import solve_text
    from .solve import smt2_of
    for ob in res.obligations:
      if ob.status != 'proved':
        r = solve_text((smt2_of(ob.hyps, ob.goal), 20000, False))
        ob.status, ob.backend, ob.reason, ob.time = r
      print('  %-8s %-18s %6.2fs  %s  (line %s)' % (ob.status, ob.backend, ob.time, ob.name, ob.line))
      if ob.status != 'proved':
        print('      ', ob.desc, ob.reason)
        print('       path:', ' '.join(ob.path))
        if ob.model is not None and '-m' in sys.argv:
          print(ob.model)

if __name__ == '__main__':
  main([a for a in sys.argv[1:] if not a.startswith('-')])
