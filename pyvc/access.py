"""Attribute / subscript access, container methods, builtins, spec builtins."""
import ast
import z3

from .types import Ty, INT, REAL, BOOL, STR, NONE, ANY, FN, parse_type, base_sort, flatten
from .state import (V, VFunc, VBound, VClass, VModule, Exc, Unsupported, fresh_name,
                    mk_int, mk_bool, NONE_V, coerce, to_terms, from_terms)
from .expr import Ctx, is_num, num_term, simp_bool

I = z3.IntSort()

DROP_ROOTS = ('_log', '_varz', '__varz', 'LOG', 'ROOT_LOG', 'Varz', 'POOL_LOGGER', 'SINK_LOG')


def attr_chain(node):
  """['self', '_varz', 'x'] for self._varz.x ; None if not a pure name/attribute chain."""
  out = []
  while isinstance(node, ast.Attribute):
    out.append(node.attr)
    node = node.value
  if isinstance(node, ast.Name):
    out.append(node.id)
    return list(reversed(out))
  return None


class AccessMixin(object):

  def is_dropped_call(self, node, cx=None):
    """Logging and metric emission are dropped by the extraction (DESIGN 2.2)."""
    ch = attr_chain(node.func)
    if not ch:
      return False
    extra = ()
    if cx is not None and cx.spec is not None:
      extra = tuple(cx.spec.drop)
    for nm in ch[:-1] if len(ch) > 1 else ch:
      if nm in DROP_ROOTS and nm not in self.keep_roots:
        return True
      if nm in extra:
        return True
    if ch[-1] in extra:      # the sidecar drops calls of this name (e.g. the construction of a metrics object)
      return True
    return False

  # ------------------------------------------------------------------ attribute
  def ev_Attribute(self, node, st, cx):
    ch = attr_chain(node)
    if ch and len(ch) > 1 and any(n in DROP_ROOTS and n not in self.keep_roots for n in ch[:-1]):
      # a logging / metrics callable taken as a value (log_fn = self._log.debug): calling it is dropped
      self.dropped.add('.'.join(ch))
      yield st, VBound('noop', '.'.join(ch))
      return
    for st1, base in self.ev(node.value, st, cx):
      if isinstance(base, Exc):
        yield st1, base
        continue
      for o in self.get_attr(st1, cx, base, node.attr, node):
        yield o

  def mangled_owner(self, cx, attr):
    if attr.startswith('__') and not attr.endswith('__') and cx.cls:
      return cx.cls
    return None

  def get_attr(self, st, cx, base, attr, node):
    if isinstance(base, VModule):
      yield st, VModule(base.name + '.' + attr)
      return
    if isinstance(base, VClass):
      yield st, self.class_attr(st, cx, base.name, attr, node)
      return
    if isinstance(base, (VFunc, VBound)):
      raise Unsupported('attribute %s of a callable' % attr)
    ty = base.ty
    if ty.k in ('list', 'set', 'dict', 'deque', 'str', 'tuple'):
      yield st, VBound('method', attr, recv=base)
      return
    if ty.k == 'structfmt':
      yield st, VBound('structm', attr, recv=base)
      return
    if ty.k == 'ref' and ty.name == 'Stream' and attr in ('write', 'read', 'getvalue', 'tell', 'seek'):
      yield st, VBound('stream', attr, recv=base)
      return
    if ty.k == 'any':
      # an opaque value whose class the code has just tested: a field declared by exactly one class
      owners = [c for c, ci in self.reg.classes.items() if attr in ci.fields]
      if len(owners) == 1:
        yield st, self.load_field(st, base.t, owners[0], attr)
        return
      if attr in ('encode', 'startswith', 'endswith', 'lower'):
        yield st, VBound('method', attr, recv=V(STR, base.t))    # used as text
        return
      # a method under contract on exactly one class: the code has narrowed the value to that class
      cands = [(n, f) for n, f in self.reg.functions.items() if f.cls and n == '%s.%s' % (f.cls, attr) and not f.ghost_fn]
      if len(cands) == 1:
        n, f = cands[0]
        fnode = self.src.module(f.file).find(f.path)
        fn = VFunc(fnode, self.src.module(f.file), f.cls, None, n)
        yield st, VBound('repo', attr, recv=V(Ty('ref', (), f.cls), base.t), func=fn, cls=f.cls)
        return
      if node is not None and not getattr(node, '_pyvc_callee', False) and not attr.startswith('__'):
        # a data attribute of an opaque object (endpoint.host, properties.x): an opaque value, a function of the object
        # and the attribute name.  That the attribute exists is assumed (listed with the unit's assumptions).
        self.assumes.append('%s: opaque object has attribute %s' % (cx.qual, attr))
        yield st, V(ANY, z3.Function('dyn_attr', I, I, I)(base.t, z3.IntVal(self.strs.get(attr))))
        return
    if ty.k != 'ref':
      raise Unsupported('attribute %s of %r (line %s)' % (attr, base, getattr(node, 'lineno', '?')))
    # None dereference
    if ty.opt and not self.spec_depth and attr != '__class__':
      for o in self.oblige_or_raise(st, cx, base.t != 0, 'AttributeError', node, 'None.%s' % attr):
        if isinstance(o[1], Exc):
          yield o
        else:
          for o2 in self._ref_attr(o[0], cx, V(ty.with_opt(False), base.t), attr, node):
            yield o2
      return
    for o in self._ref_attr(st, cx, base, attr, node):
      yield o

  def dictlike_info(self, ty):
    if ty.k != 'ref' or ty.name not in self.reg.classes:
      return None
    for c in self.mro(ty.name):
      ci = self.reg.classes[c]
      if ci.dictlike:
        return ci
    return None

  def dl_field(self, ci, key, node):
    if not (isinstance(key, V) and key.ty.k == 'str' and isinstance(key.py, str)):
      raise Unsupported('record key must be a constant string (line %s)' % getattr(node, 'lineno', '?'))
    if key.py not in ci.dictlike:
      raise Unsupported('record key %r not declared for %s (line %s)' % (key.py, ci.name, getattr(node, 'lineno', '?')))
    return ci.dictlike[key.py][0]

  def dl_method(self, st, cx, recv, name, args, node):
    ci = self.dictlike_info(recv.ty)
    cls = recv.ty.name
    if name in ('get', 'pop'):
      f = self.dl_field(ci, args[0], node)
      has = self.load_field(st, recv.t, cls, 'has_' + f).t
      val = self.load_field(st, recv.t, cls, f)
      default = args[1] if len(args) > 1 else NONE_V
      if name == 'pop' and len(args) < 2:
        for o in self.oblige_or_raise(st, cx, has, 'KeyError', node, 'pop of a present key'):
          if isinstance(o[1], Exc):
            yield o
          else:
            self.store_field(o[0], recv.t, cls, 'has_' + f, mk_bool(False))
            yield o[0], val
        return
      res = self.merge_vals(has, val, default)
      if name == 'pop':
        self.store_field(st, recv.t, cls, 'has_' + f, mk_bool(False))
      yield st, res
    else:
      raise Unsupported('record method %s (line %s)' % (name, getattr(node, 'lineno', '?')))

  def _ref_attr(self, st, cx, base, attr, node):
    if attr == '__class__':
      f = z3.Function('class_of', I, I)
      yield st, V(ANY, f(base.t))
      return
    if attr in ('get', 'pop', 'items', 'keys', 'update', 'copy') and self.dictlike_info(base.ty) is not None:
      yield st, VBound('dictlike', attr, recv=base)
      return
    cls = self.mangled_owner(cx, attr) or base.ty.name
    owner, fty = self.field_decl(cls, attr)
    if owner is not None:
      yield st, self.load_field(st, base.t, cls, attr)
      return
    # an assumed (extern) contract on a class overrides repository members further up the MRO
    for c in self.mro(cls):
      if ('%s.%s' % (c, attr)) in self.reg.externs:
        yield st, VBound('extern', '%s.%s' % (c, attr), recv=base)
        return
      cn, cm = self.class_node(c)
      if cn is not None and any(isinstance(n, (ast.FunctionDef, ast.ClassDef)) and n.name == attr or
                                (isinstance(n, ast.Assign) and any(isinstance(t, ast.Name) and t.id == attr for t in n.targets))
                                for n in cn.body):
        break
    member, mod, mowner = self.find_member(cls, attr)
    if member is not None:
      if isinstance(member, ast.FunctionDef):
        decs = [d.id if isinstance(d, ast.Name) else (d.attr if isinstance(d, ast.Attribute) else '') for d in member.decorator_list]
        fn = VFunc(member, mod, mowner, None, mowner + '.' + attr)
        if 'property' in decs or 'abstractproperty' in decs:
          spec = self.reg.functions.get(mowner + '.' + attr)
          if spec is not None and not spec.inline and not spec.pure:
            for o in self.call(st, cx, VBound('repo', attr, recv=base, func=fn, cls=mowner), [], {}, node):
              yield o
          else:
            yield st, self.call_pure(st, cx, fn, [base], {})
          return
        if 'staticmethod' in decs:
          yield st, VBound('repo', attr, recv=None, func=fn, cls=mowner)
        elif 'classmethod' in decs:
          yield st, VBound('repo', attr, recv=VClass(base.ty.name), func=fn, cls=mowner)
        else:
          vb = VBound('repo', attr, recv=base, func=fn, cls=mowner)
          if vb.term is not None:
            st.assume(vb.term >= 5000000)     # a callable: never None/falsy, distinct from object references
            st.assume(z3.Function('bound_method_code', I, I)(vb.term) == vb.term.arg(0))   # different methods: different values
          yield st, vb
        return
      if isinstance(member, ast.ClassDef):
        if attr in self.reg.classes:
          yield st, VClass(attr)
          return
        raise Unsupported('nested class %s not declared' % attr)
      if attr in self.reg.classes and self.reg.classes[attr].extern:
        yield st, VClass(attr)       # e.g. a namedtuple class attribute declared as a record class
        return
      # class-level constant
      yield st, self.eval_const(member.value, mod, attr)
      return
    # a name imported in the class body (from x import Y) that the sidecar declares as a class
    for c in self.mro(cls):
      cn, cm = self.class_node(c)
      if cn is not None:
        for n in cn.body:
          if isinstance(n, ast.ImportFrom) and any((a.asname or a.name) == attr for a in n.names) and attr in self.reg.classes:
            yield st, VClass(attr)
            return
    # extern class: declared constants, else extern method
    for c in self.mro(cls):
      ci = self.class_info(c)
      if attr in ci.consts:
        yield st, self.const_value(ci.consts[attr])
        return
      if ('%s.%s' % (c, attr)) in self.reg.externs:
        yield st, VBound('extern', '%s.%s' % (c, attr), recv=base)
        return
    # downcast: a field declared by exactly one subclass (the code has narrowed the type, e.g. by isinstance)
    subs = [c for c in self.subclasses_of(cls) if c != cls and attr in self.class_info(c).fields]
    if len(subs) == 1:
      yield st, self.load_field(st, base.t, subs[0], attr)
      return
    raise Unsupported('attribute %s.%s not declared (line %s)' % (cls, attr, getattr(node, 'lineno', '?')))

  def const_value(self, c):
    if isinstance(c, bool):
      return mk_bool(c)
    if isinstance(c, int):
      return mk_int(c)
    if isinstance(c, float):
      return V(REAL, z3.RealVal(repr(c)))
    if isinstance(c, str):
      return self.const_str(c)
    raise Unsupported('constant %r' % (c,))

  def class_attr(self, st, cx, cname, attr, node):
    for c in self.mro(cname):
      ci = self.reg.classes.get(c)
      if ci is not None and attr in ci.static_fields:
        # a mutable class attribute (process-wide singleton): one object for the whole run
        g = V(ci.static_fields[attr], z3.Int('G_%s_%s' % (c, attr)))
        st.assume_wf(z3.And(g.t > 0, g.t <= st.alloc))
        return g
    member, mod, mowner = self.find_member(cname, attr)
    if member is not None:
      if isinstance(member, ast.FunctionDef):
        decs = [d.id if isinstance(d, ast.Name) else '' for d in member.decorator_list]
        fn = VFunc(member, mod, mowner, None, mowner + '.' + attr)
        if 'staticmethod' in decs:
          return VBound('repo', attr, recv=None, func=fn, cls=mowner)
        if 'classmethod' in decs:
          return VBound('repo', attr, recv=VClass(cname), func=fn, cls=mowner)
        return VBound('repo', attr, recv='unbound', func=fn, cls=mowner)
      if isinstance(member, ast.ClassDef):
        if attr in self.reg.classes:
          return VClass(attr)
        raise Unsupported('nested class %s not declared' % attr)
      return self.eval_const(member.value, mod, attr)
    for c in self.mro(cname):
      ci = self.class_info(c)
      if attr in ci.consts:
        return self.const_value(ci.consts[attr])
      if ('%s.%s' % (c, attr)) in self.reg.externs:
        return VBound('extern', '%s.%s' % (c, attr), recv=None)
    raise Unsupported('class attribute %s.%s (line %s)' % (cname, attr, getattr(node, 'lineno', '?')))

  # ------------------------------------------------------------------ subscript
  def ev_Subscript(self, node, st, cx):
    for st1, base in self.ev(node.value, st, cx):
      if isinstance(base, Exc):
        yield st1, base
        continue
      if isinstance(node.slice, ast.Slice):
        for o in self.ev_slice(st1, cx, base, node.slice, node):
          yield o
        continue
      for st2, idx in self.ev(node.slice, st1, cx):
        if isinstance(idx, Exc):
          yield st2, idx
          continue
        for o in self.get_item(st2, cx, base, idx, node):
          yield o

  def norm_index(self, st, cx, idx, n, node, what):
    """python index normalisation (negative from the end) + IndexError obligation."""
    i = idx.t
    s = simp_bool(i >= 0)
    j = i if s is True else (i + n if s is False else z3.If(i >= 0, i, i + n))
    ok = z3.And(j >= 0, j < n)
    return j, ok

  def get_item(self, st, cx, base, idx, node):
    if not isinstance(base, V):
      raise Unsupported('subscript of %r' % (base,))
    k = base.ty.k
    if k == 'tuple':
      c = z3.simplify(idx.t) if idx.t is not None else None
      if c is None or not z3.is_int_value(c):
        raise Unsupported('tuple index must be constant (line %s)' % getattr(node, 'lineno', '?'))
      yield st, base.items[c.as_long()]
      return
    if k == 'list':
      n = self.list_len(st, base)
      if self.spec_depth:
        yield st, self.list_get(st, base, idx.t)
        return
      j, ok = self.norm_index(st, cx, idx, n, node, 'list')
      for o in self.oblige_or_raise(st, cx, ok, 'IndexError', node, 'list index in range'):
        if isinstance(o[1], Exc):
          yield o
        else:
          yield o[0], self.list_get(o[0], base, j)
      return
    if k == 'deque':
      lo, hi = self.dq_bounds(st, base)
      if self.spec_depth:
        yield st, self.dq_get(st, base, lo + idx.t)
        return
      j, ok = self.norm_index(st, cx, idx, hi - lo, node, 'deque')
      for o in self.oblige_or_raise(st, cx, ok, 'IndexError', node, 'deque index in range'):
        if isinstance(o[1], Exc):
          yield o
        else:
          yield o[0], self.dq_get(o[0], base, lo + j)
      return
    if k == 'ddict':
      # collections.defaultdict: a missing key reads as the default value, which is inserted
      key = self.key_term(st, idx, base.ty.args[0])
      vty = base.ty.args[1]
      has = z3.Select(self.dict_has_arr(st, base), key)
      if self.spec_depth:
        if vty.k in ('int', 'real'):
          cur = self.dict_get(st, base, key)
          zero = z3.IntVal(0) if vty.k == 'int' else z3.RealVal(0)
          yield st, V(vty, z3.If(has, cur.t, zero))
        else:
          yield st, self.dict_get(st, base, key)
        return
      s_has = st.fork()
      s_has.assume(has)
      if self.feasible(s_has):
        yield s_has, self.dict_get(s_has, base, key)
      s_new = st.fork()
      s_new.assume(z3.Not(has))
      if self.feasible(s_new):
        if vty.k == 'int':
          dv = mk_int(0)
        elif vty.k == 'real':
          dv = V(vty, z3.RealVal(0))
        elif vty.k in ('ddict', 'dict'):
          r = self.new_ref(s_new)
          dv = V(vty.with_opt(False), r)
          self.dict_init_empty(s_new, dv)
        else:
          raise Unsupported('defaultdict of %r' % vty)
        self.dict_set(s_new, base, key, dv)
        yield s_new, dv
      return
    if k == 'dict':
      key = self.key_term(st, idx, base.ty.args[0])
      if self.spec_depth:
        yield st, self.dict_get(st, base, key)
        return
      has = z3.Select(self.dict_has_arr(st, base), key)
      for o in self.oblige_or_raise(st, cx, has, 'KeyError', node, 'dict key present'):
        if isinstance(o[1], Exc):
          yield o
        else:
          yield o[0], self.dict_get(o[0], base, key)
      return
    if k == 'ref' and self.reg.classes.get(base.ty.name) is not None and self.reg.classes[base.ty.name].listlike:
      ci = self.reg.classes[base.ty.name]
      c = z3.simplify(idx.t)
      if not z3.is_int_value(c):
        raise Unsupported('record index must be constant (line %s)' % getattr(node, 'lineno', '?'))
      for o in self.get_attr(st, cx, base, ci.listlike[c.as_long()], node):
        yield o
      return
    if k == 'ref' and (base.ty.name + '.__getitem__') in self.reg.externs:
      for o in self.call_extern(st, cx, base.ty.name + '.__getitem__', base, [idx], {}, node):
        yield o
      return
    if k == 'ref' and self.dictlike_info(base.ty) is not None:
      ci = self.dictlike_info(base.ty)
      f = self.dl_field(ci, idx, node)
      has = self.load_field(st, base.t, base.ty.name, 'has_' + f).t
      if self.spec_depth:
        yield st, self.load_field(st, base.t, base.ty.name, f)
        return
      for o in self.oblige_or_raise(st, cx, has, 'KeyError', node, 'record key present'):
        if isinstance(o[1], Exc):
          yield o
        else:
          yield o[0], self.load_field(o[0], base.t, base.ty.name, f)
      return
    if k == 'any':       # element of an opaque sequence
      f = z3.Function('item_of', I, I, I)
      yield st, V(ANY, f(base.t, coerce(idx, ANY) if idx.ty.k != 'int' else idx.t))
      return
    raise Unsupported('subscript of %r (line %s)' % (base, getattr(node, 'lineno', '?')))

  def dq_get(self, st, dq, pos):
    ety = dq.ty.args[0]
    terms = []
    for suf, so in flatten(ety):
      a = self.arr(st, self.ckey(dq.ty, 'items') + suf, [I, I, so])
      terms.append(z3.Select(z3.Select(a, dq.t), pos))
    v = from_terms(terms, ety)
    self.note_read(st, v)
    return v

  def dq_set(self, st, dq, pos, val):
    ety = dq.ty.args[0]
    terms = to_terms(val, ety)
    for (suf, so), t in zip(flatten(ety), terms):
      key = self.ckey(dq.ty, 'items') + suf
      a = self.arr(st, key, [I, I, so])
      st.heap[key] = z3.Store(a, dq.t, z3.Store(z3.Select(a, dq.t), pos, t))

  def ev_slice(self, st, cx, base, sl, node):
    """xs[a:b] creates a fresh list whose items are given by a quantified fact."""
    if (isinstance(base, V) and base.ty.k == 'ref' and self.reg.classes.get(base.ty.name) is not None
        and self.reg.classes[base.ty.name].listlike and sl.step is None and sl.lower is None
        and isinstance(sl.upper, ast.Constant) and isinstance(sl.upper.value, int)):
      names = self.reg.classes[base.ty.name].listlike[:sl.upper.value]
      items = [self.load_field(st, base.t, base.ty.name, f) for f in names]
      yield st, V(Ty('tuple', [i.ty for i in items]), items=items)
      return
    if isinstance(base, V) and base.ty.k == 'any':
      yield st, self.fresh_val(st, ANY, 'slice')      # a slice of an opaque sequence
      return
    if not (isinstance(base, V) and base.ty.k == 'list') or sl.step is not None:
      raise Unsupported('slice of %r (line %s)' % (base, getattr(node, 'lineno', '?')))
    parts = [sl.lower or ast.Constant(value=0), sl.upper or ast.Constant(value=None)]
    for st1, vals in self.ev_seq(parts, st, cx):
      if isinstance(vals, Exc):
        yield st1, vals
        continue
      n = self.list_len(st1, base)
      def clamp(v, default):
        if v.ty.k == 'none':
          return default
        i = z3.If(v.t < 0, v.t + n, v.t)
        return z3.If(i < 0, z3.IntVal(0), z3.If(i > n, n, i))
      lo = clamp(vals[0], z3.IntVal(0))
      hi = clamp(vals[1], n)
      r = self.new_ref(st1)
      res = V(base.ty.with_opt(False), r)
      ln = z3.If(hi > lo, hi - lo, z3.IntVal(0))
      self.set_list_len(st1, res, ln)
      ety = base.ty.args[0]
      k = z3.Int(fresh_name('k'))
      for suf, so in flatten(ety):
        key = self.ckey(base.ty, 'items') + suf
        a = self.arr(st1, key, [I, I, so])
        new_items = z3.Const(fresh_name('slice'), z3.ArraySort(I, so))
        src = z3.Select(a, base.t)
        st1.assume(z3.ForAll([k], z3.Implies(z3.And(k >= 0, k < ln), z3.Select(new_items, k) == z3.Select(src, k + lo))))
        st1.heap[key] = z3.Store(a, r, new_items)
      yield st1, res

  # ------------------------------------------------------------------ builtin calls
  def call_builtin(self, st, cx, name, args, kwargs, node):
    """Generator of (st, value)."""
    if name == 'len':
      yield st, V(INT, self.py_len(st, args[0]))
    elif name in ('max', 'min'):
      vals = args
      if len(args) == 1 and args[0].ty.k == 'tuple':
        vals = args[0].items
      if len(vals) < 2 or not all(is_num(v) for v in vals):
        raise Unsupported('%s on %r' % (name, args))
      real = any(v.ty.k == 'real' for v in vals)
      acc = num_term(vals[0], real)
      for v in vals[1:]:
        t = num_term(v, real)
        acc = z3.If(t > acc, t, acc) if name == 'max' else z3.If(t < acc, t, acc)
      yield st, V(REAL if real else INT, acc)
    elif name == 'abs':
      real = args[0].ty.k == 'real'
      t = num_term(args[0], real)
      yield st, V(REAL if real else INT, z3.If(t >= 0, t, -t))
    elif name == 'int':
      a = args[0]
      if a.ty.k == 'real':
        yield st, V(INT, z3.If(a.t >= 0, z3.ToInt(a.t), -z3.ToInt(-a.t)))
      elif a.ty.k in ('int', 'bool'):
        yield st, V(INT, num_term(a, False))
      elif a.ty.k == 'str':
        f = z3.Function('str_to_int', I, I)
        ok = z3.Function('str_is_int', I, z3.BoolSort())
        for o in self.oblige_or_raise(st, cx, ok(a.t), 'ValueError', node, 'int() of a numeric string'):
          if isinstance(o[1], Exc):
            yield o
          else:
            yield o[0], V(INT, f(a.t))
      else:
        raise Unsupported('int(%r)' % a)
    elif name == 'float':
      yield st, V(REAL, num_term(args[0], True))
    elif name == 'bool':
      yield st, V(BOOL, self.truth(st, args[0]))
    elif name == 'str':
      a = args[0]
      if isinstance(a, V) and a.ty.k == 'str':
        yield st, a
      else:
        f = z3.Function('str_of', I, I)
        t = coerce(a, ANY) if isinstance(a, V) and a.ty.is_reflike else (a.t if isinstance(a, V) and a.ty.k == 'int' else None)
        yield st, (V(STR, f(t)) if t is not None else self.fresh_val(st, STR, 'str'))
    elif name == 'sum' and len(args) == 1 and isinstance(args[0], V) and args[0].ty.k == 'list':
      # the sum of a list of numbers: an uninterpreted function of the list (its meaning is given
      # pointwise by the obligations that relate each summand to what is written for it)
      f = z3.Function('sum_list', I, I)
      yield st, V(INT, f(args[0].t), py=('sum', args[0]))
    elif name == 'hash':
      yield st, V(INT, self.py_hash(st, cx, args[0]))
    elif name in ('getattr', 'hasattr') and len(args) >= 2:
      obj, nm = args[0], args[1]
      default = args[2] if len(args) > 2 else None
      if isinstance(obj, V) and obj.ty.k == 'ref' and isinstance(nm, V) and nm.ty.k == 'str' and isinstance(nm.py, str):
        attr = nm.py
        owner, fty = self.field_decl(obj.ty.name, attr)
        exists = None
        for c in self.mro(obj.ty.name):
          ci = self.class_info(c)
          if attr in ci.maybe_attrs:
            exists = self.load_field(st, obj.t, obj.ty.name, ci.maybe_attrs[attr]).t
        if owner is not None:
          val = self.load_field(st, obj.t, obj.ty.name, attr)
          if name == 'hasattr':
            yield st, V(BOOL, exists if exists is not None else z3.BoolVal(True))
          elif exists is None:
            yield st, val
          elif default is None:
            for o in self.oblige_or_raise(st, cx, exists, 'AttributeError', node, 'getattr of a missing attribute %s' % attr):
              yield (o[0], o[1]) if isinstance(o[1], Exc) else (o[0], val)
          else:
            yield st, self.merge_vals(exists, val, default)
          continue_ = True
        else:
          if name == 'hasattr':
            yield st, mk_bool(False)
          elif default is not None:
            yield st, default
          else:
            for o in self.oblige_or_raise(st, cx, z3.BoolVal(False), 'AttributeError', node, 'no attribute %s' % attr):
              yield o
      else:
        # reflective access with a computed name / on an opaque object: an opaque result
        if name == 'hasattr':
          yield st, self.fresh_val(st, BOOL, 'hasattr')
        elif (isinstance(obj, V) and obj.ty.is_reflike and isinstance(nm, V) and nm.ty.k in ('str', 'any')
              and default is not None and isinstance(default, V) and default.ty.k == 'none'):
          # getattr(obj, <computed name>, None): a function of the object and the name (None when absent or None)
          yield st, V(ANY, z3.Function('dyn_attr', I, I, I)(obj.t, nm.t))
        else:
          yield st, self.fresh_val(st, ANY, 'getattr')
    elif name == 'isinstance':
      yield st, V(BOOL, self.isinstance_(st, args[0], args[1]))
    elif name == 'callable':
      a = args[0]
      if not isinstance(a, V):
        yield st, mk_bool(True)
      elif a.ty.k in ('fn', 'any'):
        # an opaque value is callable iff it stands for a function / class / bound method
        yield st, V(BOOL, z3.Or(a.t >= 5000000, z3.Function('is_callable', I, z3.BoolSort())(a.t)))
      elif a.ty.k == 'ref' and (a.ty.name + '.__call__') in self.reg.externs:
        yield st, V(BOOL, a.t != 0)
      else:
        yield st, mk_bool(False)
    elif name == 'any':
      a = args[0]
      if isinstance(a, V) and a.ty.k in ('list', 'deque') and self.always_truthy(a.ty.args[0]):
        yield st, V(BOOL, self.container_len(st, a) > 0)
      else:
        raise Unsupported('any(%r)' % (a,))
    elif name in ('Exception', 'NotImplementedError', 'ValueError', 'AttributeError', 'EOFError',
                  'TypeError', 'KeyError', 'IndexError', 'RuntimeError', 'StopIteration', 'ZeroDivisionError'):
      r = self.new_ref(st, name)
      yield st, V(Ty('ref', (), name), r)
    elif name == 'list' and len(args) == 1 and isinstance(args[0], V) and args[0].ty.k == 'list':
      a = args[0]
      r = self.new_ref(st)
      res = V(a.ty.with_opt(False), r)
      self.set_list_len(st, res, self.list_len(st, a))
      for key, sorts in self.container_components(a.ty):
        if '.items' in key:
          arr = self.arr(st, key, sorts)
          st.heap[key] = z3.Store(arr, r, z3.Select(arr, a.t))
      yield st, res
    elif name == 'list' and len(args) == 1 and isinstance(args[0], V) and args[0].ty.k == 'set':
      # list(<set>): the members in some order, each once
      a = args[0]
      ety = a.ty.args[0]
      mem = self.set_mem_arr(st, a)
      card = self.set_card(st, a)
      r = self.new_ref(st)
      res = V(Ty('list', [ety]), r)
      n = z3.Int(fresh_name('n'))
      so = base_sort(ety)
      items = z3.Const(fresh_name('elems'), z3.ArraySort(I, so))
      k, k2 = z3.Int(fresh_name('k')), z3.Int(fresh_name('k2'))
      x = z3.Const(fresh_name('x'), so)
      st.assume(z3.And(n >= 0, n == card, (n == 0) == (mem == z3.EmptySet(so))))
      st.assume(z3.ForAll([k], z3.Implies(z3.And(0 <= k, k < n), z3.Select(mem, z3.Select(items, k))), patterns=[z3.Select(items, k)]))
      st.assume(z3.ForAll([x], z3.Implies(z3.Select(mem, x), z3.Exists([k], z3.And(0 <= k, k < n, z3.Select(items, k) == x)))))
      st.assume(z3.ForAll([k, k2], z3.Implies(z3.And(0 <= k, k < k2, k2 < n), z3.Select(items, k) != z3.Select(items, k2))))
      self.set_list_len(st, res, n)
      key = self.ckey(res.ty, 'items')
      arr = self.arr(st, key, [I, I, so])
      st.heap[key] = z3.Store(arr, r, items)
      yield st, res
    elif name == 'set' and len(args) == 1 and isinstance(args[0], V) and args[0].ty.k == 'set':
      a = args[0]
      r = self.new_ref(st)
      res = V(a.ty.with_opt(False), r)
      self.set_update(st, res, mem=self.set_mem_arr(st, a), card=self.set_card(st, a))
      yield st, res
    elif name == 'set' and len(args) == 1 and isinstance(args[0], V) and args[0].ty.k == 'list':
      # set(<list>): x is a member exactly when some item of the list equals x
      a = args[0]
      ety = a.ty.args[0]
      if ety.k not in ('int', 'str', 'any', 'ref'):
        raise Unsupported('set(list[%r])' % ety)
      n = self.list_len(st, a)
      r = self.new_ref(st)
      res = V(Ty('set', [ety]), r)
      mem = z3.Const(fresh_name('setof'), z3.ArraySort(base_sort(ety), z3.BoolSort()))
      x = z3.Const(fresh_name('x'), base_sort(ety))
      k = z3.Int(fresh_name('k'))
      items = z3.Select(self.arr(st, self.ckey(a.ty, 'items'), [I, I, base_sort(ety)]), a.t)
      st.assume(z3.ForAll([x], z3.Select(mem, x) == z3.Exists([k], z3.And(0 <= k, k < n, z3.Select(items, k) == x))))
      st.assume(z3.ForAll([k], z3.Implies(z3.And(0 <= k, k < n), z3.Select(mem, z3.Select(items, k))), patterns=[z3.Select(items, k)]))
      card = z3.Int(fresh_name('card'))
      st.assume(z3.And(card >= 0, card <= n, (card == 0) == (n == 0)))
      self.set_update(st, res, mem=mem, card=card)
      yield st, res
    elif name == 'set' and not args:
      ty = getattr(node, '_pyvc_type', None)
      if ty is None:
        raise Unsupported('set() needs a declared type (line %s)' % getattr(node, 'lineno', '?'))
      r = self.new_ref(st)
      res = V(ty.with_opt(False), r)
      self.set_update(st, res, mem=z3.EmptySet(base_sort(ty.args[0])), card=z3.IntVal(0))
      yield st, res
    else:
      raise Unsupported('builtin %s(...) (line %s)' % (name, getattr(node, 'lineno', '?')))

  def py_hash(self, st, cx, v):
    """hash(): the class's own __hash__ when the repository defines one, structural for tuples,
    an uninterpreted function of the value otherwise (equal values hash equal)."""
    if isinstance(v, V) and v.ty.k == 'ref':
      fn, mod, owner = self.find_member(v.ty.name, '__hash__')
      if fn is not None:
        r = self.call_pure(st, cx, VFunc(fn, mod, owner, None, owner + '.__hash__'), [v], {})
        return r.t
      return z3.Function('hash_id', I, I)(v.t)
    if isinstance(v, V) and v.ty.k == 'tuple':
      parts = [self.py_hash(st, cx, it) for it in v.items]
      f = z3.Function('hash_tuple%d' % len(parts), *([I] * (len(parts) + 1)))
      return f(*parts)
    if isinstance(v, V) and v.ty.k in ('int', 'bool'):
      return num_term(v, False)
    if isinstance(v, V) and v.ty.is_reflike:
      return z3.Function('hash_val', I, I)(v.t)
    if isinstance(v, V) and v.ty.k == 'none':
      return z3.IntVal(0)
    raise Unsupported('hash(%r)' % (v,))

  def always_truthy(self, ty):
    if ty.k == 'tuple':
      return len(ty.args) > 0 and not ty.opt
    if ty.k == 'ref':
      return not ty.opt
    return False

  def py_len(self, st, a):
    if isinstance(a, V):
      if a.ty.k in ('list', 'set', 'dict', 'deque'):
        return self.container_len(st, a)
      if a.ty.k == 'tuple':
        return z3.IntVal(len(a.items))
      if a.ty.k == 'str':
        if isinstance(a.py, (str, bytes)):
          return z3.IntVal(len(a.py))
        return self.strlen(a.t)
      if a.ty.k == 'bytes':
        from .bytesalg import blen
        return blen(a.py)
      if a.ty.k == 'any':
        st.assume(self.strlen(a.t) >= 0)
        return self.strlen(a.t)      # len() of an opaque value used as text
    raise Unsupported('len(%r)' % (a,))

  def isinstance_(self, st, v, c):
    if isinstance(c, V) and c.ty.k == 'tuple':
      return z3.Or(*[self.isinstance_(st, v, x) for x in c.items])
    if isinstance(c, VBound) and c.kind == 'builtin':
      cname = c.name
    elif isinstance(c, VClass):
      cname = c.name
    elif isinstance(c, VModule):
      cname = c.name.split('.')[-1]
    else:
      raise Unsupported('isinstance(..., %r)' % (c,))
    if not isinstance(v, V):
      return z3.BoolVal(False)
    k = v.ty.k
    if cname in ('int', 'float', 'str', 'bool', 'list', 'dict', 'set', 'tuple'):
      m = {'int': ('int', 'bool'), 'float': ('real',), 'str': ('str',), 'bool': ('bool',),
           'list': ('list',), 'dict': ('dict',), 'set': ('set',), 'tuple': ('tuple',)}[cname]
      if k == 'any':
        f = z3.Function('is_py_' + cname, I, z3.BoolSort())
        return z3.And(v.t != 0, f(v.t))
      r = z3.BoolVal(k in m)
      if v.none is not None:
        r = z3.And(z3.Not(v.none), r)
      return r
    if cname == 'string_types':
      if k == 'any':
        f = z3.Function('is_str', I, z3.BoolSort())
        return f(v.t)
      return z3.BoolVal(k == 'str')
    if k == 'none':
      return z3.BoolVal(False)
    if k != 'ref' and k != 'any':
      return z3.BoolVal(False)
    if k == 'any' and cname in self.reg.classes:
      return z3.And(v.t != 0, z3.Or(*[self.dyn_class(st, v.t) == self.class_id(s) for s in self.subclasses_of(cname)]))
    if cname not in self.reg.classes:
      if k == 'any':       # a python class the sidecar does not model: an uninterpreted test
        return z3.And(v.t != 0, z3.Function('is_py_' + cname, I, z3.BoolSort())(v.t))
      if k == 'ref' and cname in ('Exception', 'BaseException'):
        from .stmt import exc_is
        return z3.BoolVal(exc_is(v.ty.name, cname)) if not v.ty.opt else z3.And(v.t != 0, z3.BoolVal(exc_is(v.ty.name, cname)))
      raise Unsupported('isinstance against undeclared class %s' % cname)
    if k == 'ref' and self.is_subclass(v.ty.name, cname):
      return (v.t != 0) if v.ty.opt else z3.BoolVal(True)
    subs = [s for s in self.subclasses_of(cname)]
    if k == 'ref':
      subs = [s for s in subs if self.is_subclass(s, v.ty.name)]
      if not subs:
        return z3.BoolVal(False)
    dc = self.dyn_class(st, v.t)
    return z3.And(v.t != 0, z3.Or(*[dc == self.class_id(s) for s in subs]))

  # ------------------------------------------------------------------ container methods
  def call_method(self, st, cx, recv, name, args, kwargs, node):
    k = recv.ty.k
    if k == 'list':
      for o in self.list_method(st, cx, recv, name, args, node):
        yield o
    elif k == 'deque':
      for o in self.deque_method(st, cx, recv, name, args, node):
        yield o
    elif k == 'set':
      for o in self.set_method(st, cx, recv, name, args, node):
        yield o
    elif k in ('dict', 'ddict'):
      for o in self.dict_method(st, cx, recv, name, args, node):
        yield o
    elif k == 'str':
      for o in self.str_method(st, cx, recv, name, args, node):
        yield o
    else:
      raise Unsupported('method %s of %r' % (name, recv))

  def list_method(self, st, cx, lst, name, args, node):
    n = self.list_len(st, lst)
    if name == 'append':
      self.list_set(st, lst, n, args[0])
      self.set_list_len(st, lst, n + 1)
      yield st, NONE_V
    elif name == 'pop' and not args:
      for o in self.oblige_or_raise(st, cx, n > 0, 'IndexError', node, 'pop from non-empty list'):
        if isinstance(o[1], Exc):
          yield o
        else:
          v = self.list_get(o[0], lst, n - 1)
          self.set_list_len(o[0], lst, n - 1)
          yield o[0], v
    elif name == 'insert' and z3.is_int_value(z3.simplify(args[0].t)) and z3.simplify(args[0].t).as_long() == 0:
      # insert at front: shift (quantified)
      ety = lst.ty.args[0]
      k = z3.Int(fresh_name('k'))
      terms = to_terms(args[1], ety)
      for (suf, so), t in zip(flatten(ety), terms):
        key = self.ckey(lst.ty, 'items') + suf
        a = self.arr(st, key, [I, I, so])
        src = z3.Select(a, lst.t)
        new_items = z3.Const(fresh_name('ins'), z3.ArraySort(I, so))
        st.assume(z3.Select(new_items, 0) == t)
        st.assume(z3.ForAll([k], z3.Implies(z3.And(k >= 1, k <= n), z3.Select(new_items, k) == z3.Select(src, k - 1))))
        st.heap[key] = z3.Store(a, lst.t, new_items)
      self.set_list_len(st, lst, n + 1)
      yield st, NONE_V
    else:
      raise Unsupported('list.%s (line %s)' % (name, getattr(node, 'lineno', '?')))

  def deque_method(self, st, cx, dq, name, args, node):
    lo, hi = self.dq_bounds(st, dq)
    if name == 'append':
      self.dq_set(st, dq, hi, args[0])
      self.dq_set_bounds(st, dq, hi=hi + 1)
      yield st, NONE_V
    elif name in ('popleft', 'pop'):
      for o in self.oblige_or_raise(st, cx, hi > lo, 'IndexError', node, '%s from a non-empty deque' % name):
        if isinstance(o[1], Exc):
          yield o
        elif name == 'popleft':
          v = self.dq_get(o[0], dq, lo)
          self.dq_set_bounds(o[0], dq, lo=lo + 1)
          yield o[0], v
        else:
          v = self.dq_get(o[0], dq, hi - 1)
          self.dq_set_bounds(o[0], dq, hi=hi - 1)
          yield o[0], v
    else:
      raise Unsupported('deque.%s' % name)

  def set_method(self, st, cx, s, name, args, node):
    mem = self.set_mem_arr(st, s)
    card = self.set_card(st, s)
    ety = s.ty.args[0]
    if name in ('add', 'discard', 'remove'):
      x = coerce(args[0], ety)
      had = z3.Select(mem, x)
      st.assume(z3.Implies(had, card >= 1))      # a set with a member has at least one element
      if name == 'add':
        self.set_update(st, s, mem=z3.Store(mem, x, z3.BoolVal(True)), card=z3.If(had, card, card + 1))
        yield st, NONE_V
      elif name == 'discard':
        self.set_update(st, s, mem=z3.Store(mem, x, z3.BoolVal(False)), card=z3.If(had, card - 1, card))
        yield st, NONE_V
      else:
        for o in self.oblige_or_raise(st, cx, had, 'KeyError', node, 'set.remove of a member'):
          if isinstance(o[1], Exc):
            yield o
          else:
            self.set_update(o[0], s, mem=z3.Store(mem, x, z3.BoolVal(False)), card=card - 1)
            yield o[0], NONE_V
    elif name == 'pop':
      for o in self.oblige_or_raise(st, cx, mem != z3.EmptySet(base_sort(ety)), 'KeyError', node, 'pop from a non-empty set'):
        if isinstance(o[1], Exc):
          yield o
        else:
          s1 = o[0]
          x = self.fresh_val(s1, ety, 'popped')
          s1.assume(z3.Select(mem, x.t))      # arbitrary member: every outcome is covered
          self.set_update(s1, s, mem=z3.Store(mem, x.t, z3.BoolVal(False)), card=card - 1)
          yield s1, x
    elif name == 'copy':
      r = self.new_ref(st)
      res = V(s.ty.with_opt(False), r)
      self.set_update(st, res, mem=mem, card=card)
      yield st, res
    elif name in ('intersection', 'difference', 'union') and len(args) == 1 and isinstance(args[0], V) and args[0].ty.k in ('set', 'dict', 'ddict'):
      # a new set: members of this one that are / are not in the other set (or among the keys of a dictionary)
      o = args[0]
      other = self.set_mem_arr(st, o) if o.ty.k == 'set' else self.dict_has_arr(st, o)
      x = z3.Const(fresh_name('x'), base_sort(ety))
      nm = z3.Const(fresh_name('setop'), z3.ArraySort(base_sort(ety), z3.BoolSort()))
      body = {'intersection': z3.And(z3.Select(mem, x), z3.Select(other, x)), 'difference': z3.And(z3.Select(mem, x), z3.Not(z3.Select(other, x))),
              'union': z3.Or(z3.Select(mem, x), z3.Select(other, x))}[name]
      st.assume(z3.ForAll([x], z3.Select(nm, x) == body))
      nc = z3.Int(fresh_name('card'))
      st.assume(z3.And(nc >= 0, (nc == 0) == (nm == z3.EmptySet(base_sort(ety)))))
      if name != 'union':
        st.assume(nc <= card)
      r = self.new_ref(st)
      res = V(s.ty.with_opt(False), r)
      self.set_update(st, res, mem=nm, card=nc)
      yield st, res
    elif name in ('difference_update', 'intersection_update') and len(args) == 1 and isinstance(args[0], V) and args[0].ty.k in ('set', 'dict'):
      # in-place difference / intersection with another set, or with the keys of a dictionary
      o = args[0]
      other = self.set_mem_arr(st, o) if o.ty.k == 'set' else self.dict_has_arr(st, o)
      x = z3.Const(fresh_name('x'), base_sort(ety))
      nm = z3.Const(fresh_name('setop'), z3.ArraySort(base_sort(ety), z3.BoolSort()))
      keep = z3.Not(z3.Select(other, x)) if name == 'difference_update' else z3.Select(other, x)
      st.assume(z3.ForAll([x], z3.Select(nm, x) == z3.And(z3.Select(mem, x), keep)))
      nc = z3.Int(fresh_name('card'))
      st.assume(z3.And(nc >= 0, nc <= card, z3.Implies(nm == mem, nc == card)))
      self.set_update(st, s, mem=nm, card=nc)
      yield st, NONE_V
    else:
      raise Unsupported('set.%s' % name)

  def dict_method(self, st, cx, d, name, args, node):
    kty, vty = d.ty.args
    has = self.dict_has_arr(st, d)
    if name in ('get', 'pop'):
      key = self.key_term(st, args[0], kty)
      present = z3.Select(has, key)
      have_default = len(args) > 1 or name == 'get'
      default = args[1] if len(args) > 1 else NONE_V
      if not have_default:
        for o in self.oblige_or_raise(st, cx, present, 'KeyError', node, 'dict.pop of a present key'):
          if isinstance(o[1], Exc):
            yield o
          else:
            v = self.dict_get(o[0], d, key)
            self.dict_set(o[0], d, key, None, has=False)
            yield o[0], v
        return
      v = self.dict_get(st, d, key)
      res = self.merge_vals(present, v, default)
      if name == 'pop':
        self.dict_set(st, d, key, None, has=False)
      yield st, res
    elif name == 'copy':
      r = self.new_ref(st)
      res = V(d.ty.with_opt(False), r)
      for key, sorts in self.container_components(d.ty):
        a = self.arr(st, key, sorts)
        st.heap[key] = z3.Store(a, r, z3.Select(a, d.t))
      yield st, res
    elif name in ('keys', 'values', 'items'):
      yield st, VBound('dictview', name, recv=d)
    elif name == 'update' and len(args) == 1 and isinstance(args[0], V) and args[0].ty.k == 'dict':
      # d.update(e): pointwise merge (e wins)
      e = args[0]
      if repr(e.ty.with_opt(False)) != repr(d.ty.with_opt(False)):
        raise Unsupported('dict.update with a differently typed dict')
      hk = self.ckey(d.ty, 'has')
      ha = self.arr(st, hk, [I, base_sort(kty), z3.BoolSort()])
      eh = z3.Select(ha, e.t)
      dh = z3.Select(ha, d.t)
      st.heap[hk] = z3.Store(ha, d.t, z3.SetUnion(dh, eh))
      x = z3.Const(fresh_name('x'), base_sort(kty))
      for suf, so in flatten(vty):
        vk = self.ckey(d.ty, 'val') + suf
        va = self.arr(st, vk, [I, base_sort(kty), so])
        nv = z3.Const(fresh_name('upd'), z3.ArraySort(base_sort(kty), so))
        st.assume(z3.ForAll([x], z3.Select(nv, x) == z3.If(z3.Select(eh, x), z3.Select(z3.Select(va, e.t), x), z3.Select(z3.Select(va, d.t), x))))
        st.heap[vk] = z3.Store(va, d.t, nv)
      ck = self.ckey(d.ty, 'card')
      ca = self.arr(st, ck, [I, I])
      nc = z3.Int(fresh_name('card'))
      st.assume(nc >= z3.Select(ca, d.t))
      st.assume(nc >= z3.Select(ca, e.t))
      st.assume(nc <= z3.Select(ca, d.t) + z3.Select(ca, e.t))
      st.heap[ck] = z3.Store(ca, d.t, nc)
      yield st, NONE_V
    else:
      raise Unsupported('dict.%s (line %s)' % (name, getattr(node, 'lineno', '?')))

  def str_method(self, st, cx, s, name, args, node):
    if name in ('startswith', 'endswith') and isinstance(args[0], V) and args[0].ty.k == 'str':
      if s.py is not None and args[0].py is not None:
        yield st, mk_bool(getattr(s.py, name)(args[0].py))
      else:
        f = z3.Function('str_' + name, I, I, z3.BoolSort())
        yield st, V(BOOL, f(s.t, args[0].t))
    elif name == 'split' and 1 <= len(args) <= 2 and isinstance(args[0], V) and args[0].ty.k == 'str':
      # the parts are uninterpreted functions of (string, separator, position); at least one part
      r = self.new_ref(st)
      res = V(Ty('list', [STR]), r)
      n = z3.Int(fresh_name('nparts'))
      st.assume(n >= 1)
      if len(args) == 2:
        st.assume(n <= num_term(args[1], False) + 1)
      # more than one part exactly when the separator occurs
      st.assume((n >= 2) == z3.Function('str_contains', I, I, z3.BoolSort())(s.t, args[0].t))
      self.set_list_len(st, res, n)
      key = self.ckey(res.ty, 'items')
      arr = self.arr(st, key, [I, I, I])
      part = z3.Function('split_part', I, I, I, I)
      k = z3.Int(fresh_name('k'))
      items = z3.Const(fresh_name('parts'), z3.ArraySort(I, I))
      st.assume(z3.ForAll([k], z3.Select(items, k) == part(s.t, args[0].t, k), patterns=[z3.Select(items, k)]))
      st.heap[key] = z3.Store(arr, r, items)
      st.assume(z3.Function('split_count', I, I, I)(s.t, args[0].t) == n)
      yield st, res
    elif name == 'join' and len(args) == 1:
      # sep.join(iterable): a string determined by the separator and the sequence (TypeError for non-string items is
      # not modelled: the argument is taken to be a sequence of strings)
      a = args[0]
      t = a.t if isinstance(a, V) and a.t is not None else z3.IntVal(0)
      yield st, V(STR, z3.Function('str_join', I, I, I)(s.t, t))
    elif name == 'lower':
      if s.py is not None:
        yield st, self.const_str(s.py.lower())
      else:
        f = z3.Function('str_lower', I, I)
        yield st, V(STR, f(s.t))
    elif name == 'encode':
      from .bytesalg import mk_bytes, const_atoms
      if isinstance(s.py, str):
        yield st, mk_bytes(const_atoms(s.py.encode('utf-8')))
      else:
        f = z3.Function('utf8', I, I)
        g = z3.Function('utf8len', I, I)
        # UTF-8 never has fewer bytes than the text has characters (equal exactly for ASCII text)
        st.assume(z3.And(g(s.t) >= self.strlen(s.t), g(s.t) >= 0))
        yield st, mk_bytes([('raw', f(s.t), g(s.t))])
    else:
      raise Unsupported('str.%s (line %s)' % (name, getattr(node, 'lineno', '?')))
