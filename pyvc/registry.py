"""Loads sidecar specs (/verif/specs/*.py) into one registry."""
import importlib
import re
import os
import pkgutil

from .types import parse_type


class ClassInfo(object):
  def __init__(self, name, d, default_file):
    self.name = name
    self.file = d.get('file', default_file)
    self.path = d.get('path', name)          # dotted path of the ClassDef in file (None = extern)
    self.extern = d.get('extern', False)
    self.fields = dict((k, parse_type(v)) for k, v in d.get('fields', {}).items())
    self.ghost = set(d.get('ghost', ()))     # names of fields that exist only in specs
    self.bases = d.get('bases', None)        # None = read from the ClassDef
    self.always_true = d.get('truthy', True)
    self.consts = d.get('consts', {})        # class-level constants for extern classes
    # dict-like record (message properties): constant string key -> (field name, type);
    # each key has a value field and a presence field 'has_<name>'
    self.dictlike = d.get('dictlike', None)
    if self.dictlike:
      for key, (fname, fty) in self.dictlike.items():
        self.fields[fname] = parse_type(fty)
        self.fields['has_' + fname] = parse_type('bool')
    self.abstracts_list = d.get('abstracts_list', None)   # extern class standing for a python list seen only through ghost set fields: [] allocates one with those sets empty
    self.listlike = d.get('listlike', None)   # python list used as a fixed record: field names by position
    self.truthy_expr = d.get('truthy_expr', None)  # spec expression for bool(self) of an extern container-like class
    self.value_key = d.get('value_key', None)   # fields that define ==/hash: instances are dictionary keys by value
    self.static_fields = dict((k, parse_type(v)) for k, v in d.get('static_fields', {}).items())  # mutable class attributes (singletons)
    self.maybe_attrs = dict(d.get('maybe_attrs', {}))   # attribute that instances may lack -> ghost bool field saying it exists (getattr/hasattr)
    self.final = d.get('final', False)       # no subclasses: dynamic class tag is known for every reference of this type


class FuncSpec(object):
  def __init__(self, name, d, default_file):
    self.name = name
    self.file = d.get('file', default_file)
    self.path = d.get('path', name)
    self.cls = d.get('cls', None)            # class of 'self' (for methods)
    self.params = dict((k, parse_type(v)) for k, v in d.get('params', {}).items())
    self.captures = dict((k, parse_type(v)) for k, v in d.get('captures', {}).items())
    self.returns = parse_type(d['returns']) if d.get('returns') else None
    self.requires = list(d.get('requires', ()))
    self.ensures = list(d.get('ensures', ()))
    self.modifies = list(d.get('modifies', ()))
    self.raises = dict(d.get('raises', {}))  # exc class -> dict(when=expr, ensures=[...])
    self.loops = dict(d.get('loops', {}))
    self.yields = list(d.get('yields', ()))   # [{'at': '<source text of the yielding call>', 'assert': [...], 'havoc': [...], 'rely': [...]}]
    self.may_yield = d.get('may_yield', False)   # a call of this function is itself a scheduling point for its caller
    self.conc = d.get('conc', None)
    g = d.get('guar', None)
    self.guar = ([self.conc] if self.conc else []) if g is None else list(g)   # CONCURRENCY entries this unit must establish
    self.no_exit = d.get('no_exit', False)
    self.buffers = dict(d.get('buffers', {}))     # stream parameter -> byte expression (its content at entry)
    self.comps = dict(d.get('comps', {}))            # source text of a list comprehension whose element has effects -> loop spec (it is run as the loop it abbreviates)
    self.dispatch = dict(d.get('dispatch', {}))      # call text -> candidate bound methods of a call through a stored callable
    self.inline_calls = list(d.get('inline_calls', ()))   # callees inlined from source in this unit although they have a contract
    self.literals = dict((k, parse_type(v)) for k, v in d.get('literals', {}).items())  # source text of a literal -> declared type        # the function never returns normally (worker loop)               # name of the CONCURRENCY entry governing the receiver's shared state
    self.pure = d.get('pure', False)
    self.inline = d.get('inline', False)
    self.locals = dict((k, parse_type(v)) for k, v in d.get('locals', {}).items())
    self.lemmas = list(d.get('lemmas', ()))  # spec exprs assumed at exit (each a proved lemma instance)
    self.ghost_fn = d.get('ghost_fn', None)  # source text for lemma functions living in the sidecar
    self.props = list(d.get('props', ()))
    self.notes = d.get('notes', '')
    self.self_nonnull = True
    self.drop = list(d.get('drop', ()))
    self.fresh_self = d.get('fresh_self', False)
    self.entry_assume = list(d.get('entry_assume', ()))
    self.allocates = d.get('allocates', False)
    self.trusted = d.get('trusted', False)   # contract assumed, body not verified (listed in evidence)
    self.ghost = list(d.get('ghost', ()))   # [{'after': '<stmt text>', 'do': ['<ghost stmt>', ...]}]
    # aspects: additional contract layers on the same function ('Func@aspect' units).  An aspect unit assumes the base
    # contract's clauses (proved by the base unit) and proves only its own; callees are taken with the same aspect.
    self.aspect = d.get('aspect', None)
    self.base_name = d.get('base_name', None)
    self.aspect_clauses = set(d.get('aspect_clauses', ()))


class ExternSpec(object):
  def __init__(self, name, d):
    self.name = name
    self.params = [(p, parse_type(t)) for p, t in d.get('params', [])]
    self.varargs = d.get('varargs', False)
    self.returns = parse_type(d['returns']) if d.get('returns') else None
    self.requires = list(d.get('requires', ()))
    self.ensures = list(d.get('ensures', ()))
    self.modifies = list(d.get('modifies', ()))
    self.may_raise = list(d.get('may_raise', ()))
    self.raise_ensures = list(d.get('raise_ensures', ()))
    self.yields = d.get('yields', False)
    self.fresh = d.get('fresh', False)       # result is a freshly allocated object
    self.allocates = d.get('allocates', False)
    self.writes = dict(d.get('writes', {}))   # stream parameter -> byte expression appended to it
    self.notes = d.get('notes', '')


class Registry(object):
  def __init__(self):
    self.classes = {}
    self.functions = {}
    self.externs = {}
    self.predicates = {}
    self.modules = {}
    self.concurrency = {}
    self.aspect_fallback = {}   # aspect -> aspects whose callee contracts it may use when a callee has none of its own
    self.globals = {}      # module-level singletons: name -> dict(type=..., assume=[spec clauses over the name])

  def load_package(self, pkgname='specs'):
    pkg = importlib.import_module(pkgname)
    for m in sorted(pkgutil.iter_modules(pkg.__path__), key=lambda m: m.name):
      mod = importlib.import_module(pkgname + '.' + m.name)
      self.load_module(mod)
    return self

  def load_module(self, mod):
    default_file = getattr(mod, 'FILE', None)
    self.modules[mod.__name__] = mod
    for k, d in getattr(mod, 'CLASSES', {}).items():
      if k in self.classes:
        raise ValueError('duplicate class spec %s' % k)
      self.classes[k] = ClassInfo(k, d, default_file)
    for k, d in getattr(mod, 'FUNCTIONS', {}).items():
      if k in self.functions:
        raise ValueError('duplicate function spec %s' % k)
      self.functions[k] = FuncSpec(k, d, default_file)
      for an, ad in d.get('aspects', {}).items():
        d2 = dict(d)
        d2.pop('aspects')
        d2.setdefault('path', k)
        for key in ('requires', 'ensures', 'modifies', 'ghost', 'lemmas', 'entry_assume'):
          d2[key] = list(d.get(key, ())) + list(ad.get(key, ()))
        loops = dict((o, dict(l)) for o, l in d.get('loops', {}).items())
        for o, extra in ad.get('loops', {}).items():
          loops.setdefault(o, {})
          loops[o]['invariant'] = list(loops[o].get('invariant', ())) + list(extra)
        d2['loops'] = loops
        d2['props'] = list(ad.get('props', ()))
        d2['aspect'] = an
        d2['base_name'] = k
        d2['trusted'] = d.get('trusted', False)
        clauses = list(ad.get('requires', ())) + list(ad.get('ensures', ()))
        for extra in ad.get('loops', {}).values():
          clauses += list(extra)
        for g in ad.get('ghost', ()):
          for line in g.get('do', ()):
            m = re.match(r'^\s*prove\((.*),\s*"[^"]*"\)\s*$', line, re.S)
            if m:
              clauses.append(m.group(1))
        d2['aspect_clauses'] = clauses
        d2['aspect_ghost'] = True
        self.functions[k + '@' + an] = FuncSpec(k + '@' + an, d2, default_file)
    for k, d in getattr(mod, 'EXTERNS', {}).items():
      if k in self.externs:
        raise ValueError('duplicate extern spec %s' % k)
      self.externs[k] = ExternSpec(k, d)
    for k, v in getattr(mod, 'ASPECT_FALLBACK', {}).items():
      self.aspect_fallback.setdefault(k, [])
      self.aspect_fallback[k] += [a for a in v if a not in self.aspect_fallback[k]]
    for k, d in getattr(mod, 'GLOBALS', {}).items():
      self.globals[k] = d
    for k, d in getattr(mod, 'CONCURRENCY', {}).items():
      if k in self.concurrency:
        raise ValueError('duplicate concurrency entry %s' % k)
      self.concurrency[k] = d
    for k, d in getattr(mod, 'PREDICATES', {}).items():
      if k in self.predicates:
        raise ValueError('duplicate predicate %s' % k)
      self.predicates[k] = d
