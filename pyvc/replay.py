"""Replay a counterexample against the real code: /venv/bin/python pyvc/replay.py <replay.json>

Exit 10: the real code misbehaves on the witness (violation confirmed);
exit 0: not reproduced; other: the replay could not be run.
Per-unit replay functions live in /verif/replays_src/<module>.py (REPLAYS dict)."""
import importlib
import json
import os
import pkgutil
import sys

ROOT = os.path.dirname(os.path.dirname(os.path.abspath(__file__)))


def main(path):
  with open(path) as f:
    rec = json.load(f)
  repo = rec.get('repo', '/repo')
  for p in (repo, ROOT):
    if p not in sys.path:
      sys.path.insert(0, p)
  import replays_src
  fn = None
  for m in pkgutil.iter_modules(replays_src.__path__):
    mod = importlib.import_module('replays_src.' + m.name)
    table = getattr(mod, 'REPLAYS', {})
    if rec['unit'] in table:
      fn = table[rec['unit']]
      break
  if fn is None:
    print('no replay function for unit %s' % rec['unit'])
    return 0
  try:
    confirmed, text = fn(rec.get('witness') or {}, rec)
  except Exception as e:        # e.g. no witness and the replay needs one
    if rec.get('witness'):
      raise
    print('replay needs a witness and the solver gave none (%s: %s)' % (type(e).__name__, e))
    return 0
  print(text)
  print('REPLAY %s unit=%s obligation=%s' % ('CONFIRMED' if confirmed else 'NOT-REPRODUCED', rec['unit'], rec['obligation']))
  return 10 if confirmed else 0


if __name__ == '__main__':
  sys.exit(main(sys.argv[1]))
