"""Unit driver: one function of the repository against its sidecar contract."""
import ast
import re
import time
import z3

from .types import Ty, INT, REAL, BOOL, STR, NONE, ANY, FN, parse_type, base_sort, flatten
from .state import (State, V, VFunc, VBound, VClass, VModule, Exc, Unsupported, fresh_name,
                    mk_int, mk_bool, NONE_V, coerce)
from .expr import ExprMixin, Ctx, StrTable, num_term, simp_bool
from .heapmodel import HeapMixin
from .access import AccessMixin
from .calls import CallMixin
from .stmt import StmtMixin, exc_is, loops_of
from .bytesalg import BytesMixin
from .source import SourceError


_quant_cache = {}
def _has_quant(e):
  k = e.get_id()
  r = _quant_cache.get(k)
  if r is None:
    r = False
    stack = [e]
    seen = set()
    while stack:
      x = stack.pop()
      if x.get_id() in seen:
        continue
      seen.add(x.get_id())
      if z3.is_quantifier(x):
        r = True
        break
      stack.extend(x.children())
    _quant_cache[k] = r
  return r


def _conjuncts(g):
  if z3.is_and(g):
    out = []
    for c in g.children():
      out.extend(_conjuncts(c))
    return out
  return [g]


class Obligation(object):
  def __init__(self, unit, name, desc, hyps, goal, line, path):
    self.unit = unit
    self.name = name
    self.desc = desc
    self.hyps = hyps
    self.goal = goal
    self.line = line
    self.path = path
    self.status = None      # proved / failed / unknown
    self.backend = None
    self.time = 0.0
    self.model = None
    self.reason = ''

  @property
  def ident(self):
    return '%s::%s' % (self.unit, self.name)


class UnitResult(object):
  def __init__(self, name):
    self.name = name
    self.obligations = []
    self.error = None        # Unsupported / SourceError text -> undecided
    self.cover = None        # True: precondition satisfiable
    self.cover_full = None   # True: incl. quantified clauses (model found)
    self.paths = 0
    self.exit_reached = 0
    self.source_hash = None
    self.file = None
    self.line = None
    self.dropped = []
    self.inlined = []
    self.externs = []
    self.contracts = []
    self.witness = None
    self.gen_time = 0.0


class Engine(HeapMixin, ExprMixin, AccessMixin, CallMixin, StmtMixin, BytesMixin):

  def __init__(self, reg, src, feas_timeout_ms=1500):
    self.reg = reg
    self.src = src
    self.strs = StrTable()
    self.heap_sorts = {}
    self.spec_depth = 0
    self.depth = 0
    self.lock_depth = 0
    self.guard_stack = []
    self.old_stack = []
    self.obligations = []
    self.unit = None
    self.dropped = set()
    self.inlined = set()
    self.externs_used = set()
    self.contracts_used = set()
    self.keep_roots = set()
    self.fnode_of = {}
    self.frame_parents = {}
    self.stmts_seen = 0
    self.feas_timeout_ms = feas_timeout_ms
    self.feas_calls = 0
    self.const_state = State()
    self.const_state.alloc = z3.IntVal(0)
    self.yield_counter = {}
    self.yield_hits = set()
    self.relies = {}
    self._ob_names = {}
    self.ghost_depth = 0
    self.pure_depth = 0
    self.globals_used = set()
    self.ghost_hits = set()
    self.anchor_maps = {}
    self.anchor_lines = {}     # unit -> anchor text -> line offset of the anchored statement (for the baseline)
    self.anchor_hints = {}     # the same, as recorded on the unchanged tree
    self.aspect_assumed = 0
    self.degraded = []        # parts of the (changed) function the sidecar does not cover: handled by over-approximation or skipped
    self.anchor_drift = []
    self.assumes = []

  # ------------------------------------------------------------------ solver helpers
  def feasible(self, st, strong=False):
    """False only when the path condition is refuted.  First the quantifier-free part
    (fast, complete for it); the full condition only under a short budget."""
    if self.spec_depth or self.pure_depth:
      return True     # spec clauses / merged pure calls: all paths are merged, nothing to prune
    self.feas_calls += 1
    qf = [c for c in st.pc if not _has_quant(c)]
    s = z3.Solver()
    s.set('timeout', self.feas_timeout_ms)
    s.add(*qf)
    if s.check() == z3.unsat:
      return False
    if len(qf) == len(st.pc) or not strong:
      return True
    s = z3.Solver()
    s.set('timeout', 300)
    s.set('smt.mbqi', False)
    s.add(*st.pc)
    return s.check() != z3.unsat

  def oblige(self, st, name, goal, node, desc):
    parts = _conjuncts(goal)
    if len(parts) > 1:
      for n, p in enumerate(parts):
        self._oblige1(st, '%s.%d' % (name, n), p, node, '%s [conjunct %d]' % (desc, n))
    else:
      self._oblige1(st, name, goal, node, desc)

  def _aspect_skips(self, desc):
    """In an aspect unit ('Func@aspect') the base contract's obligations are the base unit's business: they are
    assumed here, and only clauses the aspect adds (to this function or to a callee) are proved."""
    u = self.reg.functions.get(self.unit)
    if u is None or not u.aspect or not u.base_name:
      return False      # (a unit that merely *uses* an aspect of its callees proves everything itself)
    norm = lambda t: re.sub(r'[\\\'"\s]', '', t)
    d = norm(desc)
    for f in self.reg.functions.values():
      if f.aspect == u.aspect:
        for c in f.aspect_clauses:
          if norm(c) in d:
            return False
    return True

  def _oblige1(self, st, name, goal, node, desc):
    if self._aspect_skips(desc):
      st.assume(goal)
      self.aspect_assumed += 1
      return
    sb = simp_bool(goal)
    ob = Obligation(self.unit, name, desc, list(st.pc), goal, getattr(node, 'lineno', None), list(st.path))
    ob.choices = list(st.choices)
    # distinguish several occurrences of the same obligation on different paths
    n = self._ob_names.get(name, 0)
    self._ob_names[name] = n + 1
    if n:
      ob.name = '%s~%d' % (name, n)
    if sb is True:
      ob.status, ob.backend = 'proved', 'simplifier'
    self.obligations.append(ob)
    st.assume(goal)

  # ------------------------------------------------------------------ units
  def find_function(self, spec):
    if spec.ghost_fn:
      tree = ast.parse(spec.ghost_fn)
      fnode = tree.body[0]
      return fnode, None
    mod = self.src.module(spec.file)
    return mod.find(spec.path), mod

  def verify_unit(self, name):
    res = UnitResult(name)
    t0 = time.time()
    self.unit = name
    self.obligations = []
    self._ob_names = {}
    self.dropped = set()
    self.inlined = set()
    self.externs_used = set()
    self.contracts_used = set()
    self.yield_counter = {}
    try:
      self._verify(name, res)
    except (Unsupported, SourceError) as e:
      res.error = '%s: %s' % (type(e).__name__, e)
    res.obligations = self.obligations
    res.dropped = sorted(self.dropped)
    res.anchor_drift = list(self.anchor_drift)
    res.anchor_lines = dict(self.anchor_lines.get(name, {}))
    res.degraded = list(self.degraded)
    res.inlined = sorted(self.inlined)
    res.externs = sorted(self.externs_used)
    res.contracts = sorted(self.contracts_used)
    res.gen_time = time.time() - t0
    return res

  def _verify(self, name, res):
    spec = self.reg.functions.get(name)
    if spec is None:
      raise Unsupported('no sidecar entry for %s' % name)
    fnode, mod = self.find_function(spec)
    self.fnode_of[name] = fnode
    res.file = spec.file
    res.line = fnode.lineno
    res.source_hash = mod.hash_of(fnode) if mod is not None else 'ghost'
    self.keep_roots = set(spec.__dict__.get('keep', ()) or ())
    st = State()
    st.alloc = z3.Int('alloc0')
    st.assume(st.alloc >= 0)
    st.labels['old'] = {}
    params = {}
    argnames = [a.arg for a in fnode.args.args]
    if fnode.args.vararg:
      argnames.append(fnode.args.vararg.arg)
    if fnode.args.kwarg:
      argnames.append(fnode.args.kwarg.arg)
    for a in argnames:
      if a == 'self' and spec.cls and 'self' not in spec.params:
        ty = Ty('ref', (), spec.cls)
      elif a in spec.params:
        ty = spec.params[a]
      else:
        self.degraded.append('parameter %s of %s has no declared type: taken as an opaque value' % (a, name))
        ty = Ty('any')
      params[a] = self.fresh_val(st, ty, a)
    chain = []
    fid = 'F_' + name
    st.frames[fid] = params
    chain.append(fid)
    if spec.captures:
      cid = 'C_' + name
      st.frames[cid] = dict((k, self.fresh_val(st, t, k)) for k, t in spec.captures.items())
      chain.append(cid)
    st.entry_args = dict(params)
    if spec.captures:
      st.entry_args.update(st.frames[cid])
    cx = Ctx(mod, spec.cls if spec.cls else self._lexical_class(spec), chain, spec, name)
    entry = st.labels['old']
    entry['$alloc'] = st.alloc
    self.old_stack = [(entry, dict(st.entry_args))]
    # spec-only result placeholder not bound yet
    for bname, bexpr in (spec.buffers or {}).items():
      # initial (unread) content of a stream parameter, given as a byte expression over the parameters
      self.spec_depth += 1
      try:
        bv = self.ev1(self.parse_spec(bexpr), st, cx)
      finally:
        self.spec_depth -= 1
      target = params.get(bname) if bname in params else st.frames.get('C_' + name, {}).get(bname)
      st.bufs[self.buf_key(target)] = {'data': list(bv.py), 'rpos': 0, 'mark': len(bv.py), 'reading': True}
    for gname, g in self.reg.globals.items():
      gv = V(parse_type(g['type']), z3.Int('G_' + gname))
      st.assume(z3.And(gv.t > 0, gv.t <= st.alloc))
      if spec.cls or spec.file:
        for e in g.get('assume', ()):
          if any(gname in (r or '') for r in [spec.path]) or True:
            st.assume(self.spec_bool(st, cx, e))
    for r in spec.requires:
      st.assume(self.spec_bool(st, cx, r))
    for r in spec.entry_assume:
      st.assume(self.spec_bool(st, cx, r))
    conc = self.conc_of(cx)
    inv_in = list(conc.get('invariant', ())) if conc is not None else []
    for gname in spec.guar:
      for e in (self.reg.concurrency.get(gname) or {}).get('invariant', ()):
        if e not in inv_in:
          inv_in.append(e)
    for e in inv_in:
      st.assume(self.spec_bool(st, cx, e))
    if conc is not None or spec.guar:
      st.labels['seg'] = entry
    # cover check: the precondition must be satisfiable.  Models of quantified formulas are
    # expensive to find, so: refute-or-model the quantifier-free part, then try the full
    # condition under a short budget ('sat' = confirmed, 'unknown' = quantifier-free only).
    qf = [c for c in st.pc if not _has_quant(c)]
    c = z3.unknown
    for seed in (0, 1, 2, 3):      # 'unknown' here is solver noise (a timeout under load): try again with another seed
      s = z3.Solver()
      s.set('timeout', 30000)
      if seed:
        s.set('smt.random_seed', seed)
      s.add(*qf)
      c = s.check()
      if c != z3.unknown:
        break
    if c == z3.unsat:
      raise Unsupported('vacuous: precondition of %s is unsatisfiable' % name)
    res.cover = True if c == z3.sat else None
    if len(qf) != len(st.pc):
      s = z3.Solver()
      s.set('timeout', 3000)
      s.add(*st.pc)
      c2 = s.check()
      if c2 == z3.unsat:
        raise Unsupported('vacuous: precondition of %s is unsatisfiable' % name)
      res.cover_full = (c2 == z3.sat)
    self.entry_state_pc = list(st.pc)
    self.entry_params = dict(st.entry_args)
    modkeys = self.keys_of_patterns(spec.modifies)
    if spec.conc and spec.yields:
      # across a yield the shared state may be changed by others: no frame claim for it
      modkeys |= self.keys_of_patterns(list((self.reg.concurrency.get(spec.conc) or {}).get('state', ())))
    if spec.ghost_fn:
      self.ghost_depth += 1     # lemma functions may use prove()/assume() as proof steps
    try:
      outs = list(self.exec_block(fnode.body, st, cx))
    finally:
      if spec.ghost_fn:
        self.ghost_depth -= 1
    res.paths = len(outs)
    for s1, out in outs:
      kind, val = out
      if kind in ('ret', 'next'):
        res.exit_reached += 1
        rv = val if kind == 'ret' else NONE_V
        if spec.returns is not None and isinstance(rv, V):
          rv = self.cast_to(s1, rv, spec.returns)
        s1.frames[fid]['result'] = rv
        self.segment_end(s1, cx, fnode, 'exit')
        for lem in spec.lemmas:
          self.use_lemma(s1, cx, lem, fnode)
        for n, e in enumerate(spec.ensures):
          self.oblige(s1, 'post[%s#%d]' % (name, n), self.spec_bool(s1, cx, e), fnode, 'postcondition %r' % e)
        self.check_frame(s1, entry, modkeys, 'frame[%s]' % name, fnode)
        if not spec.allocates and s1.alloc is not entry['$alloc']:
          self.oblige(s1, 'no-alloc[%s]' % name, s1.alloc == entry['$alloc'], fnode, 'the function allocates nothing (allocates=False)')
        elif spec.allocates and spec.allocates != 'any' and s1.maybe_final:
          # decided syntactically: 'final' objects are created only by constructor calls in
          # repository code, or by callees declared allocates='any'
          self.oblige(s1, 'no-final-alloc[%s]' % name, z3.BoolVal(False), fnode,
                      "no instance of a 'final' class is created on this path (allocates=True)")
      elif kind == 'exc':
        exc = val
        allowed = None
        for k, d in spec.raises.items():
          if exc_is(exc.cls, k):
            allowed = d
            break
        line = getattr(exc.node, 'lineno', '?')
        if allowed is None:
          self.oblige(s1, 'no-%s@%s' % (exc.cls, line), z3.BoolVal(False), exc.node,
                      'no %s escapes (%s)' % (exc.cls, exc.desc))
        else:
          res.exit_reached += 1
          if allowed.get('when'):
            self.oblige(s1, 'raise-when[%s:%s]@%s' % (name, exc.cls, line),
                        self.spec_bool(s1, cx, 'old(%s)' % allowed['when']), exc.node,
                        '%s raised only when %s' % (exc.cls, allowed['when']))
          for n, e in enumerate(allowed.get('ensures', ())):
            self.oblige(s1, 'raise-post[%s:%s#%d]@%s' % (name, exc.cls, n, line), self.spec_bool(s1, cx, e), exc.node,
                        'on %s: %s' % (exc.cls, e))
          self.check_frame(s1, entry, modkeys, 'frame[%s]' % name, fnode)
      else:
        raise Unsupported('%s escapes the function body' % kind)
    for y in spec.yields:
      if (spec.name, y['at']) not in self.yield_hits:
        self.degraded.append('yield anchor %r not found in %s (source drift): its assertions were not checked' % (y['at'], name))
    resolved = set()
    am = self.anchor_maps.get(spec.name)
    if am is None and spec.ghost:
      am = self.anchor_maps[spec.name] = self.resolve_anchors(spec, fnode)
    if am is not None:
      for gl in am[0].values():
        for g0 in gl:
          resolved.add(g0.get('after', g0.get('before')).strip())
    for g in spec.ghost:
      a0 = g.get('after', g.get('before')).strip()
      if a0 in resolved:
        continue          # the anchored statement is there; if no feasible path reaches it there is nothing to attach
      if (spec.name, a0) not in self.ghost_hits:
        self.degraded.append('ghost anchor %r not found in %s (source drift): its ghost block was skipped' % (g.get('after', g.get('before')), name))
    if res.exit_reached == 0 and not spec.no_exit:
      raise Unsupported('vacuous: no feasible path reaches an exit of %s' % name)

  def _lexical_class(self, spec):
    parts = spec.path.split('.')
    for p in reversed(parts[:-1]):
      if p in self.reg.classes:
        return p
    return None

  def use_lemma(self, st, cx, text, node):
    """'lemma(args)': check the lemma's requires here, then assume its ensures.
    'k: lemma(args)': assume the universally closed contract  forall k. requires => ensures
    (the lemma itself is a unit verified by this engine)."""
    binders = []
    m = re.match(r'^\s*([A-Za-z_]\w*(?:\s*,\s*[A-Za-z_]\w*)*)\s*:\s*(.*)$', text, re.S)
    if m and '(' not in m.group(1):
      binders = [b.strip() for b in m.group(1).split(',')]
      text = m.group(2)
    call = self.parse_spec(text)
    if not (isinstance(call, ast.Call) and isinstance(call.func, ast.Name)):
      raise Unsupported('bad lemma use %r' % text)
    lname = call.func.id
    lspec = self.reg.functions.get(lname)
    if lspec is None or not lspec.ghost_fn:
      raise Unsupported('unknown lemma %s' % lname)
    fnode = ast.parse(lspec.ghost_fn).body[0]
    qfid = fresh_name('lq')
    qvars = [z3.Int(fresh_name(b)) for b in binders]
    st.frames[qfid] = dict((b, V(INT, x)) for b, x in zip(binders, qvars))
    acx = Ctx(cx.mod, cx.cls, [qfid] + list(cx.chain), cx.spec, cx.qual)
    self.spec_depth += 1
    try:
      args = [self.ev1(a, st, acx) for a in call.args]
    finally:
      self.spec_depth -= 1
    names = [a.arg for a in fnode.args.args]
    fid = fresh_name('lem')
    st.frames[fid] = dict(zip(names, args))
    lcx = Ctx(None, None, [fid], lspec, lname)
    self.contracts_used.add(lname)
    snap = dict(st.heap)
    snap['$alloc'] = st.alloc
    self.old_stack.append((snap, dict(st.frames[fid])))
    try:
      if not binders:
        for n, r in enumerate(lspec.requires):
          self.oblige(st, 'lemma-pre[%s#%d]' % (lname, n), self.spec_bool(st, lcx, r), node, 'lemma %s requires %r' % (lname, r))
        for e in lspec.ensures:
          st.assume(self.spec_bool(st, lcx, e))
      else:
        reqs = [self.spec_bool(st, lcx, r) for r in lspec.requires]
        enss = [self.spec_bool(st, lcx, e) for e in lspec.ensures]
        st.assume(z3.ForAll(qvars, z3.Implies(z3.And(*reqs) if reqs else z3.BoolVal(True), z3.And(*enss))))
    finally:
      self.old_stack.pop()
      st.frames.pop(fid, None)
      st.frames.pop(qfid, None)

  # ------------------------------------------------------------------ yields
  # Cooperative scheduling (DESIGN 2.9).  A CONCURRENCY entry of the sidecar gives, for the
  # shared state of one object: 'state' (heap patterns others may change while we are
  # descheduled), 'invariant' (one-state clauses over 'self') and 'guarantee' (two-state clauses
  # every atomic segment of every listed operation establishes; they must be reflexive and
  # transitive).  At a yield point: prove invariant + guarantee for the segment that ends,
  # havoc the shared state, assume invariant + guarantee (old = the state at the yield).
  def conc_of(self, cx):
    spec = cx.spec
    if spec is None or not spec.conc:
      return None
    c = self.reg.concurrency.get(spec.conc)
    if c is None:
      raise Unsupported('unknown CONCURRENCY entry %s' % spec.conc)
    return c

  def segment_end(self, st, cx, node, what):
    """Obligations at the end of an atomic segment (yield or exit)."""
    spec = cx.spec
    if spec is None or not spec.guar:
      return
    line = getattr(node, 'lineno', '?')
    conc = {'invariant': [], 'guarantee': []}
    for gname in spec.guar:
      c = self.reg.concurrency.get(gname)
      if c is None:
        raise Unsupported('unknown CONCURRENCY entry %s' % gname)
      conc['invariant'] += list(c.get('invariant', ()))
      conc['guarantee'] += list(c.get('guarantee', ()))
    for i, e in enumerate(conc.get('invariant', ())):
      self.oblige(st, 'conc-inv[%s:%s#%d]@%s' % (cx.qual, what, i, line), self.spec_bool(st, cx, e), node,
                  'shared-state invariant %r holds when the segment ends (%s)' % (e, what))
    seg = st.labels.get('seg')
    if seg is not None:
      self.old_stack.append((seg, self.old_stack[0][1]))
      try:
        for i, e in enumerate(conc.get('guarantee', ())):
          self.oblige(st, 'conc-guar[%s:%s#%d]@%s' % (cx.qual, what, i, line), self.spec_bool(st, cx, e), node,
                      'guarantee %r over the atomic segment ending at %s' % (e, what))
      finally:
        self.old_stack.pop()

  def at_yield(self, st, cx, node, ex):
    spec = cx.spec
    name = getattr(ex, 'name', '?')
    line = getattr(node, 'lineno', '?')
    if spec is None:
      raise Unsupported('yield point %s in code without a contract (line %s)' % (name, line))
    if cx.qual != spec.name:
      raise Unsupported('yield point %s inside inlined %s (line %s): give it a contract with may_yield' % (name, cx.qual, line))
    src = ast.unparse(node) if node is not None else ''
    ys = None
    for y in spec.yields:
      if y['at'] in src:
        ys = y
        break
    if ys is None:
      # a scheduling point the sidecar does not know (new code): the default treatment -- the segment ends here, other
      # greenlets may do anything their guarantees allow -- is an over-approximation
      self.degraded.append('yield point %s at line %s of %s has no yields entry (%s): default rely/guarantee treatment' % (name, line, cx.qual, src[:60]))
      ys = {'at': src[:30]}
    else:
      self.yield_hits.add((spec.name, ys['at']))
    if self.lock_depth:
      raise Unsupported('yield point %s inside a lock region (line %s)' % (name, line))
    key = ys['at'][:30]
    self.segment_end(st, cx, node, 'yield ' + key)
    for i, e in enumerate(ys.get('assert', ())):
      self.oblige(st, 'yield-assert[%s:%s#%d]@%s' % (cx.qual, key, i, line), self.spec_bool(st, cx, e), node,
                  'holds when yielding at %s: %r' % (name, e))
    conc = self.conc_of(cx) or {}
    snap = dict(st.heap)
    snap['$alloc'] = st.alloc
    self.havoc_patterns(st, list(conc.get('state', ())) + list(ys.get('havoc', ())))
    a = z3.Int(fresh_name('alloc'))
    st.assume(a >= st.alloc)
    st.assume(self.no_finals_between(st, st.alloc, a)) if not conc.get('allocates_final') else None
    st.alloc = a
    self.old_stack.append((snap, self.old_stack[0][1]))
    try:
      for e in list(conc.get('invariant', ())) + list(conc.get('guarantee', ())) + list(ys.get('rely', ())):
        st.assume(self.spec_bool(st, cx, e))
    finally:
      self.old_stack.pop()
    seg = dict(st.heap)
    seg['$alloc'] = st.alloc
    st.labels['seg'] = seg
    st.path.append('yield:%s@%s' % (key, line))
