"""C05: balancer membership equals the server set after any join/leave history."""
CLAIMED = True
UNITS = []
MIN_OBLIGATIONS = 2500
DESIGN_REF = 'DESIGN.md section 3, C05'
TECHNIQUE = ('deductive verification: two-way membership invariant between the server dictionary and the heap (ghost map endpoint -> node), '
             'membership-delta postconditions on the heap primitives as a separate contract aspect, rely/guarantee at the init-done wait; z3 + cvc5')
LEVEL_TEXT = ('For the heap balancer the invariant HeapMem -- every node in the heap carries a non-None endpoint that is a key of _servers, no two nodes share an endpoint, '
              'and every key of _servers has its node in the heap -- is verified to be established by the initial load and preserved by every function that touches that state: '
              'LoadBalancerSink.__AddServer / __RemoveServer / __OnServerSetJoin / __OnServerSetLeave / _OpenImpl (verified with self typed as HeapBalancerSink so the hook resolves to its '
              '_AddSink / _RemoveSink), _AddSink (exactly one new node with that endpoint joins), _RemoveSink (exactly the node with that endpoint leaves; an unknown endpoint changes nothing), '
              '_FindNodeByEndpoint (first-match semantics of the generator expression, now proved instead of trusted), Heap.Swap/FixUp/FixDown and __Get/__Put (membership of every node unchanged). '
              'Duplicate joins, leaves of unknown members and re-joins are the case splits of these contracts (all inputs). Join/leave handlers are proved to act only after the init-done event is set, '
              'and _OpenImpl sets it only after every initially listed member is installed.')
LEVEL_NOTE = ('Both balancers: the heap-balancer units, and the same handlers verified with self typed as the aperture balancer (active + idle halves; units *@ap and ApertureBalancerSink._AddSink/_RemoveSink/_TryExpandAperture/_ContractAperture, shared with C06). Per-call and per-notification statement; "any history" follows by induction over notifications because '
              'each handler is verified from the invariant to the invariant. Not machine-checked as one obligation: that dispatch-path functions run concurrently with a loading _OpenImpl never change the size '
              '(LoadBalancerSink.AsyncProcessRequest defers dispatch until the open result is ready: C12 unit). _OpenInitialChannels and _OpenNode are verified (they start opens and touch no membership state), '
              'the server-set provider delivers notifications serially, properties dict copy/update dropped.')
ASSUMPTIONS = ['notifications are delivered serially by the server-set provider', 'no request is dispatched while the initial list is loading (C12: deferred until the open result is ready)',
               'member endpoints are not None']
TRUSTED = []
BOUNDED = []
