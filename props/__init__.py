"""Per-property unit lists, assumptions and trusted base."""
