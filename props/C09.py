"""C09: failed endpoints fail fast and are used again once reachable."""
CLAIMED = True
UNITS = []
MIN_OBLIGATIONS = 90
DESIGN_REF = 'DESIGN.md section 3, C09'
TECHNIQUE = 'deductive verification: resurrector invariant (down => no underlying sink), back-off loop invariant, rely/guarantee at the sleeps; z3'
LEVEL_TEXT = ('ResurrectorSink is verified against the invariant "while the down mark is set there is no underlying sink": a request is forwarded only while up and otherwise answered with the fail-fast error; '
              'the fault handler marks the sink down, closes and unsubscribes the underlying sink once, starts one retry loop, always propagates the signal, and is idempotent while down; '
              'the retry loop keeps its wait between the initial and the maximum interval and proves each new wait >= the previous one (growing, capped back-off), makes one connect attempt per iteration, '
              'and on success installs the fresh sink and clears the down mark; Close kills the retry greenlet and clears the mark. The balancer side (a down-marked member whose channel reads Open is restored on the next dispatch) is C03\'s __Get.'
              ' Every outage (the first and each later one) starts exactly one retry loop (ghost spawn counter), the fault handler is unsubscribed from the sink that died, and Close unsubscribes it from the sink it closes (ghost subscription count on the underlying observable), so a fault still on its way after Close cannot start a retry loop.')
LEVEL_NOTE = ('Trusted: pyvc encoding (reals), z3; of x**e only: positive for positive x, and x**e > x for x > 1, e > 1; gevent.sleep / AsyncResult.get are the only scheduling points; Greenlet.kill raises GreenletExit at the loop\'s current yield (the sleep or the wait for the connect) and the loop is proved never to enter its close-and-retry handler with it, '
              'so no connect attempt follows Close. The balancer side of "used again" (HeapBalancerSink.__Get unlinks a recovered member from the down list and keeps every other down member on it) is checked here with the C03 contract. Not proved: "resumes within one maximum retry interval" (a timed liveness statement over the fault history). Stated configuration range: initial wait > 1, exponent > 1, max >= initial (the defaults 5 / 1.2 / 60).')
ASSUMPTIONS = ['initial_wait_interval > 1, backoff_exponent > 1, max_wait_interval >= initial (outside it the back-off would not grow)', 'kill surfaces as GreenletExit at the current yield (gevent.sleep or AsyncResult.get)']
TRUSTED = []
BOUNDED = []
