"""C17: async combinators resolve correctly for every completion order."""
CLAIMED = True
UNITS = []
MIN_OBLIGATIONS = 90
DESIGN_REF = 'DESIGN.md section 3, C17'
TECHNIQUE = 'deductive verification: callback-step invariants over ghost completion sets (every order = every sequence of callback steps), comprehension encoded by an order-preserving index map; z3'
LEVEL_TEXT = ('The link callbacks of WhenAll and WhenAny are verified as steps that preserve an invariant from any state satisfying it, so every completion order and every subset already complete at call time is covered by induction over the steps. '
              'WhenAll: the countdown equals n minus the recorded successes, recorded values are the inputs\' values in input order, the result is failed exactly when some completed input failed (as soon as it does) and succeeds with the ordered list exactly when all n succeeded. '
              'WhenAny (taken from the statement): succeeded exactly when some input has succeeded, with the first such value and never changed afterwards; failed exactly when all n inputs are done and none succeeded. '
              'The call-time shortcut of WhenAny is verified against the same statement (it may return an input only if that input succeeded).'
              ' ContinueWith\'s continuation body completes its result exactly once whatever the callback does -- return, raise an Exception, or raise one of gevent\'s BaseException-only exceptions (Timeout, GreenletExit) -- and lets nothing escape; Map\'s continuation applies the function only to a successful value and passes a failed source on unchanged, deciding when the source has completed.')
LEVEL_NOTE = ('Trusted: pyvc encoding, z3; gevent runs each input\'s link once, after that input completed (stated as the callbacks\' precondition, with the counting fact "fewer than n links have run before this one"); '
              'set()/set_exception() overwrite (gevent semantics, assumed contracts). Unwrap/_UnwrapHelper, ContinueWith and Map are not under contract in this version; n = 0 (never resolves) is outside the claim.')
ASSUMPTIONS = ['each link callback runs once per input, after the input completed', 'input results do not change after completion']
TRUSTED = []
BOUNDED = []
