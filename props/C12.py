"""C12: timed-out calls are never transmitted afterwards; sent ones are discarded."""
CLAIMED = True
UNITS = []
MIN_OBLIGATIONS = 300
DESIGN_REF = 'DESIGN.md section 3, C12'
TECHNIQUE = 'deductive verification: one contract per hop of the request path with the precondition "the caller has been handed TimeoutError" (the timed-out event is set / the deadline has been reached); z3'
LEVEL_TEXT = ('Per hop, from the current source: the timeout sink answers an already expired call without forwarding it and raises the timed-out event before posting TimeoutError; '
              'the balancer\'s open gate drops a request whose event is set when the open completes; the pool\'s queue processor passes over waiters whose call has completed; '
              'the serial transport writes nothing once the deadline has been reached (now >= deadline); the mux send path (_HandleTimeout) drops a queued frame exactly when the event is set and gives back its tag, '
              'and otherwise arms a one-shot handler that, on timeout, enqueues a discard for that tag without releasing it; the discard body is u24(tag) ++ utf8(reason) (C13).')
LEVEL_NOTE = ('Trusted: pyvc encoding, z3; Observable delivers one-shot callbacks once; "TimeoutError is delivered only after the event is set / not before the deadline" is C01+C10. '
              '_CreateDiscardMessage (serializer construction) is an assumed contract; partial writes inside sendall and a discard sent after a re-open naming a tag of the old connection are out of scope.')
ASSUMPTIONS = ['the peer does not answer a tag before the request carrying it was written']
TRUSTED = []
BOUNDED = []
