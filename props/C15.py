"""C15: Kafka produce requests and responses are well-formed for every input."""
CLAIMED = True
UNITS = []
MIN_OBLIGATIONS = 50
DESIGN_REF = 'DESIGN.md section 3, C15 and section 2.10'
TECHNIQUE = 'deductive verification with the byte-string algebra; zlib.crc32 as an uninterpreted function with the chaining law built in; z3'
LEVEL_TEXT = ('For every topic, partition, acks value and payload list the bytes written by _SerializeProduceRequest are proved equal to the Kafka v0 image written in the sidecar: '
              'i16(acks) i32(1000) i32(1) string(topic) i32(1) i32(partition) i32(set size), then per payload i64(0) i32(14+len p) u32(crc32 of magic/attributes/key/value) magic 0, attributes 0, key length -1, i32(len p), p; '
              'the declared set size is the sum over the payloads of 8+4+4+len(p)+10 and that summand is proved equal to the number of bytes written for the message; '
              'the request header = i32(16+n) i16(api) i16(0) i32(correlation id) i16(6) "scales" without struct.error for any value in range; '
              'the produce-response decoder returns, entry by entry, exactly topic/partition/error/offset of the encoded entry; a reply is routed by the correlation id in its first four bytes.'
              ' KafkaSerializerSink.AsyncProcessRequest is verified to serialize every request into a buffer created for it and to forward that buffer holding exactly the bytes the protocol wrote (the transport frames stream.getvalue()); the produce response decoder reads partition/error/offset as signed big-endian fields.')
LEVEL_NOTE = ('Trusted: pyvc byte algebra, z3; struct; zlib.crc32 uninterpreted (range [0,2^32), crc32(b, crc32(a)) = crc32(a++b)); MessageHelper.GetPutArgs (argument unpacking through *args) is an assumed contract; '
              'the response stream is unfolded one repetition element per loop iteration (stream_front = the precondition "the stream is the broker\'s encoding"); the fold "sum of per-message sizes = bytes of the set" is the loop itself. '
              'Metadata responses (ReadInt32Array with a computed struct format) and _SerializeMetadataRequest are not under contract in this version. Stated ranges: struct field ranges (int16 topic length/acks, int32 sizes).')
ASSUMPTIONS = ['crc32 axioms', 'sizes within the struct field ranges']
TRUSTED = []
BOUNDED = []
