"""C02: a call only ever receives the reply to its own request."""
CLAIMED = True
UNITS = []
MIN_OBLIGATIONS = 300
DESIGN_REF = 'DESIGN.md section 3, C02'
TECHNIQUE = 'deductive verification: tag routing contracts over the mux tag map + serial transport single-in-flight / connection-epoch ghost; z3'
LEVEL_TEXT = ('Multiplexed: the tag written in the frame header is the key under which the call\'s stack is registered (and the value of the message\'s tag property); a tagged reply is delivered to the stack registered under that tag and to no other, '
              'and a frame for a tag nobody waits for is delivered to nobody and changes nothing; ReadHeader inverts _BuildHeader on the tag; with C11 (a leased tag is carried by no other unanswered request) a reply frame tagged t reaches the unique request written with t. '
              'Serial: a request arriving while one is in flight is rejected without writing; after a timeout the connection is closed (epoch advanced) before the slot is freed, so a late reply cannot be read by the next request; '
              'the reply handed to the stack is the body read after that request\'s own write.'
              ' ThriftMuxMessageSerializerSink.AsyncProcessRequest marshals every call into a buffer of its own and forwards that buffer holding exactly this call\'s bytes, so a request parked in the transport cannot go out with another call\'s payload.')
LEVEL_NOTE = ('Trusted: pyvc encoding, z3; the peer answers a tag at most once per connection and on the connection it was asked on; Thrift encodes/decodes faithfully; '
              'the proxy/dispatcher pass (method, args, kwargs) through unchanged is C20 (not yet under contract); pool exclusivity ("never lent twice") is C07.')
ASSUMPTIONS = ['peer answers on the connection it was asked on']
TRUSTED = []
BOUNDED = []
