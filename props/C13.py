"""C13: ThriftMux frames are byte-exact for every message, tag and context."""
CLAIMED = True
UNITS = []
MIN_OBLIGATIONS = 150
DESIGN_REF = 'DESIGN.md section 3, C13 and section 2.10'
TECHNIQUE = 'deductive verification with a byte-string algebra (concatenation normal form over big-endian integer atoms and opaque raw atoms; struct formats interpreted from the literal format strings in the source); z3'
LEVEL_TEXT = ('Byte strings built by struct.pack / BytesIO.write in the real functions are compared atom by atom with the wire image written in the sidecar from the mux protocol description, for all tags, types, lengths and texts: '
              '_BuildHeader = i32(4+n) ++ i8(type) ++ u24(tag) (three single bytes merged arithmetically into the 24-bit tag); the frame queued by the mux transport = that header for len(body) followed by exactly the body; '
              'ReadHeader inverts the writer for every type in [-128,127] and tag in [0,2^24); a discard body = u24(tag) ++ utf8(reason); a dispatch body = context block ++ i16(0) ++ i16(0) ++ thrift call, '
              'the context being the public properties overlaid with the headers, each key and value preceded by its exact UTF-8 byte length and a Deadline written as 16 bytes of two int64. struct.error / TypeError are obligations, not crashes.'
              ' The serializer sink forwards a fresh buffer per call (see C02); a ping is queued for the send loop and never written to the socket by the ping sender itself.')
LEVEL_NOTE = ('Trusted: pyvc byte algebra (pyvc/bytesalg.py), z3; struct\'s big-endian fixed-width packing as encoded there; str.encode(\'utf-8\') as an opaque function with len(utf8(s)) >= len(s); '
              'the Thrift call bytes are opaque (C14); Message.public_properties is taken as a given dictionary (its comprehension is not verified); the per-entry claims of the context loop are per iteration, '
              'the concatenation over the dictionary\'s iteration order is the loop itself; _ReadContext/_Unmarshal_Rdispatch (reply side) are not under contract in this version. Stated ranges: every text <= 32767 UTF-8 bytes, <= 32767 entries, int64 deadlines.')
ASSUMPTIONS = ['texts are at most 32767 UTF-8 bytes and a context has at most 32767 entries (16-bit length fields)', 'Thrift payload opaque']
TRUSTED = []
BOUNDED = []
