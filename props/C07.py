"""C07: the watermark pool bounds concurrency, queues FIFO and never leaks capacity."""
CLAIMED = True
UNITS = []
MIN_OBLIGATIONS = 250
DESIGN_REF = 'DESIGN.md section 3, C07'
TECHNIQUE = 'deductive verification: pool accounting invariant with a ghost lent-set, rely/guarantee at the yield in _Get, spawned-greenlet entry point with invariant-only precondition; z3'
LEVEL_TEXT = ('_Dequeue, _Get, _Release, _ProcessQueue, _DiscardSink and the queuing sink are verified against the invariant '
              '"_current_size = |lent| + |cache| <= max_watermark, cached connections are distinct, real and not lent, waiters <= max_queue_len": '
              '_Get lends a cached connection that was not lent, creates one only below the high watermark (the count is raised before the yield, so the invariant holds while the connection opens), '
              'queues only at the high watermark with room, and fails only when pool and queue are full -- with an exception factory that is actually callable; '
              '_Release hands the connection on, caches it only at or below the low watermark, or closes and un-counts it; '
              '_ProcessQueue, whose only precondition is the invariant and ownership of the connection, raises nothing, passes over only waiters whose call has already completed, serves the earliest remaining one, and releases the connection when nobody waits.'
              ' _Release with somebody waiting hands the connection to a queue-processing greenlet (it stays lent; it is neither cached nor closed), whatever the state of the waiter at the head of the queue; WatermarkPoolSink.__init__ establishes the accounting invariant.')
LEVEL_NOTE = ('Trusted: pyvc encoding, z3; gevent switches only at Open().wait(); "a connection stays lent while the request it is lent to waits for it to open" (ownership) is a stated rely; '
              'provider CreateSink / sink Open/Close as assumed contracts; WatermarkPoolSink.Close (list-comprehension loops failing every waiter) is an assumed contract, not yet a verified unit; '
              '"started as soon as a connection is released" is the spawn in _Release, its scheduling is liveness.')
ASSUMPTIONS = ['only the request a connection is lent to gives it back', 'other greenlets touch the pool only through the verified operations (CONCURRENCY["Watermark"])']
TRUSTED = []
BOUNDED = []
