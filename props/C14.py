"""C14: framed Thrift calls and replies agree with the Thrift library's own codec."""
CLAIMED = True
UNITS = []
MIN_OBLIGATIONS = 150
DESIGN_REF = 'DESIGN.md section 3, C14'
TECHNIQUE = 'deductive verification: byte algebra for the framing, an unbounded loop invariant over stream slices for chunk independence, path enumeration of the reply mapping; z3'
LEVEL_TEXT = ('Framing: the bytes handed to the transport are the 4-byte big-endian length followed by exactly the serialized payload, and the reply body handed on has exactly the announced length. '
              'Chunk independence: ScalesSocket.readAll is proved, with the loop invariant "buffer = stream[p0 : p0+have]", to return the next sz bytes of the stream for every sequence of chunk sizes recv may return (EOFError on a zero-length chunk). '
              'Reply mapping (DeserializeThriftCall, from the statement): an EXCEPTION message yields the application exception as the error; a set success field yields it as the return value; a set declared exception yields it as the error; '
              'a void result (result class without a success field, nothing set) yields None without error; a result with a success field and nothing set is reported as an error, never as a return value.'
              ' The reply mapping is stated as five postconditions of DeserializeThriftCall rather than as assertions at individual return statements: an EXCEPTION message yields the application exception as error with a recorded stack (which is what makes the dispatcher wrap it); a set success value is the return value; otherwise a set declared exception is the error, for void and non-void methods alike; nothing set yields None without error for a void method and a missing-result error otherwise; no result class yields an empty reply.'
              ' The dispatcher side of it, _AsyncResponseSink._WrapException, is verified too: a timeout is handed over as it is, any other error is wrapped in ScalesError carrying it as inner exception exactly when a stack was recorded.')
LEVEL_NOTE = ('Trusted: pyvc encoding and byte algebra, z3; the generated result classes and the Thrift protocol objects are abstract externs (read/readMessageBegin may raise; a result instance has a success attribute unless the method is void); '
              'the loop over thrift_spec[1:] is an opaque iteration with reflective getattr. Byte-level agreement with the Thrift library\'s server-side processor (C-accelerated codec) is assumed, not proved. '
              'Not under contract in this version: VarzSocketWrapper.readAll (bytearray/memoryview variant of the same loop), SerializeThriftCall\'s call sequence, _WrapException.')
ASSUMPTIONS = ['Thrift library encode/decode faithful', 'recv returns between 0 and the requested number of the next bytes of the stream']
TRUSTED = []
BOUNDED = []
