"""C20: generated proxies forward faithfully; URI parsing yields exactly the listed endpoints."""
CLAIMED = True
UNITS = []
MIN_OBLIGATIONS = 60
DESIGN_REF = 'DESIGN.md section 3, C20'
TECHNIQUE = 'deductive verification: contract on the generated proxy closure (ghost record of what the dispatcher received), loop invariant over the endpoint list with split() as uninterpreted part functions, scheme dispatch through the handler table; z3'
LEVEL_TEXT = ('The closure every generated method is made of (_ProxyMethod, both forms) is verified to make exactly one DispatchMethodCall with the captured method name and its own positional and keyword arguments unchanged; '
              'the _async form returns that very AsyncResult, the blocking form returns/raises what its get() does. ScalesUriParser.__init__ is verified to install exactly the keys {tcp, zk} bound to the two handlers; '
              'Parse (for every URI) raises for any other lower-cased scheme and otherwise returns the matching handler\'s result; _HandleTcp returns a provider whose server list has one entry per comma-separated part, '
              'in order, with host = part-before-colon and port = int(part-after-colon); _HandleZooKeeper passes netloc, path and the fragment (None when empty) to ZooKeeperServerSetProvider.')
LEVEL_NOTE = ('Strings are opaque: s.split(sep) is a list of uninterpreted parts split_part(s, sep, k), k < split_count(s, sep), with more than one part exactly when sep occurs in s; int() and lower() are uninterpreted; '
              'urlparse / ParseResult are trusted to carry the six components. Not under contract: _BuildServiceProxy\'s reflection (inspect.getmembers, is_user_method, the two dict comprehensions and type()): '
              'that each public method gets both forms is checked only by the existing unit test; MessageDispatcher.DispatchMethodCall itself is C01.'
              ' BOUNDED, not proved: that the generated class has a blocking and an _async proxy for own, underscore-prefixed, inherited and timeout-named methods and that each forwards five argument shapes unchanged -- run on every check on the real _BuildServiceProxy with a recording dispatcher.')
ASSUMPTIONS = ['python str.split / int / lower semantics as uninterpreted functions with the stated axioms', 'inspect / type() class generation not modelled']
TRUSTED = []
BOUNDED = [dict(name='generated-class-has-both-forms-of-every-user-method', replay_unit='ClientProxyBuilder._BuildServiceProxy.ProxyMethod._ProxyMethod',
                bound='one interface with own, underscore-prefixed, inherited and timeout-named methods; 5 argument shapes; both forms; real _BuildServiceProxy with a recording dispatcher')]
