"""C08: transports fail in-flight requests once and report dead connections."""
CLAIMED = True
UNITS = []
MIN_OBLIGATIONS = 800
DESIGN_REF = 'DESIGN.md section 3, C08'
TECHNIQUE = 'deductive verification with exceptional-path enumeration (every extern I/O call that may raise or be interrupted forks a path) and rely/guarantee at the blocking calls of the mux loops; z3'
LEVEL_TEXT = ('Serial Thrift transport: for a raise / EOF / timeout at each I/O call site (write, prefix read, body read, close, re-open) no exception escapes the transaction, the in-flight slot is freed on every exit, '
              'the caller\'s stack receives exactly one message or the reply greenlet is spawned (never both), a fault closes the transport and raises the fault signal unless it was already closed, a failed re-connect after a timeout faults the transport, '
              'and a transport that does not report itself closed is connected; _OpenImpl failure closes and faults; _Fault is idempotent. '
              'Multiplexed transport: _Shutdown on an active transport sets Closed, closes the socket, raises the fault signal iff asked, posts one error into every stack of the tag map and empties it, and does nothing when already closed; '
              '_SendLoop and _RecvLoop end in _Shutdown on any exception (error or end-of-stream at either read, error at the write); the ping timeout helper shuts the connection down unless a successful ping reply arrived; '
              'a ping travels through the send queue (the send loop is the only writer).'
              ' Added later: SocketTransportSink._PingLoop (every round that finds the transport active sends a ping, whatever is queued), so a silent peer is always met by the ping timeout.')
LEVEL_NOTE = ('Trusted: pyvc encoding, z3; socket externs (open/close/write/readAll may raise; cannot succeed on a closed handle; a gevent Timeout may surface only in the serial transport\'s calls); Greenlet.kill; '
              'other greenlets change a mux transport only through the verified operations (CONCURRENCY["Mux"]). Not proved: that the ping loop keeps running (liveness); mux _OpenImpl/_CheckInitialConnection are not yet units.')
ASSUMPTIONS = ['socket I/O externs as listed; ScalesSocket.open itself is verified (a failed open leaves no handle, so isOpen() is false) against gevent socket connect/close contracts', 'Open() is issued on a transport that has not been closed']
TRUSTED = []
BOUNDED = []
