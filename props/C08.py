"""C08: transports fail in-flight requests once and report dead connections."""
CLAIMED = True
UNITS = []
MIN_OBLIGATIONS = 150
DESIGN_REF = 'DESIGN.md section 3, C08'
TECHNIQUE = 'deductive verification with exceptional-path enumeration: every extern I/O call that may raise (or be interrupted by the gevent timeout) forks a path; z3'
LEVEL_TEXT = ('The serial Thrift transport is verified for a raise / EOF / timeout at each of its I/O call sites (write, 4-byte prefix read, body read, close, re-open): no exception escapes the transaction, '
              'the in-flight slot is freed on every exit, the caller\'s stack receives exactly one message or the reply greenlet is spawned (never both), a fault closes the transport and raises the fault signal unless it was already closed, '
              'a failed re-connect after a timeout faults the transport, and a transport that does not report itself closed is connected. _OpenImpl failure closes and faults; _Fault is idempotent; Close frees the slot. '
              'The request handed to the transaction is the 4-byte length prefix plus the payload, and a second request while one is in flight is rejected without writing.')
LEVEL_NOTE = ('Trusted: pyvc encoding, z3; socket externs (open/close/write/readAll may raise; write/readAll cannot succeed on a closed handle; the gevent Timeout may surface at write/readAll). '
              'I/O calls are treated as atomic with respect to other greenlets (a Close() from another greenlet during I/O kills this greenlet; not modelled). '
              'The multiplexed transport\'s _Shutdown/_SendLoop/_RecvLoop and the ping timeout are not under contract in this version (mux part of C08 not claimed).')
ASSUMPTIONS = ['socket I/O externs as listed', 'Open() is issued on a transport that has not been closed']
TRUSTED = []
BOUNDED = []
