"""C11: mux tags are unique, unreserved and recycled safely."""
CLAIMED = True
UNITS = []
MIN_OBLIGATIONS = 50
DESIGN_REF = 'DESIGN.md section 3, C11'
TECHNIQUE = 'deductive verification: TagPool invariant with a derived "leased" view, release precondition checked at every call site, z3/cvc5'
LEVEL_TEXT = ('TagPool.get/release and the mux sink functions that touch tags are verified against contracts stated over the view '
              'leased(t) = 2 <= t <= high-water mark and t not in the free set: get returns a tag in [2, 2^24-2] that was not leased and reuses a released one when there is one; '
              'release requires a leased tag, and every call site must establish that, with the tag coming off the wire unconstrained.'
              ' A ghost flag on the message properties records that the frame has been handed to the socket: _HandleTimeout (which may give the tag back) requires it unset, so the timeout decision that can release a tag is the one taken before the write; the send loop is part of this check.')
LEVEL_NOTE = 'Trusted: pyvc encoding, z3/cvc5, python set semantics as encoded (set.pop returns an arbitrary member), extern contracts listed in the evidence.'
ASSUMPTIONS = ['delivering a reply up a call\'s sink stack does not synchronously re-enter the transport (singleton pool above the mux transport)']
TRUSTED = []
BOUNDED = []
