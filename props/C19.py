"""C19: the ZooKeeper server set reports exactly the membership changes that occurred."""
CLAIMED = True
UNITS = []
MIN_OBLIGATIONS = 20
DESIGN_REF = 'DESIGN.md section 3, C19'
TECHNIQUE = 'deductive verification incl. the CPython rule that a dictionary must not change size while iterated, and exceptional paths of the consumer callback; z3'
LEVEL_TEXT = ('ServerSet._send_all_removed (deletion of the watched path) is verified: afterwards no member is held, the cached child names are reset (so members re-created under a re-created path are announced again), '
              'the loop iterates a dictionary that nothing mutates (the RuntimeError obligation is discharged), and an exception raised by the consumer\'s on_leave is caught for every member, so it does not stop later notifications.')
LEVEL_NOTE = ('Trusted: pyvc encoding, z3; Kazoo DataWatch/ChildrenWatch deliver callbacks serially with the current stat / child list. Only this function of the C19 mechanism is under contract in this version: '
              'the children diff (_on_set_changed: set(comprehension) over a filter callable), the notification worker (generator expressions over ZooKeeper reads) and _data_changed are not yet verified units, '
              'so "joins and leaves applied in order leave the consumer with exactly the current members" is claimed for the path-deletion case only.')
ASSUMPTIONS = ['Kazoo watch semantics', 'dictionary iteration visits every entry exactly once']
TRUSTED = []
BOUNDED = []
