"""C19: the ZooKeeper server set reports exactly the membership changes that occurred."""
CLAIMED = True
UNITS = []
MIN_OBLIGATIONS = 20
DESIGN_REF = 'DESIGN.md section 3, C19'
TECHNIQUE = 'deductive verification incl. the CPython rule that a dictionary must not change size while iterated, and exceptional paths of the consumer callback; z3'
LEVEL_TEXT = ('ServerSet._send_all_removed (deletion of the watched path): afterwards no member is held, the cached child names are reset (so members re-created under a re-created path are announced again), '
              'every previously announced member gets exactly one leave notification and a raising consumer callback stops nothing. '
              '_on_set_changed (children callback): the child-name cache becomes the filtered listing and exactly (listed now and not before, listed before and not now) is queued for the worker, for every listing. '
              '_get_info / _safe_zk_node_to_member: reading a member touches no ServerSet state (frame condition: the name cache and the member cache are written only by the children callback, the worker and _send_all_removed); a node deleted in between reads as None. '
              '_notification_worker: a departed member is removed from the member cache before its leave callback runs (a raising callback leaves nothing behind, no second leave later), one notification per departed/joined member, no consumer exception ends the loop.'
              ' The worker is verified under interference: whenever it is descheduled (queue get, callback blocker, ZooKeeper reads) the member and child-name caches may have been replaced by the children callback or the path-deleted handler, so a cache reference taken before a read must not be used after it.')
LEVEL_NOTE = ('Trusted: pyvc encoding, z3; Kazoo DataWatch/ChildrenWatch deliver callbacks serially with the current stat / child list; _zk_nodes_to_members (a list comprehension over a nested generator) has an assumed contract -- its only callee with effects is verified. '
              'Not under contract: __iter__/get_members, _monitor/_data_changed/_begin_watch (watch registration), the agreement of the consumer view with the actual znode tree over a whole history (needs Kazoo\'s delivery semantics).')
ASSUMPTIONS = ['Kazoo watch semantics', 'dictionary iteration visits every entry exactly once']
TRUSTED = []
BOUNDED = []
