"""C03: dispatch goes to a least-loaded open member (heap and aperture balancers)."""
UNITS = []   # every FUNCTIONS entry with 'C03' in props is added automatically
MIN_OBLIGATIONS = 60
ASSUMPTIONS = [
  'floats/ints: loads are python ints (exact)',
  'reading channel.state has no side effect and does not yield; opening/closing one channel leaves other channels unchanged within an atomic segment',
  'termination of HeapBalancerSink.__Get is not proved',
]
TRUSTED = []
BOUNDED = []
