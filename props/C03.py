"""C03: dispatch goes to a least-loaded open member (verified for the heap balancer)."""
CLAIMED = True
UNITS = []   # every FUNCTIONS entry with 'C03' in props is added automatically
MIN_OBLIGATIONS = 600
DESIGN_REF = 'DESIGN.md section 3, C03'
TECHNIQUE = 'deductive verification: contracts + loop invariants on the real heap.py functions, VCs from the ast, z3/cvc5'
LEVEL_TEXT = ('Every obligation generated from the current source of Heap.Swap/FixUp/FixDown and HeapBalancerSink.__Get/__Put/_AddSink/_RemoveSink/'
              '_AsyncProcessRequestImpl against the sidecar contracts is discharged by an SMT solver, for all heap sizes, loads and random draws: '
              'the heap invariant (shape, index bijection, order, node universe, load encoding, down list) is established and preserved by every operation, '
              'and the dispatch point proves from it that the chosen member is a minimum of the (load,index) order, is open unless every member is marked down, '
              'and has the fewest outstanding requests among up-marked members.')
LEVEL_NOTE = ('Trusted: the pyvc encoding of python (DESIGN 2.4), z3/cvc5, assumed contracts of externs (random.randint, channel Close/AsyncProcessRequest, channel factory), '
              '(_FindNodeByEndpoint, _OpenNode and its completion callback are proved, no longer assumed). SCOPE: the hooks _OnGet/_OnPut/_OnNodeDown are taken by a behavioural contract weak enough for both balancers (heap invariant kept; outstanding counts, loads, endpoints, channels and the down list of existing nodes untouched; '
              'no up-marked member that holds requests is closed; members may be added or retired). HeapBalancerSink\'s own hooks are verified against it here; the ApertureBalancerSink overrides are verified against the same clause list by the C06 check '
              '(which also re-verifies __Get/__Put/_AsyncProcessRequestImpl under the aperture invariant), so the result holds for both balancers. '
              'Not proved: termination of __Get; that every down-marked member is on the down list (completeness of the resurrection scan); fewer than 2^31-3 outstanding requests per member is assumed.')
ASSUMPTIONS = [
  'loads are python ints (exact arithmetic)',
  'reading channel.state has no side effect and does not yield; closing or creating one channel leaves the observable state of the others unchanged within an atomic segment',
  'termination of HeapBalancerSink.__Get is not proved',
  'completeness of the down list (every member with load >= 0 is linked) is not yet under contract: "not open is chosen only when no member is open" is proved in the form "open unless every member is marked down"',
  'assume(n.g_out < 2147483645) at dispatch: fewer than 2^31-3 outstanding requests per member',
  'the Node universe is per balancer instance (nodes are created only by _AddSink of this instance); HeapBalancerSink.__init__ is verified to establish the invariant from "no node exists yet"',
]
TRUSTED = []
BOUNDED = []
