"""C06: aperture keeps a partitioned, bounded, load-tracking active subset -- not claimed."""
CLAIMED = False
NA_REASON = ('Not claimed. The aperture balancer overrides the hooks _OnGet/_OnPut/_OnNodeDown with code that adds and removes heap members '
             'inside __Get/__Put; that violates the hook contracts (positions unchanged, size not decreasing) under which __Get/__Put/_AsyncProcessRequestImpl '
             'are verified for C03/C04, so the partition and bound clauses need those functions re-verified under a weaker hook contract plus contracts for '
             '_TryExpandAperture/_ContractAperture/_AdjustAperture (an exponential moving average over a clock) and _Jitter -- not done. '
             'The convergence sentence ("the per-member load settles inside the band or the size is pinned") is a limit/liveness statement over traffic histories '
             'that no pre/postcondition or invariant expresses; contract-based deductive verification does not apply to it. See DESIGN.md 9.6.')
