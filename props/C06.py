"""C06: aperture keeps a partitioned, bounded, load-tracking active subset -- not claimed."""
CLAIMED = False
NA_REASON = ('Not claimed. In place: the hook contracts of _OnGet/_OnPut/_OnNodeDown were weakened to what an aperture adjustment can do and C03/C04 re-proved under them; _AddSink/_RemoveSink carry membership-delta postconditions. '
             'Missing: contracts and proofs for the aperture\'s own functions (_AddSink/_RemoveSink overrides, _TryExpandAperture, _ContractAperture, _AdjustAperture with its moving average over a clock, the three hook overrides, _Jitter) '
             'against the partition invariant and the bound clauses. The convergence sentence ("the per-member load settles inside the band or the size is pinned") is a limit statement over traffic histories '
             'that no pre/postcondition or invariant expresses; contract-based deductive verification does not apply to it. See DESIGN.md 9.6.')
