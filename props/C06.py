"""C06: aperture keeps a partitioned, bounded, load-tracking active subset."""
CLAIMED = True
UNITS = []
MIN_OBLIGATIONS = 3000
DESIGN_REF = 'DESIGN.md section 9.6 (C06)'
TECHNIQUE = ('deductive verification: partition invariant between the heap (active) and the idle set with a ghost endpoint->node map, bound and direction postconditions on the adjustment, '
             'hook overrides against the balancer\'s behavioural hook contract, inherited dispatch functions re-verified under the aperture invariant (contract aspect); z3 + cvc5')
LEVEL_TEXT = ('Partition: the invariant "no endpoint is both idle and active, no endpoint has two nodes, every key of the server table is idle or has its node in the heap, and every idle or active endpoint is a key of the server table" '
              'is verified to be preserved by ApertureBalancerSink._AddSink, _RemoveSink, _TryExpandAperture, _ContractAperture, _AdjustAperture, _OnNodeDown/_OnGet/_OnPut, by the inherited dispatch functions '
              '__Get/__Put/_AsyncProcessRequestImpl/its release closure (verified once more with the aperture invariant in their pre- and postconditions) and by the base-class join/leave/open handlers with self typed as the aperture balancer. '
              'Bounds: a contraction removes at most one member and only when more than min_size members are active (so never below min_size); load-driven growth adds at most one member and only below max_size. '
              'Direction: _AdjustAperture grows exactly when the smoothed load per active member is >= max_load, an idle member exists and the size is below max_size; it shrinks only when that load is <= min_load (and the growth condition is false). '
              'ApertureBalancerSink.__init__ (through HeapBalancerSink.__init__ and LoadBalancerSink.__init__) is verified to establish the invariant: both halves empty, only the sentinel node. '
              'Load tracking: every dispatch to a member adds exactly one to the outstanding counter and every release (first invocation of the release closure, whether or not the member is still active) takes exactly one off. '
              'The three hook overrides satisfy the hook contract under which C03/C04 are proved (same clause list), so those results hold for the aperture balancer too.')
LEVEL_NOTE = ('NOT covered: the convergence sentence ("the per-member load settles inside the band or the size is pinned") -- a limit statement over traffic histories that no contract expresses; the value of the moving average (Ema.Update is an unconstrained real); '
              '_Jitter (timer-driven expand-then-contract, built from the two verified operations: a contract is written but three exit-invariant conjuncts stay undecided in z3 and cvc5, so it is not registered -- DESIGN 9.7); _ScheduleNextJitter IS verified (delay within the configured bounds for every random outcome, one entry armed, nothing of the aperture touched); the pending-endpoint guard beyond "pending and not forced => no contraction". '
              'Trusted: pyvc encoding (reals for floats), z3/cvc5, random.choice as an arbitrary element, AsyncResult.ContinueWith registers a callback that runs later.')
ASSUMPTIONS = ['the base-class body of a hook runs only for receivers whose class does not override it (entry assumption of the base hooks in the aperture aspect)', 'endpoints are truthy objects (the contraction scan tests "if not least_loaded_endpoint")', 'at construction no heap node exists yet and nobody is on a down list (the node universe of the invariant is per balancer)', 'jitter_min_sec <= jitter_max_sec (random.randint raises otherwise) and the module-level low-resolution timer queue exists before any balancer',
               'notifications are delivered serially; no dispatch during the initial load']
TRUSTED = []
BOUNDED = []
