"""C10: the timer queue runs each action once, never early, in deadline order."""
CLAIMED = True
UNITS = []
MIN_OBLIGATIONS = 300
DESIGN_REF = 'DESIGN.md section 3, C10'
TECHNIQUE = 'deductive verification with rely/guarantee at the worker\'s three cooperative yield points (Owicki-Gries specialised to gevent), ghost clock and ran-set, z3'
LEVEL_TEXT = ('Schedule, its cancel closure and the worker loop are verified from their source. Schedule proves: stored deadline d\' with d <= d\' < d+resolution (reals), seq strictly increasing, '
              'exactly one fresh entry pushed and none removed, the event set whenever the new entry is due no later than everything queued; cancel proves it flags only its own entry. '
              'Both prove the guarantee the worker relies on while descheduled (entries only added, clock monotone, event only set and only together with a push, an added entry that is not later than the old minimum sets the event). '
              'The worker proves at the point where it starts an action: the queue\'s clock has reached the popped entry\'s deadline, the entry is not cancelled, it has not run before, '
              'and it is the minimum of (deadline, seq) over everything still queued; at its yields it proves it blocks indefinitely only on an empty queue and otherwise sleeps exactly until the earliest stored deadline, '
              'and that peeking never meets an empty queue.')
LEVEL_NOTE = ('Trusted: pyvc encoding (floats as reals), z3; heapq abstracted to "a set with its (deadline,seq)-minimum at index 0"; gevent switches only at Event.wait / sleep; '
              'Event.wait returns False only after the timeout elapsed with the flag unset (two ghost assume() statements define the queue clock and this timing fact); greenlets start in spawn order. '
              'Liveness (the worker is eventually scheduled) is not proved; for the low-resolution queue the Event.wait timing assumption is about the waiter\'s clock.')
ASSUMPTIONS = ['reals instead of floats: a one-ulp early rounding of ceil(d/res)*res is outside the model',
               'assume(at - to_wait == g_clock): the ghost clock is by definition what time_source() returns',
               'assume(wait_timed_out => g_clock advanced by >= to_wait): Event.wait timing',
               'only Schedule, cancel and the worker touch a TimerQueue (CONCURRENCY entries in specs/timer.py)']
TRUSTED = []
BOUNDED = []
