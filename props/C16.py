"""C16: singleton pool and shared (ref-counted) sinks."""
CLAIMED = True
UNITS = []
MIN_OBLIGATIONS = 80
DESIGN_REF = 'DESIGN.md section 3, C16'
TECHNIQUE = 'deductive verification: ghost open/close counters + ref-count invariant; rely/guarantee at the cooperative yield points of the singleton pool; z3/cvc5'
LEVEL_TEXT = ('RefCountedSink.Open/Close are verified against the invariant "underlying opens - closes = (1 if held else 0)" with ghost counters on the wrapper and on the underlying sink: '
              'the underlying sink is opened on the 0->1 transition only, every holder gets the same open result, surplus closes change nothing, the underlying close happens on 1->0 only. '
              'SharedSinkProvider.CreateSink returns the cached wrapper for a cached key and otherwise one fresh wrapper stored under the key. '
              'SingletonPoolSink._Get/Close keep "creations - drops in {0,1}, a sink is held iff they differ" as a shared-state invariant that is proved at both yield points and at exit, '
              'so concurrent first requests cannot create a second sink; a held sink is dropped only when it reports closed.')
LEVEL_NOTE = ('Trusted: pyvc encoding, z3/cvc5; gevent switches only at AsyncResult.wait (flagged extern); the transport\'s Open is idempotent while pending; '
              'WeakValueDictionary is modelled as a dict that keeps entries (sharing "as long as any holder is alive"); Open/Close of the underlying sink do not raise. '
              'SingletonPoolSink.Open and the closed-pool corner (a Close interleaved with a waiting _Get makes _Get return None) are not under contract.'
              ' Concurrent first requests through SingletonPoolSink._Get and the behaviour of SharedSinkProvider after the underlying connection has failed are covered by replay scenarios only (used when a changed text cannot be verified), not by the contracts.')
ASSUMPTIONS = ['other greenlets change a singleton pool only through the operations listed in specs/pools.py CONCURRENCY["Singleton"] (each proved to keep the invariant and guarantee)',
               'termination of the recursive _Get is not proved']
TRUSTED = []
BOUNDED = []
