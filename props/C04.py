"""C04: per-member load is conserved; removed members drain, then close."""
CLAIMED = True
UNITS = []
MIN_OBLIGATIONS = 400
DESIGN_REF = 'DESIGN.md section 3, C04'
TECHNIQUE = 'deductive verification: ghost outstanding-count invariant + frame conditions on the real heap.py functions, z3/cvc5'
LEVEL_TEXT = ('Ghost field g_out (requests dispatched to a node and not released) is tied to node.load by a proved invariant '
              '(load = Idle + g_out, or g_out while marked down); dispatch proves g_out += 1 on the chosen node only, the release closure proves g_out -= 1 '
              'exactly on its first invocation and nothing on later ones, the clamp branch is proved unreachable, every other function proves g_out unchanged; '
              '_RemoveSink/__Put prove that a removed node is closed at once iff idle or down, otherwise exactly when its last request is released.'
              ' On the reply path (HeapBalancerSink.AsyncProcessResponse) the release closure is proved to have been invoked before the reply is forwarded up the stack, so the release does not depend on sinks further up.')
LEVEL_NOTE = ('Trusted and scoped as for C03 (valid for any hooks meeting the weak hook contract; the heap balancer\'s own hooks are verified against it here, the aperture\'s overrides by the C06 check). The link "a not-yet-invoked release closure accounts for one unit of g_out" is a counting argument over the history '
              '(each dispatch creates one closure and one unit; g_out changes nowhere else, which the frame conditions check) and is stated as the closure\'s precondition. '
              'That every completion path invokes the closure is C01 (stack drain), not re-proved here.')
ASSUMPTIONS = [
  'token/counting meta-lemma: #un-released release closures of a node = its g_out (see level_note)',
  'every completion (reply, error, timeout, fault) drains the call\'s sink stack from the top and therefore invokes the balancer\'s entry once (C01)',
  'fewer than 2^31-3 outstanding requests per member',
]
TRUSTED = []
BOUNDED = []
