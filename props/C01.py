"""C01: every call completes exactly once, no later than its deadline."""
CLAIMED = True
UNITS = []
MIN_OBLIGATIONS = 100
DESIGN_REF = 'DESIGN.md section 3, C01'
TECHNIQUE = 'deductive verification of every hop of the completion path (contracts + ghost proves at the forwarding points) and of the deadline arithmetic; z3'
LEVEL_TEXT = ('Per-function contracts, each discharged from the current source: (1) the bottom stack entry (_AsyncResponseSink) calls exactly one of set/set_exception on the caller\'s result on every path; '
              '(2) ClientMessageSinkStack.AsyncProcessResponse pops exactly the top entry and invokes it once, and does nothing on an empty stack, so whichever of reply / fault / timer drains the stack first completes the call and later arrivals have no effect; '
              '(3) StaticDispatchMessage builds a fresh stack whose only entry holds the fresh result and puts the deadline on the message; DispatchMethodCall reads the clock once and uses that reading whether or not the open has completed; '
              '_DispatchMethod proves deadline = start + timeout exactly; (4) the timeout sink arms the global timer at exactly the message\'s deadline, answers an already expired call at once without forwarding it, installs the timed-out event before forwarding, '
              'pushes its cancel closure, cancels before forwarding a response, and its timer action raises the event before posting exactly one TimeoutError; (5) the balancer\'s open gate and the pool forward or answer, never both. '
              'With C10 (the timer action is not started before the rounded deadline d\' with d <= d\' < d + 10 ms) TimeoutError is not delivered before t+T and the call is complete once the timer action has run.')
LEVEL_NOTE = ('Trusted: pyvc encoding (floats as reals), z3; gevent link/rawlink callbacks run once per completion; extern contracts listed in the evidence (AsyncResult, Observable, Channel). '
              'The two lambdas (timer action, deferred dispatch) are anchored by their exact source text rather than verified as units. Not proved: liveness (the timer action and the worker are eventually scheduled), '
              'that no sink on the response path raises, the composition over the whole stack is an induction over the hops stated here, not a single SMT obligation.')
ASSUMPTIONS = ['reals for floats', 'a sink\'s AsyncProcessResponse does not raise and does not push onto the stack it is handed',
               'gevent runs each link callback once per completion, later, in registration order',
               'liveness is out of scope: "completes at all" is not proved']
TRUSTED = []
BOUNDED = []
