"""C18: metrics are neither lost, duplicated nor split across equal sources."""
CLAIMED = True
UNITS = []
MIN_OBLIGATIONS = 8
DESIGN_REF = 'DESIGN.md section 3, C18'
TECHNIQUE = 'deductive verification: value-equality obligation on the real Source class (== and hash resolved from its source), percentile bounds by real arithmetic; z3'
LEVEL_TEXT = ('Two lemma units evaluate python\'s == and hash() on two Source objects exactly as the class defines them (identity when the class has no __eq__; `is` between field values is not equality): '
              'equal method/service/endpoint/client_id imply a == b and hash(a) == hash(b); different fields imply a != b -- so dictionary series are keyed by value and their number is bounded by the number of distinct sources. '
              'VarzReceiver.IncrementVarz / SetVarz (through the two-level defaultdict, keyed by that value equality): exactly the series (metric, source) changes, by exactly the amount (negative amounts included) resp. to exactly the value; every other series keeps its value -- so a counter series is the running sum of its increments and a gauge the last value set. '
              'VarzAggregator.CalculatePercentile on a sorted sample returns a value between the smallest and the largest retained sample, and 0 on an empty one.')
LEVEL_NOTE = ('Trusted: pyvc encoding (floats as reals, math.floor/ceil as mathematical), z3. BOUNDED, not proved: percentiles aggregated per service are non-decreasing in the percentile and, for a single source, within the sample range -- '
              'checked on every run on the real RecordPercentileSample + Aggregate over a fixed finite family (see the evidence, `bounded`); monotonicity in pct as a two-run lemma stays undecided in z3 and cvc5. '
              'Not under contract: VarzAggregator.Aggregate\'s per-service summation, _Downsample, RecordPercentileSample.')
ASSUMPTIONS = ['field values of a Source compare by value (strings)', 'reals for floats']
TRUSTED = []
BOUNDED = [dict(name='aggregated-percentiles-monotone-and-in-range', replay_unit='VarzAggregator.Aggregate',
                bound='reservoirs of 1..6 samples from a fixed pool in given/ascending/descending order, 1..3 reservoirs per service; real RecordPercentileSample + Aggregate')]
