"""C18: metrics are neither lost, duplicated nor split across equal sources."""
CLAIMED = True
UNITS = []
MIN_OBLIGATIONS = 8
DESIGN_REF = 'DESIGN.md section 3, C18'
TECHNIQUE = 'deductive verification: value-equality obligation on the real Source class (== and hash resolved from its source), percentile bounds by real arithmetic; z3'
LEVEL_TEXT = ('Two lemma units evaluate python\'s == and hash() on two Source objects exactly as the class defines them (identity when the class has no __eq__): '
              'equal method/service/endpoint/client_id imply a == b and hash(a) == hash(b); different fields imply a != b -- so dictionary series are keyed by value and their number is bounded by the number of distinct sources. '
              'VarzAggregator.CalculatePercentile on a sorted sample is proved (non-linear real arithmetic) to return a value between the smallest and the largest retained sample, and 0 on an empty one.')
LEVEL_NOTE = ('Trusted: pyvc encoding (floats as reals, math.floor/ceil as mathematical), z3. Not under contract in this version: the keyed update functions IncrementVarz/SetVarz/RecordPercentileSample '
              '(one-line dictionary updates through a defaultdict), VarzAggregator.Aggregate (sum per service) and _Downsample; monotonicity of the percentile in pct was attempted as a two-run lemma and left out because the mixed exact/interpolated case stays undecided in z3 and cvc5.')
ASSUMPTIONS = ['field values of a Source compare by value (strings)', 'reals for floats']
TRUSTED = []
BOUNDED = [dict(name='aggregated-percentiles-monotone-and-in-range', replay_unit='VarzAggregator.Aggregate',
                bound='reservoirs of 1..6 samples from a fixed pool in given/ascending/descending order, 1..3 reservoirs per service; real RecordPercentileSample + Aggregate')]
