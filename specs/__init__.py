"""Sidecar contracts for steveniemitz/scales (one module per repository module)."""
