"""Contracts for scales/loadbalancer/aperture.py (C06; aperture flavour of C03/C04 hooks)."""
FILE = 'scales/loadbalancer/aperture.py'
from .heap import _HOOK_ENS, _HOOK_MOD

CLASSES = {
  'ApertureBalancerSink': dict(path='ApertureBalancerSink', bases=['HeapBalancerSink'], fields={
    '_idle_endpoints': 'set[any]', '_pending_endpoints': 'set[any]', '_total': 'int', '_ema': 'EmaX', '_time': 'ClockX',
    '_min_size': 'int', '_max_size': 'int', '_min_load': 'real', '_max_load': 'real',
    '_jitter_min': 'int', '_jitter_max': 'int', '_next_jitter': 'any',
    # ghost: the smoothed load per active member the last adjustment looked at
    'g_load': 'real'}, ghost=['g_load']),
  'EmaX': dict(extern=True, path=None, bases=[], fields={}),
  'ClockX': dict(extern=True, path=None, bases=[], fields={}),
}

# the aperture aspect builds on the membership aspect of the heap primitives
ASPECT_FALLBACK = {'ap': ['mem']}

PREDICATES = {
  # what an ApertureBalancerSink instance adds to the heap invariant, stated on a receiver typed as the base class
  # (the inherited dispatch functions are verified once more under it: aspect 'ap')
  'ApCfg': (['s'], 's._min_size >= 0 and s._min_load <= s._max_load'),
  'ApExt': (['s'], 'implies(dyn_is(s, ApertureBalancerSink), ApPart(cast(s, ApertureBalancerSink)) and ApKnown(cast(s, ApertureBalancerSink)) and ApCfg(cast(s, ApertureBalancerSink)))'),
  # the two halves of the partition: active members are the nodes in the heap, idle members a set of endpoints;
  # no endpoint is in both, no endpoint has two nodes, None is nobody's endpoint
  'ApP1': (['s'], 'allocated(s._idle_endpoints) and allocated(s._pending_endpoints) and s._idle_endpoints != s._pending_endpoints and '
                  's._heap[0].endpoint is None and not (None in s._idle_endpoints)'),
  'ApP2': (['s'], 'forall_ref(r, Node, implies(inheap(s._heap, r), r.endpoint is not None and not (r.endpoint in s._idle_endpoints)), r.index)'),
  # every node's channel exists (object graph closed under .channel) and no two nodes share one
  'ApP4': (['s'], 'forall_ref(r, Node, implies(allocated(r), allocated(r.channel)), r.channel)'),
  'ApP5': (['s'], 'forall_ref((r1, r2), Node, implies(allocated(r1) and allocated(r2) and r1.channel == r2.channel, r1 == r2), (r1.channel, r2.channel))'),
  'ApPart': (['s'], 'ApP1(s) and ApP2(s) and HM_inj(s) and ApP4(s) and ApP5(s)'),
  # every idle member has its channel factory in the server table (what _TryExpandAperture looks up)
  'ApIdleKnown': (['s'], 'allocated(s._servers) and not has_key(s._servers, None) and forall(e, "any", implies(e in s._idle_endpoints, has_key(s._servers, e)))'),
  # every member of either half is in the server table
  # every current member is idle or has its node in the heap (ghost map endpoint -> node, as for the heap balancer)
  'ApSupEx': (['s', 'x'], 'allocated(s.g_node) and forall(e, "any", implies(has_key(s._servers, e) and e != x and not (e in s._idle_endpoints), '
                          'has_key(s.g_node, e) and allocated(s.g_node[e]) and inheap(s._heap, s.g_node[e]) and s.g_node[e].endpoint == e))'),
  'ApSup': (['s'], 'ApSupEx(s, None)'),
  'ApHeapKnown': (['s'], 'forall_ref(r, Node, implies(inheap(s._heap, r), has_key(s._servers, r.endpoint)), r.index)'),
  'ApKnown': (['s'], 'ApIdleKnown(s) and ApHeapKnown(s) and ApSup(s)'),
  'ApInv': (['s'], 'HeapInv(s) and ApPart(s) and s._min_size >= 0'),
  'has_ep': (['s', 'e'], 'exists_ref(r, Node, inheap(s._heap, r) and r.endpoint == e)'),
}

FUNCTIONS = {
  'ApertureBalancerSink._UpdateSizeVarz': dict(cls='ApertureBalancerSink', inline=True),

  # expansion: some idle member (any: the choice is random) becomes active; with nobody idle nothing changes
  'ApertureBalancerSink._TryExpandAperture': dict(
    cls='ApertureBalancerSink', params={'leave_pending': 'bool'}, returns='tuple[AsyncResult,any]', aspect='mem',
    locals={'endpoints': 'list[any]', 'added_node': 'AsyncResult?', 'new_endpoint': 'any', 'new_sink': 'ChannelFactory'},
    requires=['ApInv(self)', 'ApKnown(self)'],
    ensures=['ApInv(self)', 'ApKnown(self)',
             'self._size == old(self._size) or self._size == old(self._size) + 1',
             # one endpoint moved from idle to active, or nothing moved
             'implies(self._size == old(self._size) + 1, result[1] is not None and old(result[1] in self._idle_endpoints) and not (result[1] in self._idle_endpoints) and '
             '        self.g_added is not None and fresh(self.g_added) and inheap(self._heap, self.g_added) and self.g_added.endpoint == result[1] and '
             '        forall_ref(r, Node, implies(r != self.g_added, inheap(self._heap, r) == old(inheap(self._heap, r))), r.index) and '
             '        forall(e, "any", implies(e != result[1], (e in self._idle_endpoints) == old(e in self._idle_endpoints))))',
             'implies(self._size == old(self._size), result[1] is None and forall(e, "any", not old(e in self._idle_endpoints)) and '
             '        forall_ref(r, Node, inheap(self._heap, r) == old(inheap(self._heap, r)), r.index))',
             'implies(exists(e, "any", old(e in self._idle_endpoints)), self._size == old(self._size) + 1)',
             'forall_ref(r, Node, implies(old(allocated(r)), r.g_out == old(r.g_out) and r.load == old(r.load) and r.endpoint == old(r.endpoint) and '
             '           r.g_inq == old(r.g_inq) and r.downq == old(r.downq) and r.g_rank == old(r.g_rank)), r.g_out)',
             'forall_ref(r, Node, implies(old(allocated(r)), r.channel == old(r.channel)), r.channel)',
             'forall_ref(c, Channel, implies(old(allocated(c)), c.state == old(c.state)), c.state)',
             'forall_ref(r, Node, implies(old(allocated(r)), r.channel.state == old(r.channel.state)), r.channel)',
             'self._heap[0] == old(self._heap[0])', 'self._downq == old(self._downq)'],
    modifies=['Node.load', 'Node.index', 'Node.downq', 'Node.avg_load', 'Node.channel', 'Node.endpoint', 'Node.g_out', 'Node.g_inq', 'list[Node]', 'list[any]', 'dict[any,Node]',
              'HeapBalancerSink._size', 'HeapBalancerSink.g_added', 'Channel.state', 'Channel.g_closes', 'set[any]', '$cls'],
    allocates='any',
    ghost=[{'after': 'added_node = super(ApertureBalancerSink, self)._AddSink(new_endpoint, new_sink)', 'do': ['self.g_node[new_endpoint] = self.g_added']}],
    props=['C06', 'C05'],
  ),

  # load-driven adjustment.  Growth: when the smoothed load per active member is at or above max_load, an idle member
  # exists and the active set is below max_size, exactly one member is activated -- and growth never passes max_size.
  # Shrink: only at or below min_load with more than min_size members active, by at most one, never below min_size.
  'ApertureBalancerSink._AdjustAperture': dict(
    cls='ApertureBalancerSink', params={'amount': 'int'}, returns='none', aspect='ap',
    locals={'avg': 'real', 'aperture_size': 'int', 'aperture_load': 'real'},
    requires=['ApInv(self)', 'ApKnown(self)', 'self._min_load <= self._max_load'],
    ensures=_HOOK_ENS + ['ApInv(self)', 'ApKnown(self)',
             'self._total == old(self._total) + amount',
             'self._size >= old(self._size) - 1 and self._size <= old(self._size) + 1',
             # bounds
             'implies(self._size > old(self._size), self._size <= self._max_size)',
             'implies(self._size < old(self._size), self._size >= self._min_size)',
             # direction
             'implies(self._size > old(self._size), self.g_load >= self._max_load and exists(e, "any", old(e in self._idle_endpoints)))',
             'implies(self._size < old(self._size), self.g_load <= self._min_load and self.g_load < self._max_load or not exists(e, "any", old(e in self._idle_endpoints)) or old(self._size) >= self._max_size)',
             'implies(self.g_load >= self._max_load and exists(e, "any", old(e in self._idle_endpoints)) and old(self._size) < self._max_size, self._size == old(self._size) + 1)'],
    modifies=_HOOK_MOD, allocates='any',
    ghost=[
      {'after': 'aperture_load = self._max_load', 'do': ['self.g_load = aperture_load']},
      {'after': 'aperture_load = avg / aperture_size', 'do': ['self.g_load = aperture_load']},
    ],
    props=['C06'],
  ),
  'ApertureBalancerSink._OnNodeDown': dict(
    cls='ApertureBalancerSink', params={'node': 'Node'}, returns='AsyncResult', aspect='ap',
    requires=['ApInv(self)', 'ApKnown(self)', 'allocated(node)'],
    ensures=_HOOK_ENS + ['ApInv(self)', 'ApKnown(self)', 'self._size >= old(self._size)', 'self._size <= old(self._size) + 1'],
    modifies=_HOOK_MOD, allocates='any',
    props=['C06', 'C03'],
  ),
  'ApertureBalancerSink._OnGet': dict(
    cls='ApertureBalancerSink', params={'node': 'Node'}, returns='none', aspect='ap',
    requires=['ApInv(self)', 'ApKnown(self)', 'self._min_load <= self._max_load'],
    ensures=_HOOK_ENS + ['ApInv(self)', 'ApKnown(self)', 'self._total == old(self._total) + 1'],
    modifies=_HOOK_MOD, allocates='any',
    props=['C06', 'C03', 'C04'],
  ),
  'ApertureBalancerSink._OnPut': dict(
    cls='ApertureBalancerSink', params={'node': 'Node'}, returns='none', aspect='ap',
    requires=['ApInv(self)', 'ApKnown(self)', 'self._min_load <= self._max_load'],
    ensures=_HOOK_ENS + ['ApInv(self)', 'ApKnown(self)', 'self._total == old(self._total) - 1'],
    modifies=_HOOK_MOD, allocates='any',
    props=['C06', 'C03', 'C04'],
  ),

  # a leaving member disappears from whichever half it was in; an active one is replaced from the idle half when possible
  'ApertureBalancerSink._RemoveSink': dict(
    cls='ApertureBalancerSink', params={'endpoint': 'any'}, returns='none', aspect='mem',
    locals={'removed': 'bool'},
    requires=['ApInv(self)', 'ApSup(self)', 'not has_key(self._servers, endpoint)', 'not has_key(self._servers, None)', 'endpoint is not None', 'allocated(self._servers)',
              # the server table has already forgotten the leaving member; every other idle member is still in it
              'forall(e, "any", implies((e in self._idle_endpoints) and e != endpoint, has_key(self._servers, e)))',
              'forall_ref(r, Node, implies(inheap(self._heap, r) and r.endpoint != endpoint, has_key(self._servers, r.endpoint)), r.index)'],
    ensures=['ApInv(self)', 'ApKnown(self)', 'not (endpoint in self._idle_endpoints)',
             'forall_ref(r, Node, implies(inheap(self._heap, r), r.endpoint != endpoint), r.index)',
             'self._size <= old(self._size)',
             'forall_ref(r, Node, implies(old(allocated(r)), r.g_out == old(r.g_out) and r.load == old(r.load) and r.endpoint == old(r.endpoint) and '
             '           r.g_inq == old(r.g_inq) and r.downq == old(r.downq) and r.g_rank == old(r.g_rank)), r.g_out)',
             'forall_ref(r, Node, implies(old(allocated(r)), r.channel == old(r.channel)), r.channel)'],
    modifies=['Node.load', 'Node.index', 'Node.downq', 'Node.avg_load', 'Node.channel', 'Node.endpoint', 'Node.g_out', 'Node.g_inq', 'list[Node]', 'list[any]', 'dict[any,Node]',
              'HeapBalancerSink._size', 'HeapBalancerSink.g_added', 'HeapBalancerSink.g_removed', 'Channel.state', 'Channel.g_closes', 'set[any]', '$cls'],
    allocates='any',
    props=['C06', 'C05'],
  ),

  # contraction: at most one active member goes back to the idle half, and only while more than min_size healthy members
  # are active -- so a contraction never leaves fewer than min_size members active
  'ApertureBalancerSink._ContractAperture': dict(
    cls='ApertureBalancerSink', params={'force': 'bool'}, returns='none', aspect='mem',
    locals={'num_healthy': 'int', 'least_loaded_endpoint': 'any', 'n': 'Node', 'g_n': 'Node?'},
    requires=['ApInv(self)', 'ApKnown(self)'],
    ensures=['ApInv(self)', 'ApKnown(self)', 'self._size == old(self._size) or self._size == old(self._size) - 1',
             'implies(self._size == old(self._size) - 1, old(self._size) > self._min_size and self._size >= self._min_size)',
             'implies(self._size == old(self._size) - 1, self.g_removed is not None and let(n, self.g_removed, old(inheap(self._heap, n))) and not inheap(self._heap, self.g_removed) and '
             '        (self.g_removed.endpoint in self._idle_endpoints) and '
             '        forall(e, "any", implies(e != self.g_removed.endpoint, (e in self._idle_endpoints) == old(e in self._idle_endpoints))) and '
             '        forall_ref(r, Node, implies(r != self.g_removed, inheap(self._heap, r) == old(inheap(self._heap, r))), r.index))',
             'implies(self._size == old(self._size), forall(e, "any", (e in self._idle_endpoints) == old(e in self._idle_endpoints)) and '
             '        forall_ref(r, Node, inheap(self._heap, r) == old(inheap(self._heap, r)), r.index))',
             'implies(old(truthy(self._pending_endpoints)) and not force, self._size == old(self._size))',
             'self._heap[0] == old(self._heap[0])', 'self._downq == old(self._downq)',
             'forall_ref(r, Node, implies(old(allocated(r)), r.channel.state == old(r.channel.state) or r.channel.state == ChannelState.Closed), r.channel)',
             'forall_ref(r, Node, implies(old(allocated(r)) and r.g_out > 0 and r.load < 0, r.channel.state == old(r.channel.state)), r.g_out)',
             'forall_ref(r, Node, implies(old(allocated(r)), r.g_out == old(r.g_out) and r.load == old(r.load) and r.endpoint == old(r.endpoint) and '
             '           r.g_inq == old(r.g_inq) and r.downq == old(r.downq) and r.g_rank == old(r.g_rank)), r.g_out)',
             'forall_ref(r, Node, implies(old(allocated(r)), r.channel == old(r.channel)), r.channel)'],
    modifies=['Node.load', 'Node.index', 'Node.downq', 'Node.avg_load', 'Node.channel', 'Node.endpoint', 'Node.g_out', 'Node.g_inq', 'list[Node]', 'list[any]', 'dict[any,Node]',
              'HeapBalancerSink._size', 'HeapBalancerSink.g_added', 'HeapBalancerSink.g_removed', 'Channel.state', 'Channel.g_closes', 'set[any]', '$cls'],
    allocates='any',
    loops={
      0: dict(invariant=['ApInv(self)', 'ApKnown(self)', 'allocated(self._heap)',
                         'implies(least_loaded_endpoint is not None, g_n is not None and inheap(self._heap, g_n) and g_n.endpoint == least_loaded_endpoint)'], modifies=[], allocates=False),
      1: dict(invariant=['ApInv(self)', 'ApKnown(self)', 'allocated(self._heap)',
                         'implies(least_loaded_endpoint is not None, g_n is not None and inheap(self._heap, g_n) and g_n.endpoint == least_loaded_endpoint)'], modifies=[], allocates=False),
    },
    ghost=[
      {'after': 'least_loaded_endpoint = None', 'do': ['g_n = None']},
      {'after': 'least_loaded_endpoint = n.endpoint', 'do': ['g_n = n', 'prove(inheap(self._heap, n), "candidate-is-an-active-member")']},
      {'before': 'self._idle_endpoints.add(least_loaded_endpoint)', 'do': [
        'prove(g_n is not None and inheap(self._heap, g_n) and g_n.endpoint == least_loaded_endpoint, "retires-an-active-member")']},
      {'before': 'super(ApertureBalancerSink, self)._RemoveSink(least_loaded_endpoint)', 'do': [
        'g_s0 = self._size', 'prove(least_loaded_endpoint in self._idle_endpoints, "the-retired-member-is-parked-idle-first")']},
      {'after': 'super(ApertureBalancerSink, self)._RemoveSink(least_loaded_endpoint)', 'do': [
        'prove(not inheap(self._heap, g_n), "the-candidate-left-the-active-set")',
        'prove(self._size == g_s0 - 1, "exactly-one-member-retired")']},
    ],
    props=['C06', 'C05'],
  ),

  # a joining member goes into exactly one half: active while fewer than min_size healthy members are active, else idle
  'ApertureBalancerSink._AddSink': dict(
    cls='ApertureBalancerSink', params={'endpoint': 'any', 'sink_factory': 'ChannelFactory'}, returns='none', aspect='mem',
    locals={'num_healthy': 'int'},
    requires=['ApInv(self)', 'ApIdleKnown(self)', 'ApHeapKnown(self)', 'ApSupEx(self, endpoint)', 'has_key(self._servers, endpoint)', 'endpoint is not None', 'not (endpoint in self._idle_endpoints)',
              'forall_ref(r, Node, implies(inheap(self._heap, r), r.endpoint != endpoint), r.index)'],
    ensures=['ApInv(self)', 'ApIdleKnown(self)', 'ApHeapKnown(self)', 'ApSupEx(self, endpoint)',
             # exactly one of the two halves gained the endpoint; nothing else moved
             '(endpoint in self._idle_endpoints) != (self._size == old(self._size) + 1)',
             'implies(endpoint in self._idle_endpoints, self._size == old(self._size) and forall_ref(r, Node, inheap(self._heap, r) == old(inheap(self._heap, r)), r.index))',
             'implies(not (endpoint in self._idle_endpoints), self.g_added is not None and fresh(self.g_added) and inheap(self._heap, self.g_added) and self.g_added.endpoint == endpoint and '
             '        forall_ref(r, Node, implies(r != self.g_added, inheap(self._heap, r) == old(inheap(self._heap, r))), r.index))',
             'forall(e, "any", implies(e != endpoint, (e in self._idle_endpoints) == old(e in self._idle_endpoints)))',
             'forall_ref(r, Node, implies(old(allocated(r)), r.g_out == old(r.g_out) and r.load == old(r.load) and r.endpoint == old(r.endpoint)), r.g_out)'],
    modifies=['Node.load', 'Node.index', 'Node.downq', 'Node.avg_load', 'Node.channel', 'Node.endpoint', 'Node.g_out', 'Node.g_inq', 'list[Node]',
              'HeapBalancerSink._size', 'HeapBalancerSink.g_added', 'Channel.state', 'Channel.g_closes', 'set[any]', '$cls'],
    allocates='any',
    props=['C06', 'C05'],
  ),
}
EXTERNS = {
  'EmaX.Update': dict(params=[('ts', 'real'), ('sample', 'int')], returns='real', notes='varz.Ema.Update: the smoothed number of outstanding requests (a real; nothing is assumed about its value)'),
  'ClockX.Sample': dict(params=[], returns='real', notes='varz.MonoClock.Sample'),
  'random.choice': dict(params=[('seq', 'list[any]')], returns='any', requires=['len(seq) > 0'], ensures=['exists(k, 0, len(seq), seq[k] == result)'],
                        notes='an arbitrary element: every outcome of the random draw is covered'),
}


# ----------------------------------------------------------------------------------------------------------------
# C05 / C06 for the aperture balancer: the base-class join/leave handlers verified with `self` typed as
# ApertureBalancerSink (same source text as the heap-balancer units of specs/lbbase.py).
from .lbbase import _MEM_MOD

_AP_MOD = _MEM_MOD + ['set[any]', 'list[any]', 'ApertureBalancerSink._total', 'ApertureBalancerSink.g_load']

PREDICATES.update({
  'ApAll': (['s'], 'ApInv(s) and ApKnown(s) and ApCfg(s)'),
})

CONCURRENCY = {
  'MembersAp': dict(
    state=_AP_MOD + ['Event.flag', 'LoadBalancerSink._servers', 'HeapBalancerSink._downq', 'Node.g_rank'],
    invariant=['ApAll(self)'],
    guarantee=[],
  ),
  'MembersApLoading': dict(
    state=_AP_MOD + ['Event.flag', 'LoadBalancerSink._servers', 'HeapBalancerSink._downq', 'Node.g_rank'],
    invariant=['ApAll(self)'],
    guarantee=['self.__init_done.flag == old(self.__init_done.flag)',
               'implies(not old(self.__init_done.flag), self._size == old(self._size) and self._servers == old(self._servers) and self._idle_endpoints == old(self._idle_endpoints) and '
               '        forall(e, "any", (e in self._idle_endpoints) == old(e in self._idle_endpoints)))'],
  ),
}

FUNCTIONS.update({
  'LoadBalancerSink.__AddServer@ap': dict(
    file='scales/loadbalancer/base.py', path='LoadBalancerSink.__AddServer', cls='ApertureBalancerSink', params={'instance': 'SetMember'}, aspect='ap',
    requires=['ApAll(self)', 'allocated(instance)', 'allocated(instance.additional_endpoints)', 'instance.service_endpoint is not None'],
    ensures=['ApAll(self)', 'ep_ok(self, instance)', 'has_key(self._servers, ep_of(self, instance))',
             'forall(e, "any", implies(e != ep_of(self, instance), has_key(self._servers, e) == old(has_key(self._servers, e))))',
             # the new member is in exactly one half
             'implies(not old(has_key(self._servers, ep_of(self, instance))), (ep_of(self, instance) in self._idle_endpoints) != (self._size == old(self._size) + 1))'],
    raises={'ValueError': dict(when='not ep_ok(self, instance)', ensures=['ApAll(self)', 'forall(e, "any", has_key(self._servers, e) == old(has_key(self._servers, e)))'])},
    locals={'channel_factory': 'ChannelFactory'},
    modifies=_AP_MOD, allocates='any', drop=['_properties', 'new_props'],
    ghost=[
      {'after': 'self._OnServersChanged(ep, channel_factory, True)', 'do': ['if not (ep in self._idle_endpoints): self.g_node[ep] = self.g_added']},
    ],
    props=['C06', 'C05'],
  ),
  'LoadBalancerSink.__RemoveServer@ap': dict(
    file='scales/loadbalancer/base.py', path='LoadBalancerSink.__RemoveServer', cls='ApertureBalancerSink', params={'instance': 'SetMember'}, aspect='ap',
    requires=['ApAll(self)', 'allocated(instance)', 'allocated(instance.additional_endpoints)', 'instance.service_endpoint is not None'],
    ensures=['ApAll(self)', 'ep_ok(self, instance)', 'not has_key(self._servers, ep_of(self, instance))',
             'not (ep_of(self, instance) in self._idle_endpoints)',
             'forall_ref(r, Node, implies(inheap(self._heap, r), r.endpoint != ep_of(self, instance)), r.index)',
             'forall(e, "any", implies(e != ep_of(self, instance), has_key(self._servers, e) == old(has_key(self._servers, e))))'],
    raises={'ValueError': dict(when='not ep_ok(self, instance)', ensures=['ApAll(self)', 'forall(e, "any", has_key(self._servers, e) == old(has_key(self._servers, e)))'])},
    modifies=_AP_MOD, allocates='any',
    props=['C06', 'C05'],
  ),
  'LoadBalancerSink.__OnServerSetJoin@ap': dict(
    file='scales/loadbalancer/base.py', path='LoadBalancerSink.__OnServerSetJoin', cls='ApertureBalancerSink', params={'instance': 'SetMember'}, aspect='ap',
    conc='MembersAp', guar=['MembersApLoading'],
    requires=['allocated(instance)', 'allocated(instance.additional_endpoints)', 'instance.service_endpoint is not None', 'allocated(self.__init_done)'],
    ensures=['self.__init_done.flag', 'implies(ep_ok(self, instance), has_key(self._servers, ep_of(self, instance)))'],
    raises={'ValueError': dict(when='not ep_ok(self, instance)')},
    modifies=_AP_MOD, allocates='any',
    yields=[{'at': 'self.__init_done.wait()'}],
    ghost=[{'after': 'self.__init_done.wait()', 'do': ['prove(self.__init_done.flag, "takes-effect-only-after-the-initial-load")']}],
    props=['C06', 'C05'],
  ),
  'LoadBalancerSink.__OnServerSetLeave@ap': dict(
    file='scales/loadbalancer/base.py', path='LoadBalancerSink.__OnServerSetLeave', cls='ApertureBalancerSink', params={'instance': 'SetMember'}, aspect='ap',
    conc='MembersAp', guar=['MembersApLoading'],
    requires=['allocated(instance)', 'allocated(instance.additional_endpoints)', 'instance.service_endpoint is not None', 'allocated(self.__init_done)'],
    ensures=['self.__init_done.flag', 'implies(ep_ok(self, instance), not has_key(self._servers, ep_of(self, instance)))'],
    raises={'ValueError': dict(when='not ep_ok(self, instance)')},
    modifies=_AP_MOD, allocates='any',
    yields=[{'at': 'self.__init_done.wait()'}],
    ghost=[{'after': 'self.__init_done.wait()', 'do': ['prove(self.__init_done.flag, "takes-effect-only-after-the-initial-load")']}],
    props=['C06', 'C05'],
  ),
})

FUNCTIONS.update({
  'LoadBalancerSink._OpenImpl@ap': dict(
    file='scales/loadbalancer/base.py', path='LoadBalancerSink._OpenImpl', cls='ApertureBalancerSink', returns='bool?', aspect='ap',
    conc='MembersApLoading', guar=['MembersAp'],
    locals={'server_set': 'list[SetMember]'},
    requires=['allocated(self.__init_done)', 'not self.__init_done.flag', 'self._size == 0', 'forall(e, "any", not (e in self._idle_endpoints))',
              'self.__open_ar is not None and allocated(self.__open_ar)'],
    ensures=['implies(result is not None, self.__init_done.flag)'],
    raises={'ValueError': dict()},
    modifies=_AP_MOD + ['Event.flag', 'LoadBalancerSink._servers', 'LoadBalancerSink._state', 'LoadBalancerSink._open_greenlet', 'HeapBalancerSink._open',
                        'list[AsyncResult]', 'list[int]', 'AsyncResult.g_sets', 'AsyncResult.value', 'AsyncResult.exception', 'AsyncResult.g_ready', 'AsyncResult.g_value', 'AsyncResult.g_failed', 'list[SetMember]', 'Channel.g_opens', 'HeapBalancerSink._downq', 'Node.g_rank'],
    allocates='any',
    yields=[{'at': 'gevent.sleep(5)'}, {'at': 'self._server_set_provider.Initialize('}, {'at': 'self._server_set_provider.GetServers()'}],
    loops={
      0: dict(invariant=['ApAll(self)', 'not self.__init_done.flag', 'self._size == 0', 'forall(e, "any", not (e in self._idle_endpoints))', 'allocated(self.__init_done)'],
              modifies=_AP_MOD + ['Event.flag', 'LoadBalancerSink._servers', 'LoadBalancerSink._state', 'list[SetMember]', 'HeapBalancerSink._downq', 'Node.g_rank'], allocates='any'),
      1: dict(invariant=['ApAll(self)', 'not self.__init_done.flag', 'allocated(self.__init_done)', 'allocated(server_set)',
                         'forall(k, 0, len(server_set), member_ok(server_set[k]))',
                         'forall(k, 0, _i1, has_key(self._servers, ep_of(self, server_set[k])))'],
              modifies=_AP_MOD, allocates='any'),
    },
    ghost=[
      {'before': 'self.__init_done.set()', 'do': [
        'prove(forall(k, 0, len(server_set), has_key(self._servers, ep_of(self, server_set[k]))), "initial-members-installed-before-notifications-pass")']},
    ],
    props=['C06', 'C05'],
  ),
})

FUNCTIONS.update({
  # the next jitter is armed on the low-resolution timer queue, between _jitter_min and _jitter_max ticks from now,
  # with this balancer's own _Jitter as the action; nothing of the aperture itself is touched
  'ApertureBalancerSink._ScheduleNextJitter': dict(
    cls='ApertureBalancerSink', returns='none',
    locals={'next_jitter': 'int', 'now': 'real'},
    requires=['self._jitter_min <= self._jitter_max'],
    ensures=['self._next_jitter is not None',
             # what it creates is a timer entry and a cancel closure: no balancer node; only the timer queue's own event may get set
             'forall_ref(r, Node, allocated(r) == old(allocated(r)), r.index)',
             'forall_ref(v, Event, implies(v != LOW_RESOLUTION_TIMER_QUEUE._event, v.flag == old(v.flag)), v.flag)'],
    modifies=['ApertureBalancerSink._next_jitter', 'set[TimerEntry]', 'TimerEntry.cancelled', 'TimerEntry.action', 'TimerEntry.deadline', 'TimerEntry.seq',
              'TimerQueue._seq', 'Event.flag', '$cls'],
    allocates='any',
    ghost=[
      # the round is really armed: one more entry on the low-resolution queue, none removed (kept out of the exported
      # contract so that callers' obligations stay within what both solvers parse)
      {'after': 'self._next_jitter = LOW_RESOLUTION_TIMER_QUEUE.Schedule(now + next_jitter, self._Jitter)', 'do': [
        'prove(not subset(LOW_RESOLUTION_TIMER_QUEUE._queue.g_mem, old(setof(LOW_RESOLUTION_TIMER_QUEUE._queue.g_mem))) and '
        '      subset(old(setof(LOW_RESOLUTION_TIMER_QUEUE._queue.g_mem)), LOW_RESOLUTION_TIMER_QUEUE._queue.g_mem), "next-round-armed-on-the-timer-queue")']},
      {'after': 'next_jitter = random.randint(self._jitter_min, self._jitter_max)', 'do': [
        'prove(self._jitter_min <= next_jitter and next_jitter <= self._jitter_max, "jitter-delay-within-configured-bounds")']},
    ],
    props=['C06'],
  ),
  # construction: both halves empty, configuration taken from the sink properties
  'ApertureBalancerSink.__init__': dict(
    cls='ApertureBalancerSink', params={'next_provider': 'NextProvider', 'sink_properties': 'SinkPropsX', 'global_properties': 'any'}, returns='none',
    requires=['allocated(sink_properties) and allocated(sink_properties.server_set_provider)', 'sink_properties.min_size >= 0', 'sink_properties.min_load <= sink_properties.max_load',
              # random.randint(jitter_min, jitter_max) in _ScheduleNextJitter needs a non-empty range
              'sink_properties.jitter_min_sec <= sink_properties.jitter_max_sec',
              # the module-level timer queue exists before any balancer does
              'allocated(LOW_RESOLUTION_TIMER_QUEUE._event)',
              'forall_ref(r, Node, not allocated(r), r.index)', 'forall_ref(r, Node, not r.g_inq, r.g_inq)'],
    ensures=['ApAll(self)', 'self._size == 0', 'forall(e, "any", not (e in self._idle_endpoints))', 'self._total == 0',
             'self._min_size == sink_properties.min_size and self._max_size == sink_properties.max_size',
             'self.__open_ar is None', 'allocated(self.__init_done) and not self.__init_done.flag'],
    modifies=['*'], allocates='any', drop=['ApertureVarz'],
    literals={'set()': 'set[any]'},
    props=['C06', 'C05'],
  ),
})

EXTERNS.update({
  'Ema': dict(params=[('window', 'int')], returns='EmaX', fresh=True, allocates=True, ensures=['result is not None']),
  'MonoClock': dict(params=[], returns='ClockX', fresh=True, allocates=True, ensures=['result is not None']),
})


# Not loaded (kept for the next attempt): a contract for one jitter round.  All of its obligations except three
# exit-invariant conjuncts (idle/heap agreement after `_pending_endpoints.discard`) discharge; those three time out in z3 and
# cvc5, so the unit is not registered and `_Jitter` stays outside the verified set (DESIGN 9.7).
_PENDING = {
  # one jitter round: activate one idle member (kept pending), wait for it to open, and only if that succeeded retire
  # one active member; whatever happens the pending mark is removed and the next round is armed.  The partition and
  # the server-table agreement hold at the yield and at the end.
  'ApertureBalancerSink._Jitter': dict(
    cls='ApertureBalancerSink', returns='none', aspect='ap', conc='MembersAp',
    locals={'ar': 'AsyncResult', 'endpoint': 'any'},
    requires=['ApAll(self)', 'self._jitter_min <= self._jitter_max'],
    ensures=['ApAll(self)'],
    raises={'Exception': dict(ensures=['ApAll(self)'])},
    modifies=_AP_MOD + ['ApertureBalancerSink._next_jitter', 'set[TimerEntry]', 'TimerEntry.cancelled', 'TimerEntry.action', 'TimerEntry.deadline', 'TimerEntry.seq',
                        'TimerQueue._seq', 'Event.flag', 'HeapBalancerSink.g_removed', 'Channel.g_closes'],
    allocates='any',
    yields=[{'at': 'ar.wait()'}],
    ghost=[
      {'after': 'ar, endpoint = self._TryExpandAperture(True)', 'do': [
        'prove(self._size == old(self._size) or self._size == old(self._size) + 1, "jitter-grows-by-at-most-one")',
        'g_size_after_expand = self._size']},
      {'before': 'self._ContractAperture(True)', 'do': ['g_size_before_contract = self._size']},
      {'after': 'self._ContractAperture(True)', 'do': [
        'prove(self._size == g_size_before_contract or (self._size == g_size_before_contract - 1 and self._size >= self._min_size), "jitter-never-contracts-below-min-size")']},
      {'before': 'self._pending_endpoints.discard(endpoint)', 'do': ['g_idle = setof(self._idle_endpoints)']},
      {'after': 'self._pending_endpoints.discard(endpoint)', 'do': [
        'prove(set_eq(self._idle_endpoints, g_idle), "clearing-the-pending-mark-leaves-the-idle-half-alone")',
        'prove(not (endpoint in self._pending_endpoints), "pending-mark-removed")']},
    ],
    props=['C06'],
  ),
}
