"""Contracts for scales/loadbalancer/zookeeper.py (C19)."""
FILE = 'scales/loadbalancer/zookeeper.py'

CLASSES = {
  'ServerSet': dict(path='ServerSet', bases=[], fields={
    '_nodes': 'set[str]', '_members': 'dict[str,Member]', '_on_join': 'MemberCallback', '_on_leave': 'MemberCallback',
    '_watching': 'bool', '_zk_path': 'any', '_zk': 'any', '_running': 'bool', '_notification_queue': 'Queue'}),
  # a server-set member as the consumer sees it; g_left / g_joined count the notifications delivered for it
  'Member': dict(extern=True, path=None, bases=[], fields={'name': 'str', 'g_left': 'int', 'g_joined': 'int'}, ghost=['g_left', 'g_joined']),
  'MemberCallback': dict(extern=True, path=None, bases=[], fields={}),
}

FUNCTIONS = {
  # the watched path itself was deleted: every announced member leaves, once; nothing is left behind,
  # a raising consumer callback stops nothing, and the child-name cache is reset so that members
  # re-created under a re-created path are announced again
  'ServerSet._send_all_removed': dict(
    cls='ServerSet',
    requires=['allocated(self._members) and allocated(self._nodes)',
              'forall(k, "str", implies(k in self._members, allocated(self._members[k])))'],
    ensures=['card(self._members) == 0', 'forall(k, "str", not (k in self._members))',
             'forall(k, "str", not (k in self._nodes))'],
    modifies=['dict[str,Member]', 'set[str]', 'Member.g_left', 'Member.g_joined', 'ServerSet._members', 'ServerSet._nodes', '$cls'],
    allocates=True,
    locals={'members': 'dict[str,Member]'},
    loops={0: dict(invariant=['card(self._members) == 0', 'forall(k, "str", not (k in self._members))', 'forall(k, "str", not (k in self._nodes))',
                              'members == old(self._members)', 'members != self._members',
                              'forall(k, "str", (k in members) == old(k in self._members))'],
                   modifies=['Member.g_left', 'Member.g_joined'])},
    ghost=[
      {'before': 'try:', 'do': ['g_before = member.g_left + member.g_joined']},
    ],
    props=['C19'],
  ),
}

EXTERNS = {
  'MemberCallback.__call__': dict(params=[('member', 'Member')], may_raise=['Exception'],
                                  modifies=['Member.g_left', 'Member.g_joined'],
                                  ensures=['member.g_left + member.g_joined == old(member.g_left + member.g_joined) + 1'],
                                  raise_ensures=[],
                                  notes='the consumer\'s on_join / on_leave: may raise'),
}
