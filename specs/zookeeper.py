"""Contracts for scales/loadbalancer/zookeeper.py (C19)."""
FILE = 'scales/loadbalancer/zookeeper.py'

CLASSES = {
  'ServerSet': dict(path='ServerSet', bases=[], fields={
    '_nodes': 'set[str]', '_members': 'dict[str,Member]', '_on_join': 'MemberCallback', '_on_leave': 'MemberCallback',
    '_watching': 'bool', '_zk_path': 'any', '_zk': 'ZkClient', '_running': 'bool', '_notification_queue': 'NoteQueue',
    '_member_factory': 'MemberFactory', '_member_filter': 'MemberFilter', '_cb_blocker': 'CallbackBlocker'}),
  'ZkClient': dict(extern=True, path=None, bases=[], fields={}),
  'MemberFactory': dict(extern=True, path=None, bases=[], fields={}),
  'MemberFilter': dict(extern=True, path=None, bases=[], fields={}),
  'CallbackBlocker': dict(extern=True, path=None, bases=[], fields={}),
  # the worker's queue of (joined names, departed names); ghost: what the last put() handed over
  'NoteQueue': dict(extern=True, path=None, bases=[], fields={'g_new': 'set[str]', 'g_removed': 'set[str]', 'g_puts': 'int'}, ghost=['g_new', 'g_removed', 'g_puts']),
  # a server-set member as the consumer sees it; g_left / g_joined count the notifications delivered for it
  'Member': dict(extern=True, path=None, bases=[], fields={'name': 'str', 'g_left': 'int', 'g_joined': 'int'}, ghost=['g_left', 'g_joined']),
  'MemberCallback': dict(extern=True, path=None, bases=[], fields={}),
}

FUNCTIONS = {
  # the watched path itself was deleted: every announced member leaves, once; nothing is left behind,
  # a raising consumer callback stops nothing, and the child-name cache is reset so that members
  # re-created under a re-created path are announced again
  'ServerSet._send_all_removed': dict(
    cls='ServerSet',
    requires=['allocated(self._members) and allocated(self._nodes)',
              'forall(k, "str", implies(k in self._members, allocated(self._members[k])))'],
    ensures=['card(self._members) == 0', 'forall(k, "str", not (k in self._members))',
             'forall(k, "str", not (k in self._nodes))'],
    modifies=['dict[str,Member]', 'set[str]', 'Member.g_left', 'Member.g_joined', 'ServerSet._members', 'ServerSet._nodes', '$cls'],
    allocates=True,
    locals={'members': 'dict[str,Member]'},
    loops={0: dict(invariant=['card(self._members) == 0', 'forall(k, "str", not (k in self._members))', 'forall(k, "str", not (k in self._nodes))',
                              'members == old(self._members)', 'members != self._members',
                              'forall(k, "str", (k in members) == old(k in self._members))'],
                   modifies=['Member.g_left', 'Member.g_joined'])},
    ghost=[
      {'before': 'try:', 'do': ['g_before = member.g_left + member.g_joined']},
    ],
    props=['C19'],
  ),
}

PREDICATES = {
  # the member cache maps a name to an allocated member object
  'MembersWf': (['s'], 'allocated(s._members) and forall(k, "str", implies(k in s._members, allocated(s._members[k])))'),
}

# the caches are shared between the worker, the children callback and the path-deleted handler: whenever the worker is
# descheduled (queue get, the blocker, ZooKeeper reads) they may have been replaced or changed
CONCURRENCY = {
  'ZkSet': dict(
    state=['ServerSet._members', 'dict[str,Member]', 'ServerSet._nodes', 'set[str]', 'Member.g_left', 'Member.g_joined'],
    invariant=['MembersWf(self)'],
    guarantee=[],
  ),
}

FUNCTIONS.update({
  # the worker: for one queued (joined, departed) pair -- read the joined members, cache them, then for every departed
  # name forget the cached member *before* telling the consumer (so a raising callback leaves nothing behind and the
  # member cannot be announced as leaving twice), then announce the joined ones; no consumer exception stops the loop
  'ServerSet._notification_worker': dict(
    cls='ServerSet', conc='ZkSet',
    locals={'work': 'tuple[set[str],set[str]]', 'new_nodes': 'set[str]', 'removed_nodes': 'set[str]', 'new_members': 'list[Member]',
            'removed_member': 'Member?'},
    requires=['MembersWf(self)', 'allocated(self._notification_queue)', 'allocated(self._cb_blocker)'],
    ensures=[], raises={'GreenletExit': dict()},
    modifies=['ServerSet._members', 'ServerSet._nodes', 'dict[str,Member]', 'Member.g_left', 'Member.g_joined', '$cls', 'set[str]'], allocates='any',
    yields=[{'at': 'self._notification_queue.get()'}, {'at': 'self._cb_blocker.ensure_safe()'}, {'at': 'self._zk_nodes_to_members(new_nodes)'}],
    loops={
      0: dict(invariant=['MembersWf(self)', 'allocated(self._notification_queue)', 'allocated(self._cb_blocker)'],
              modifies=['dict[str,Member]', 'Member.g_left', 'Member.g_joined', '$cls', 'set[str]', 'ServerSet._members', 'ServerSet._nodes'], allocates='any'),
      1: dict(invariant=['MembersWf(self)', 'allocated(new_members)', 'forall(k, 0, len(new_members), allocated(new_members[k]))',
                         'forall(k, 0, _i1, new_members[k].name in self._members)'],
              modifies=['dict[str,Member]'], allocates='any'),
      2: dict(invariant=['MembersWf(self)', 'allocated(new_members)', 'forall(k, 0, len(new_members), allocated(new_members[k]))', 'allocated(removed_nodes)'],
              modifies=['dict[str,Member]', 'Member.g_left', 'Member.g_joined'], allocates='any'),
      3: dict(invariant=['MembersWf(self)', 'allocated(new_members)', 'forall(k, 0, len(new_members), allocated(new_members[k]))'],
              modifies=['Member.g_left', 'Member.g_joined'], allocates='any'),
    },
    ghost=[
      {'before': 'self._on_leave(removed_member)', 'do': [
        'prove(not (m in self._members), "departed-member-forgotten-before-the-callback")',
        'g_l0 = removed_member.g_left + removed_member.g_joined']},
      {'after': 'self._on_leave(removed_member)', 'do': ['prove(removed_member.g_left + removed_member.g_joined == g_l0 + 1, "one-leave-notification")']},
    ],
    props=['C19'],
  ),
  # reading one member's data: touches no ServerSet state (the child-name cache _nodes and the member cache are the
  # business of the children callback and of the worker only); a node deleted in between reads as None
  'ServerSet._get_info': dict(
    cls='ServerSet', params={'member': 'str'}, returns='any', may_yield=True,
    requires=[], ensures=[], raises={'NoNodeError': dict(), 'Exception': dict()},
    modifies=[], allocates=True, yields=[{'at': 'self._zk.get('}],
    props=['C19'],
  ),
  'ServerSet._safe_zk_node_to_member': dict(
    cls='ServerSet', params={'node': 'str'}, returns='Member?', may_yield=True,
    requires=[], ensures=['implies(result is not None, allocated(result))'],
    raises={'Exception': dict()},
    modifies=['$cls'], allocates=True, yields=[{'at': 'self._get_info(node)'}],
    props=['C19'],
  ),
  'ServerSet._zk_nodes_to_members': dict(
    cls='ServerSet', params={'nodes': 'set[str]'}, returns='list[Member]', may_yield=True, trusted=True,
    requires=[], ensures=['fresh(result)', 'forall(k, 0, len(result), allocated(result[k]) and (result[k].name in nodes))'],
    raises={'Exception': dict()}, modifies=['$cls'], allocates=True,
    notes='[m for m in (self._safe_zk_node_to_member(n) for n in nodes if filter(n)) if m]: nested generator, contract assumed; '
          'its only callee with effects, _safe_zk_node_to_member, is verified separately (modifies nothing)',
  ),
  # children callback: the child-name cache becomes the (filtered) listing, and the difference to the previous listing
  # is queued for the worker -- joined = listed now but not before, departed = listed before but not now
  'ServerSet._on_set_changed': dict(
    cls='ServerSet', params={'children': 'list[str]'},
    locals={'current_nodes': 'set[str]', 'new_nodes': 'set[str]', 'removed_nodes': 'set[str]'},
    requires=['allocated(self._nodes)', 'allocated(self._notification_queue)'],
    ensures=['self._notification_queue.g_puts == old(self._notification_queue.g_puts) + 1',
             'forall(x, "str", (x in self._notification_queue.g_new) == ((x in self._nodes) and not old(x in self._nodes)))',
             'forall(x, "str", (x in self._notification_queue.g_removed) == (old(x in self._nodes) and not (x in self._nodes)))'],
    modifies=['ServerSet._nodes', 'set[str]', 'NoteQueue.g_new', 'NoteQueue.g_removed', 'NoteQueue.g_puts', '$cls'], allocates=True,
    literals={'[c for c in children if self._member_filter(c)]': 'list[str]'},
    props=['C19'],
  ),
})

EXTERNS = {
  'ZkClient.get': dict(params=[('path', 'any')], returns='list[any]', fresh=True, allocates=True, yields=True, may_raise=['NoNodeError', 'Exception'],
                       ensures=['result is not None', 'len(result) == 2'], notes='kazoo get(): (data, stat), or NoNodeError'),
  'posixpath.join': dict(params=[('a', 'any'), ('b', 'any')], returns='any'),
  'MemberFactory.__call__': dict(params=[('node', 'str'), ('data', 'any')], returns='Member', fresh=True, allocates=True, may_raise=['Exception'],
                                 ensures=['result is not None', 'result.name == node'], notes='Member.from_node by default'),
  'MemberFilter.__call__': dict(params=[('name', 'any')], returns='bool', notes='the consumer\'s member filter: a pure predicate on the child name'),
  'NoteQueue.get': dict(params=[], returns='tuple[set[str],set[str]]', yields=True, may_raise=['GreenletExit'], allocates=True,
                        ensures=['allocated(result[0]) and allocated(result[1])'], notes='blocks until a work item is queued'),
  'CallbackBlocker.ensure_safe': dict(params=[], yields=True, may_raise=['GreenletExit'], notes='waits while get_members() is iterating'),
  'NoteQueue.put': dict(params=[('item', 'tuple[set[str],set[str]]')], modifies=['NoteQueue.g_new', 'NoteQueue.g_removed', 'NoteQueue.g_puts'],
                        ensures=['self.g_puts == old(self.g_puts) + 1', 'self.g_new == item[0]', 'self.g_removed == item[1]']),
  'MemberCallback.__call__': dict(params=[('member', 'Member')], may_raise=['Exception'],
                                  modifies=['Member.g_left', 'Member.g_joined'],
                                  ensures=['member.g_left + member.g_joined == old(member.g_left + member.g_joined) + 1'],
                                  raise_ensures=[],
                                  notes='the consumer\'s on_join / on_leave: may raise'),
}
