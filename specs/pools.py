"""Contracts for scales/pool/*.py (C07, C16)."""
FILE = 'scales/pool/singleton.py'

CLASSES = {
  'PoolSink': dict(file='scales/pool/base.py', path='PoolSink', bases=['ClientMessageSink'],
                   fields={'_properties': 'any', '_sink_provider': 'NextProvider'}),
  'SingletonPoolSink': dict(path='SingletonPoolSink', bases=['PoolSink'], fields={
    '_ref_count': 'int', 'endpoint': 'any',
    'g_creates': 'int', 'g_drops': 'int'}, ghost=['g_creates', 'g_drops']),
}

CONCURRENCY = {
  # what other greenlets may do to a singleton pool while one of its operations is descheduled
  'Singleton': dict(
    state=['MessageSink._next', 'SingletonPoolSink._ref_count', 'SingletonPoolSink.g_creates',
           'SingletonPoolSink.g_drops', 'Channel.state', 'Channel.g_opens', 'Channel.g_closes'],
    invariant=[
      # at most one underlying sink exists at a time: creations never outrun drops by more than one,
      # and a sink is held exactly when they differ
      '0 <= self.g_creates - self.g_drops and self.g_creates - self.g_drops <= 1',
      '(self._next is not None) == (self.g_creates - self.g_drops == 1)'],
    guarantee=['self.g_creates >= old(self.g_creates)', 'self.g_drops >= old(self.g_drops)'],
  ),
}

FUNCTIONS = {
  # behavioural contracts of the pool hooks (each pool class is verified against its own)
  'PoolSink._Get': dict(file='scales/pool/base.py', cls='PoolSink', returns='Channel', may_yield=True, trusted=True,
                        requires=[], ensures=[], raises={'Exception': dict()}, modifies=['*'], allocates=True,
                        notes='abstract hook: lends a sink (may block while a connection opens, may raise)'),
  'PoolSink._Release': dict(file='scales/pool/base.py', cls='PoolSink', params={'sink': 'any'}, trusted=True,
                            requires=[], ensures=[], modifies=['*'], allocates=True,
                            notes='abstract hook: takes a lent sink back'),
  'PoolSink.AsyncProcessRequest': dict(
    file='scales/pool/base.py', cls='PoolSink',
    params={'sink_stack': 'ClientMessageSinkStack', 'msg': 'Message', 'stream': 'any', 'headers': 'any'},
    requires=[], ensures=[], modifies=['*'], allocates=True,
    yields=[{'at': 'self._Get()'}],
    ghost=[
      {'before': 'sink_stack.AsyncProcessResponseMessage(ex_msg)', 'do': ['prove(ex_msg.error is not None, "get-failure-answered-with-an-error")']},
      {'after': 'sink_stack.Push(self, sink)', 'do': [
        'prove(sink_stack._stack[len(sink_stack._stack) - 1][0] == self and sink_stack._stack[len(sink_stack._stack) - 1][1] == sink, "lent-sink-recorded-for-release")']},
    ],
    props=['C01', 'C07'],
  ),
  'PoolSink.AsyncProcessResponse': dict(
    file='scales/pool/base.py', cls='PoolSink',
    params={'sink_stack': 'ClientMessageSinkStack', 'context': 'any', 'stream': 'any', 'msg': 'any'},
    requires=[], ensures=[], modifies=['*'], allocates=True,
    ghost=[{'before': 'sink_stack.AsyncProcessResponse(stream, msg)', 'do': ['g_released_before_forward = True']}],
    props=['C01', 'C07'],
  ),
  'SingletonPoolSink._Get': dict(
    cls='SingletonPoolSink', returns='Channel?', conc='Singleton', may_yield=True,
    requires=[], ensures=[],
    modifies=['MessageSink._next', 'SingletonPoolSink.g_creates', 'SingletonPoolSink.g_drops', 'Channel.g_opens',
              'SingletonPoolSink._ref_count', 'Channel.state', 'Channel.g_closes'],
    allocates=True,
    yields=[{'at': 'self.next_sink.Open().wait()'}, {'at': 'self._Get()'}],
    ghost=[
      {'before': 'self.next_sink = self._sink_provider.CreateSink(self._properties)', 'do': [
        'prove(self._next is None, "create-only-when-none-held")', 'self.g_creates = self.g_creates + 1']},
      {'after': 'self.next_sink = None', 'do': ['self.g_drops = self.g_drops + 1']},
      # a sink is replaced only once it reports closed
      {'before': 'self.next_sink = None', 'do': ['prove(self._next.state == ChannelState.Closed, "dropped-only-when-closed")']},
    ],
    props=['C16'],
  ),
  'SingletonPoolSink.Close': dict(
    cls='SingletonPoolSink', conc='Singleton',
    requires=[], ensures=['implies(old(self._next is not None and self._ref_count <= 1), self._next is None)'],
    modifies=['MessageSink._next', 'SingletonPoolSink._ref_count', 'SingletonPoolSink.g_drops', 'Channel.state', 'Channel.g_closes'],
    ghost=[{'after': 'sink, self.next_sink = (self.next_sink, None)', 'do': ['self.g_drops = self.g_drops + 1']}],
    props=['C16'],
  ),
}

EXTERNS = {
  'AsyncResult.wait': dict(params=[('timeout', 'real?')], yields=True, returns='bool',
                           notes='blocks the calling greenlet: other greenlets run (gevent)'),
}
