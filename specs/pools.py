"""Contracts for scales/pool/*.py (C07, C16)."""
FILE = 'scales/pool/singleton.py'

CLASSES = {
  'PoolSink': dict(file='scales/pool/base.py', path='PoolSink', bases=['ClientMessageSink'],
                   fields={'_properties': 'any', '_sink_provider': 'NextProvider'}),
  'SingletonPoolSink': dict(path='SingletonPoolSink', bases=['PoolSink'], fields={
    '_ref_count': 'int', 'endpoint': 'any',
    'g_creates': 'int', 'g_drops': 'int'}, ghost=['g_creates', 'g_drops']),
}

CONCURRENCY = {
  # what other greenlets may do to a singleton pool while one of its operations is descheduled
  'Singleton': dict(
    state=['MessageSink._next', 'SingletonPoolSink._ref_count', 'SingletonPoolSink.g_creates',
           'SingletonPoolSink.g_drops', 'Channel.state', 'Channel.g_opens', 'Channel.g_closes'],
    invariant=[
      # at most one underlying sink exists at a time: creations never outrun drops by more than one,
      # and a sink is held exactly when they differ
      '0 <= self.g_creates - self.g_drops and self.g_creates - self.g_drops <= 1',
      '(self._next is not None) == (self.g_creates - self.g_drops == 1)'],
    guarantee=['self.g_creates >= old(self.g_creates)', 'self.g_drops >= old(self.g_drops)'],
  ),
}

FUNCTIONS = {
  # behavioural contracts of the pool hooks (each pool class is verified against its own)
  'PoolSink._Get': dict(file='scales/pool/base.py', cls='PoolSink', returns='Channel', may_yield=True, trusted=True,
                        requires=[], ensures=[], raises={'Exception': dict()}, modifies=['*'], allocates=True,
                        notes='abstract hook: lends a sink (may block while a connection opens, may raise)'),
  'PoolSink._Release': dict(file='scales/pool/base.py', cls='PoolSink', params={'sink': 'any'}, trusted=True,
                            requires=[], ensures=[], modifies=['*'], allocates=True,
                            notes='abstract hook: takes a lent sink back'),
  'PoolSink.AsyncProcessRequest': dict(
    file='scales/pool/base.py', cls='PoolSink',
    params={'sink_stack': 'ClientMessageSinkStack', 'msg': 'Message', 'stream': 'any', 'headers': 'any'},
    requires=[], ensures=[], modifies=['*'], allocates=True,
    yields=[{'at': 'self._Get()'}],
    ghost=[
      {'before': 'sink_stack.AsyncProcessResponseMessage(ex_msg)', 'do': ['prove(ex_msg.error is not None, "get-failure-answered-with-an-error")']},
      {'after': 'sink_stack.Push(self, sink)', 'do': [
        'prove(sink_stack._stack[len(sink_stack._stack) - 1][0] == self and sink_stack._stack[len(sink_stack._stack) - 1][1] == sink, "lent-sink-recorded-for-release")']},
    ],
    props=['C01', 'C07'],
  ),
  'PoolSink.AsyncProcessResponse': dict(
    file='scales/pool/base.py', cls='PoolSink',
    params={'sink_stack': 'ClientMessageSinkStack', 'context': 'any', 'stream': 'any', 'msg': 'any'},
    requires=[], ensures=[], modifies=['*'], allocates=True,
    ghost=[{'before': 'sink_stack.AsyncProcessResponse(stream, msg)', 'do': ['g_released_before_forward = True']}],
    props=['C01', 'C07'],
  ),
  'SingletonPoolSink._Get': dict(
    cls='SingletonPoolSink', returns='Channel?', conc='Singleton', may_yield=True,
    requires=[], ensures=[],
    modifies=['Observable.g_nsubs', 'MessageSink._next', 'SingletonPoolSink.g_creates', 'SingletonPoolSink.g_drops', 'Channel.g_opens',
              'SingletonPoolSink._ref_count', 'Channel.state', 'Channel.g_closes'],
    allocates=True,
    yields=[{'at': 'self.next_sink.Open().wait()'}, {'at': 'self._Get()'}],
    ghost=[
      {'before': 'self.next_sink = self._sink_provider.CreateSink(self._properties)', 'do': [
        'prove(self._next is None, "create-only-when-none-held")', 'self.g_creates = self.g_creates + 1']},
      {'after': 'self.next_sink = None', 'do': ['self.g_drops = self.g_drops + 1']},
      # a sink is replaced only once it reports closed
      {'before': 'self.next_sink = None', 'do': ['prove(self._next.state == ChannelState.Closed, "dropped-only-when-closed")']},
    ],
    props=['C16'],
  ),
  'SingletonPoolSink.Close': dict(
    cls='SingletonPoolSink', conc='Singleton',
    requires=[], ensures=['implies(old(self._next is not None and self._ref_count <= 1), self._next is None)'],
    modifies=['Observable.g_nsubs', 'MessageSink._next', 'SingletonPoolSink._ref_count', 'SingletonPoolSink.g_drops', 'Channel.state', 'Channel.g_closes'],
    ghost=[{'after': 'sink, self.next_sink = (self.next_sink, None)', 'do': ['self.g_drops = self.g_drops + 1']}],
    props=['C16'],
  ),
}

FUNCTIONS.update({
  # a new singleton pool holds no sink and no reference: the at-most-one invariant starts from "none created, none dropped"
  'SingletonPoolSink.__init__': dict(
    cls='SingletonPoolSink', params={'sink_provider': 'NextProvider', 'sink_properties': 'any', 'global_properties': 'any'}, returns='none',
    requires=['self.g_creates == self.g_drops'],
    ensures=['self._next is None', 'self._ref_count == 0', 'self._sink_provider == sink_provider', 'self._properties == global_properties',
             '0 <= self.g_creates - self.g_drops and self.g_creates - self.g_drops <= 1',
             '(self._next is not None) == (self.g_creates - self.g_drops == 1)'],
    modifies=['*'], allocates=True, drop=['endpoint', 'endpoint_source'],
    props=['C16'],
  ),
})

EXTERNS = {}

# ---------------------------------------------------------------------------- watermark pool (C07)
CLASSES.update({
  'WatermarkPoolSink': dict(file='scales/pool/watermark.py', path='WatermarkPoolSink', bases=['PoolSink'], fields={
    '_cache': 'deque[Channel]', '_waiters': 'deque[tuple[ClientMessageSinkStack,Message,any,any]]',
    '_min_size': 'int', '_max_size': 'int', '_max_queue_size': 'int', '_current_size': 'int', '_state': 'int',
    'endpoint': 'any',
    # ghost: the connections currently lent to a request
    'g_lent': 'set[any]',
    # ghost: how many queue-processing greenlets a release has started
    'g_pq': 'int'}, ghost=['g_lent', 'g_pq']),
  'QueuingMessageSink': dict(file='scales/pool/watermark.py', path='QueuingMessageSink', bases=['Channel'],
                             fields={'_queue': 'deque[tuple[ClientMessageSinkStack,Message,any,any]]'}),
  'MaxWaitersError': dict(file='scales/pool/watermark.py', path='MaxWaitersError', bases=[], fields={}),
})

PREDICATES = {
  'is_real_sink': (['s'], 'not dyn_is(s, QueuingMessageSink) and not dyn_is(s, FailingMessageSink)'),
  # connections in existence = lent + cached, never more than the high watermark; never both lent and cached
  'PoolInv': (['p'],
     '0 <= p._min_size and p._current_size == card(p.g_lent) + len(p._cache) and card(p.g_lent) >= 0 and '
     'p._current_size <= p._max_size and len(p._waiters) <= p._max_queue_size and '
     'forall(q, dq_lo(p._cache), dq_hi(p._cache), not (dq_at(p._cache, q) in p.g_lent) and allocated(dq_at(p._cache, q)) and is_real_sink(dq_at(p._cache, q))) and '
     'forall((i, j), implies(dq_lo(p._cache) <= i and i < j and j < dq_hi(p._cache), dq_at(p._cache, i) != dq_at(p._cache, j))) and '
     'forall(x, "any", implies(x in p.g_lent, allocated(x))) and '
     'allocated(p._cache) and allocated(p._waiters) and allocated(p.g_lent)'),
}

CONCURRENCY['Watermark'] = dict(
  state=['deque[Channel]', 'deque[tuple[ClientMessageSinkStack,Message,any,any]]', 'WatermarkPoolSink._current_size',
         'WatermarkPoolSink._state', 'set[any]', 'Channel.state', 'Channel.g_opens', 'Channel.g_closes', 'deque[tuple[AnySink,any]]'],
  invariant=['PoolInv(self)'],
  guarantee=['self._min_size == old(self._min_size) and self._max_size == old(self._max_size) and self._max_queue_size == old(self._max_queue_size)'],
)

FUNCTIONS.update({
  'WatermarkPoolSink._DiscardSink': dict(
    file='scales/pool/watermark.py', cls='WatermarkPoolSink', params={'sink': 'Channel'},
    requires=[], ensures=['sink.g_closes == old(sink.g_closes) + 1',
                          'forall_ref(c, Channel, implies(c != sink, c.g_closes == old(c.g_closes) and c.state == old(c.state)), c.g_closes)'],
    modifies=['Observable.g_nsubs', 'Channel.state', 'Channel.g_closes'],
    props=['C07'],
  ),
  'WatermarkPoolSink._Dequeue': dict(
    file='scales/pool/watermark.py', cls='WatermarkPoolSink', returns='Channel?', conc=None, guar=[],
    locals={'item': 'Channel'},
    requires=['PoolInv(self)'],
    ensures=['implies(result is not None, not (result in self.g_lent) '
             '        and result.state <= ChannelState.Open and is_real_sink(result))',
             'implies(result is None, len(self._cache) == 0)',
             'self.g_lent == old(self.g_lent)', 'set_eq(self.g_lent, old(setof(self.g_lent)))',
             # taking a sink out of the cache keeps the accounting: the caller owns result (not yet in g_lent)
             'self._current_size == card(self.g_lent) + len(self._cache) + (1 if result is not None else 0)',
             'self._current_size <= old(self._current_size)',
             # what stays cached is still well-formed
             'forall(q, dq_lo(self._cache), dq_hi(self._cache), not (dq_at(self._cache, q) in self.g_lent) and allocated(dq_at(self._cache, q)) and is_real_sink(dq_at(self._cache, q)) and dq_at(self._cache, q) != result)',
             'forall((i, j), implies(dq_lo(self._cache) <= i and i < j and j < dq_hi(self._cache), dq_at(self._cache, i) != dq_at(self._cache, j)))'],
    modifies=['deque[Channel]', 'Channel.state', 'Channel.g_closes', 'WatermarkPoolSink._current_size'],
    loops={0: dict(invariant=['0 <= self._min_size and card(self.g_lent) >= 0 and self._current_size == card(self.g_lent) + len(self._cache)',
                              'self._current_size <= self._max_size',
                              'forall(q, dq_lo(self._cache), dq_hi(self._cache), not (dq_at(self._cache, q) in self.g_lent) and allocated(dq_at(self._cache, q)) and is_real_sink(dq_at(self._cache, q)))',
                              'forall((i, j), implies(dq_lo(self._cache) <= i and i < j and j < dq_hi(self._cache), dq_at(self._cache, i) != dq_at(self._cache, j)))',
                              'self._current_size <= old(self._current_size)', 'dq_lo(self._cache) >= old(dq_lo(self._cache)) and dq_hi(self._cache) == old(dq_hi(self._cache))',
                              'forall(q, dq_lo(self._cache), dq_hi(self._cache), dq_at(self._cache, q) == old(dq_at(self._cache, q)))',
                              'set_eq(self.g_lent, old(setof(self.g_lent)))', 'allocated(self._cache)'],
                   modifies=['deque[Channel]', 'Channel.state', 'Channel.g_closes', 'WatermarkPoolSink._current_size'])},
    props=['C07'],
  ),
})

FUNCTIONS.update({
  'QueuingMessageSink.AsyncProcessRequest': dict(
    file='scales/pool/watermark.py', cls='QueuingMessageSink',
    params={'sink_stack': 'ClientMessageSinkStack', 'msg': 'Message', 'stream': 'any', 'headers': 'any'},
    requires=['allocated(self._queue)'],
    # waiters are appended at the tail: arrival order
    ensures=['len(self._queue) == old(len(self._queue)) + 1', 'self._queue[len(self._queue) - 1][0] == sink_stack',
             'forall(k, 0, old(len(self._queue)), self._queue[k][0] == old(self._queue[k][0]))'],
    modifies=['deque[tuple[ClientMessageSinkStack,Message,any,any]]'],
    props=['C07'],
  ),

  'WatermarkPoolSink._Get': dict(
    file='scales/pool/watermark.py', cls='WatermarkPoolSink', returns='Channel', conc='Watermark', may_yield=True,
    locals={'cached': 'Channel?', 'sink': 'Channel'},
    requires=[],
    ensures=[
      # a real connection is lent to exactly this request
      'implies(is_real_sink(result), result in self.g_lent)',
      'implies(dyn_is(result, QueuingMessageSink), fresh(result))',
    ],
    modifies=['Observable.g_nsubs', 'deque[Channel]', 'WatermarkPoolSink._current_size', 'set[any]', 'Channel.state', 'Channel.g_opens', 'Channel.g_closes',
              'Channel.on_faulted', 'FailingMessageSink._ex', 'QueuingMessageSink._queue', 'ClientMessageSink._on_faulted', 'MessageSink._next', '$cls'],
    allocates='any',
    # only the request a connection is lent to gives it back: it stays lent while we wait for it to open
    yields=[{'at': 'sink.Open().wait()', 'rely': ['sink in self.g_lent']}],
    ghost=[
      {'before': 'return cached', 'do': [
        'prove(not (cached in self.g_lent), "never-lent-twice")', 'self.g_lent.add(cached)']},
      {'before': 'self._current_size += 1', 'do': ['prove(self._current_size < self._max_size, "creates-only-below-the-high-watermark")']},
      {'after': 'sink = self._sink_provider.CreateSink(self._properties)', 'do': ['self.g_lent.add(sink)']},
      {'before': 'return FailingMessageSink(MaxWaitersError)', 'do': [
        'prove(len(self._waiters) >= self._max_queue_size and self._current_size >= self._max_size, "fails-only-when-pool-and-queue-are-full")']},
      {'before': 'return QueuingMessageSink(self._waiters)', 'do': [
        'prove(len(self._waiters) < self._max_queue_size and self._current_size >= self._max_size, "queues-only-at-the-high-watermark-with-room")']},
    ],
    props=['C07'],
  ),

  'WatermarkPoolSink._FlushCache': dict(
    file='scales/pool/watermark.py', cls='WatermarkPoolSink',
    requires=['allocated(self._cache)'], ensures=[],
    modifies=['Channel.state', 'Channel.g_closes'],
    loops={0: dict(invariant=['True'], modifies=['Channel.state', 'Channel.g_closes'])},
    props=['C07'],
  ),
  # closing the pool: every waiting request is failed, once, with a service-closed error
  'WatermarkPoolSink.Close': dict(
    file='scales/pool/watermark.py', cls='WatermarkPoolSink',
    requires=['allocated(self._cache) and allocated(self._waiters)'],
    ensures=['self._state == ChannelState.Closed'],
    modifies=['WatermarkPoolSink._state', 'Channel.state', 'Channel.g_closes', 'deque[tuple[AnySink,any]]', 'AnySink.g_invoked',
              'MethodReturnMessage.error', 'MethodReturnMessage.return_value', 'MethodReturnMessage.stack',
              'FailingMessageSink._ex', 'ClientMessageSink._on_faulted', 'MessageSink._next', '$cls'],
    allocates='any',
    loops={0: dict(invariant=['callable(fail_sink._ex)', '_p0 >= old(dq_lo(self._waiters))',
                              'dq_lo(self._waiters) == old(dq_lo(self._waiters)) and dq_hi(self._waiters) == old(dq_hi(self._waiters))'],
                   modifies=['deque[tuple[AnySink,any]]', 'AnySink.g_invoked', 'MethodReturnMessage.error', 'MethodReturnMessage.return_value',
                             'MethodReturnMessage.stack', '$cls'], allocates=True)},
    ghost=[
      # the loop visits the waiters front to back, one failure message each (FailingMessageSink posts exactly one)
      {'before': 'fail_sink.AsyncProcessRequest(sink_stack, msg, stream, headers)', 'do': [
        'prove(sink_stack == dq_at(self._waiters, _p0)[0], "each-waiter-in-queue-order")']},
    ],
    props=['C07'],
  ),

  'WatermarkPoolSink._Release': dict(
    file='scales/pool/watermark.py', cls='WatermarkPoolSink', params={'sink': 'Channel'}, conc='Watermark',
    requires=['allocated(sink)', 'implies(is_real_sink(sink), sink in self.g_lent)'],
    ensures=[
      # the connection is handed on (still lent), cached, or closed and un-counted -- never lost
      'implies(old(is_real_sink(sink)) and not (sink in self.g_lent), '
      '        exists(k, 0, len(self._cache), self._cache[k] == sink) or sink.g_closes == old(sink.g_closes) + 1 or self._state == ChannelState.Closed or old(self._state) == ChannelState.Closed)',
      # somebody is waiting: the released connection goes straight to the queue (it stays lent, is neither cached nor
      # closed), whatever the state of the waiter at the head -- completed waiters are skipped by _ProcessQueue, not here
      'implies(old(is_real_sink(sink)) and old(self._state) != ChannelState.Closed and old(sink.state) != ChannelState.Closed and old(len(self._waiters)) > 0, '
      '        (sink in self.g_lent) and self.g_pq == old(self.g_pq) + 1 and len(self._cache) == old(len(self._cache)) and sink.g_closes == old(sink.g_closes))',
      # retained connections: cached only at or below the low watermark
      'implies(len(self._cache) > old(len(self._cache)), self._current_size <= self._min_size)',
    ],
    modifies=['WatermarkPoolSink.g_pq', 'Observable.g_nsubs', 'deque[Channel]', 'WatermarkPoolSink._current_size', 'WatermarkPoolSink._state', 'set[any]',
              'Channel.state', 'Channel.g_closes', 'deque[tuple[AnySink,any]]', 'AnySink.g_invoked',
              'MethodReturnMessage.error', 'MethodReturnMessage.return_value', 'MethodReturnMessage.stack',
              'FailingMessageSink._ex', 'ClientMessageSink._on_faulted', 'MessageSink._next', '$cls'],
    allocates='any',
    ghost=[
      {'after': 'gevent.spawn(self._ProcessQueue, sink)', 'do': ['self.g_pq = self.g_pq + 1']},
      {'after': 'self._current_size -= 1', 'do': ['self.g_lent.discard(sink)']},
      {'before': 'self._cache.append(sink)', 'do': ['self.g_lent.discard(sink)']},
    ],
    props=['C07'],
  ),

  'WatermarkPoolSink._ProcessQueue': dict(
    file='scales/pool/watermark.py', cls='WatermarkPoolSink', params={'sink': 'Channel'}, conc='Watermark',
    # entry point of a spawned greenlet: only the shared-state invariant and ownership of the
    # connection may be assumed -- not that the waiter it was spawned for is still there
    requires=['allocated(sink)', 'sink in self.g_lent', 'is_real_sink(sink)'],
    # unless the connection went to a waiter (whose downstream processing is arbitrary), the pool is consistent
    # again when the greenlet ends: in particular the connection is not both cached and still counted as lent
    ensures=['implies(not g_handed, PoolInv(self))'],
    modifies=['*'], allocates='any', guar=[],
    loops={0: dict(invariant=['PoolInv(self)', 'sink in self.g_lent'], allocates='any',
                   modifies=['deque[tuple[ClientMessageSinkStack,Message,any,any]]'])},
    ghost=[
      # FIFO: a waiter is passed over only if its call has already completed (drained stack)
      {'before': 'while any(self._waiters):', 'do': ['g_handed = False']},
      {'before': 'continue', 'do': ['prove(len(sink_stack._stack) == 0, "skips-only-completed-waiters")']},
      {'before': 'self._Release(sink)', 'do': ['prove(len(self._waiters) == 0 and PoolInv(self) and (sink in self.g_lent), "released-when-nobody-waits")']},
      {'before': 'sink.AsyncProcessRequest(sink_stack, msg, stream, headers)', 'do': [
        # the connection stays lent and goes to a waiter whose call is still pending
        'prove(PoolInv(self) and (sink in self.g_lent), "capacity-conserved-when-handing-over")',
        'prove(len(sink_stack._stack) >= 1, "waiter-still-pending")', 'g_handed = True']},
    ],
    props=['C07', 'C12'],
  ),
})

# ---------------------------------------------------------------------------- construction (C07)
CLASSES.update({
  'PoolPropsX': dict(extern=True, path=None, bases=[], fields={'min_watermark': 'int', 'max_watermark': 'int', 'max_queue_len': 'int'}),
})

FUNCTIONS.update({
  # a new pool holds no connection: nothing lent, nothing cached, nobody waiting -- the accounting invariant holds
  # for any sensible configuration (0 <= low watermark, 0 <= high watermark, 0 <= queue length)
  'WatermarkPoolSink.__init__': dict(
    file='scales/pool/watermark.py', cls='WatermarkPoolSink',
    params={'next_provider': 'NextProvider', 'sink_properties': 'PoolPropsX', 'global_properties': 'any'}, returns='none',
    requires=['allocated(sink_properties)', 'sink_properties.min_watermark >= 0', 'sink_properties.max_watermark >= 0', 'sink_properties.max_queue_len >= 0'],
    ensures=['PoolInv(self)', 'self._current_size == 0', 'card(self.g_lent) == 0', 'len(self._cache) == 0', 'len(self._waiters) == 0'],
    modifies=['*'], allocates=True, drop=['Varz', 'ROOT_LOG', 'endpoint'],
    ghost=[{'after': 'self._current_size = 0', 'do': ['self.g_lent = set()']}],
    literals={'set()': 'set[any]', 'deque()': 'deque[Channel]'},
    props=['C07'],
  ),
})
