"""Contracts for scales/core.py (C20)."""
FILE = 'scales/core.py'

CLASSES = {
  '_ProxyBase': dict(path='_ProxyBase', bases=[], fields={'_dispatcher': 'Dispatcher'}),
  # the message dispatcher as the generated proxy methods see it; ghost: the last call handed to it
  'Dispatcher': dict(extern=True, path=None, bases=[], fields={'g_calls': 'int', 'g_method': 'any', 'g_args': 'any', 'g_kwargs': 'any'},
                     ghost=['g_calls', 'g_method', 'g_args', 'g_kwargs']),
  'ScalesUriParser': dict(path='ScalesUriParser', bases=[], fields={'handlers': 'dict[str,any]'}),
  'Server': dict(extern=True, path=None, bases=[], listlike=['service_endpoint'], fields={'service_endpoint': 'Endpoint'}),
  'Endpoint': dict(file='scales/loadbalancer/zookeeper.py', path='Endpoint', bases=[], fields={'_host': 'str', '_port': 'int'}),
  'StaticServerSetProvider': dict(file='scales/loadbalancer/serverset.py', path='StaticServerSetProvider', bases=[], fields={'_servers': 'list[Server]'}),
  'ZooKeeperServerSetProvider': dict(extern=True, path=None, bases=[], fields={'g_hosts': 'str', 'g_path': 'str', 'g_endpoint': 'any'}, ghost=['g_hosts', 'g_path', 'g_endpoint']),
  'ParseResult': dict(extern=True, path=None, bases=[], listlike=['scheme', 'netloc', 'path', 'params', 'query', 'fragment'], fields={'scheme': 'str', 'netloc': 'str', 'path': 'str', 'params': 'str', 'query': 'str', 'fragment': 'str'}),
}

FUNCTIONS = {
  # both generated forms hand the method name, positional and keyword arguments to the dispatcher unchanged
  'ClientProxyBuilder._BuildServiceProxy.ProxyMethod._ProxyMethod': dict(
    path='ClientProxyBuilder._BuildServiceProxy.ProxyMethod._ProxyMethod',
    params={'self': '_ProxyBase', 'args': 'any', 'kwargs': 'any'},
    captures={'method_name': 'any', 'asynchronous': 'bool', 'orig_method': 'any'},
    returns='any',
    requires=['allocated(self._dispatcher)'],
    ensures=['self._dispatcher.g_calls == old(self._dispatcher.g_calls) + 1', 'implies(asynchronous, result == g_ar)',
             'self._dispatcher.g_method == method_name and self._dispatcher.g_args == args and self._dispatcher.g_kwargs == kwargs'],
    raises={'Exception': dict(ensures=['self._dispatcher.g_calls == old(self._dispatcher.g_calls) + 1', 'not asynchronous']),
            'GreenletExit': dict(ensures=['not asynchronous'])},
    modifies=['Dispatcher.g_calls', 'Dispatcher.g_method', 'Dispatcher.g_args', 'Dispatcher.g_kwargs', '$cls'], allocates=True,
    yields=[{'at': 'ar.get()'}],
    # the asynchronous form returns the dispatcher's AsyncResult itself; the synchronous one blocks on it
    ghost=[
      {'after': 'ar = self._dispatcher.DispatchMethodCall(method_name, args, kwargs)', 'do': ['g_ar = ar']},
    ],
    props=['C20'],
  ),

  # tcp://h1:p1,h2:p2,... -> exactly those endpoints, in order
  'ScalesUriParser._HandleTcp': dict(
    cls='ScalesUriParser', params={'uri': 'ParseResult'}, returns='StaticServerSetProvider',
    locals={'server_objs': 'list[Server]', 'servers': 'list[str]'},
    requires=[],
    ensures=['len(result._servers) == split_count_of(uri.netloc, ",")', 'tag_is(result, StaticServerSetProvider)',
             'forall(k, 0, len(result._servers), result._servers[k].service_endpoint._host == split_part_of(split_part_of(uri.netloc, ",", k), ":", 0) and '
             '       result._servers[k].service_endpoint._port == str_to_int_of(split_part_of(split_part_of(uri.netloc, ",", k), ":", 1)))'],
    raises={'ValueError': dict()},
    modifies=['list[Server]', 'Server.service_endpoint', 'Endpoint._host', 'Endpoint._port', 'StaticServerSetProvider._servers', '$cls'],
    allocates='any',
    loops={0: dict(invariant=['len(server_objs) == _i0', '0 <= _i0 and _i0 <= len(servers)', 'fresh(server_objs)', 'len(servers) == split_count_of(uri.netloc, ",")',
                              'forall(k, 0, len(servers), servers[k] == split_part_of(uri.netloc, ",", k))',
                              'forall(k, 0, _i0, server_objs[k].service_endpoint._host == split_part_of(servers[k], ":", 0) and '
                              '       server_objs[k].service_endpoint._port == str_to_int_of(split_part_of(servers[k], ":", 1)) and fresh(server_objs[k]) and fresh(server_objs[k].service_endpoint))'],
                   modifies=['list[Server]', 'Server.service_endpoint', 'Endpoint._host', 'Endpoint._port', '$cls'], allocates='any')},
    props=['C20'],
  ),
  'ScalesUriParser.__init__': dict(
    cls='ScalesUriParser', params={}, returns='none',
    ensures=['handlers_ok(self)'],
    modifies=['ScalesUriParser.handlers', 'dict[str,any]', '$cls'], allocates=True,
    props=['C20'],
  ),
  # the scheme is looked up case-insensitively among exactly {tcp, zk}; anything else raises
  'ScalesUriParser.Parse': dict(
    cls='ScalesUriParser', params={'uri': 'str'}, returns='any',
    locals={'parsed': 'ParseResult', 'path': 'str', 'fragment': 'str'},
    requires=['handlers_ok(self)'],
    ensures=['g_parsed.scheme.lower() == "tcp" or g_parsed.scheme.lower() == "zk"',
             'implies(g_parsed.scheme.lower() == "tcp", dyn_is(result, StaticServerSetProvider) and '
             '        len(cast(result, StaticServerSetProvider)._servers) == split_count_of(g_parsed.netloc, ","))',
             'implies(g_parsed.scheme.lower() == "tcp", forall(k, 0, split_count_of(g_parsed.netloc, ","), '
             '        cast(result, StaticServerSetProvider)._servers[k].service_endpoint._host == split_part_of(split_part_of(g_parsed.netloc, ",", k), ":", 0) and '
             '        cast(result, StaticServerSetProvider)._servers[k].service_endpoint._port == str_to_int_of(split_part_of(split_part_of(g_parsed.netloc, ",", k), ":", 1))))',
             'implies(g_parsed.scheme.lower() == "zk", dyn_is(result, ZooKeeperServerSetProvider) and cast(result, ZooKeeperServerSetProvider).g_hosts == g_parsed.netloc)',
             'implies(g_parsed.scheme.lower() == "zk" and not ("#" in g_parsed.path), cast(result, ZooKeeperServerSetProvider).g_path == g_parsed.path)',
             'implies(g_parsed.scheme.lower() == "zk" and ("#" in g_parsed.path), cast(result, ZooKeeperServerSetProvider).g_path == split_part_of(g_parsed.path, "#", 0) and '
             '        cast(result, ZooKeeperServerSetProvider).g_endpoint == ite(truthy(split_part_of(g_parsed.path, "#", 1)), split_part_of(g_parsed.path, "#", 1), None))'],
    raises={'ValueError': dict(ensures=['g_parsed.scheme.lower() == "tcp"']),
            'Exception': dict(when='not (g_parsed.scheme.lower() == "tcp" or g_parsed.scheme.lower() == "zk")')},
    modifies=['*'], allocates='any',
    ghost=[{'after': 'parsed = urlparse(uri)', 'do': ['g_parsed = parsed']}],
    dispatch={'handler(parsed)': ['self._HandleTcp', 'self._HandleZooKeeper']},
    props=['C20'],
  ),
  'ScalesUriParser._HandleZooKeeper': dict(
    cls='ScalesUriParser', params={'uri': 'ParseResult'}, returns='ZooKeeperServerSetProvider',
    requires=[],
    ensures=['result.g_hosts == uri.netloc and result.g_path == uri.path', 'tag_is(result, ZooKeeperServerSetProvider)',
             'implies(truthy(uri.fragment), result.g_endpoint == uri.fragment)', 'implies(not truthy(uri.fragment), result.g_endpoint is None)'],
    modifies=['ZooKeeperServerSetProvider.g_hosts', 'ZooKeeperServerSetProvider.g_path', 'ZooKeeperServerSetProvider.g_endpoint', '$cls'], allocates=True,
    props=['C20'],
  ),
}

PREDICATES = {
  'handlers_ok': (['p'], 'allocated(p.handlers) and forall(k, "str", has_key(p.handlers, k) == (k == "tcp" or k == "zk")) and '
                         'p.handlers["tcp"] == p._HandleTcp and p.handlers["zk"] == p._HandleZooKeeper'),
  'split_part_of': (['s', 'sep', 'k'], 'split_part(s, sep, k)'),
  'split_count_of': (['s', 'sep'], 'split_count(s, sep)'),
  'str_to_int_of': (['s'], 'str_to_int(s)'),
}

EXTERNS = {
  'urlparse': dict(params=[('uri', 'str')], returns='ParseResult', fresh=True, allocates=True, ensures=['result is not None', 'result.scheme.lower() == result.scheme'],
                   notes='six.moves.urllib.parse.urlparse: the six components as opaque strings; the scheme comes back lower-cased (documented urlsplit behaviour)'),
  'Dispatcher.DispatchMethodCall': dict(
    params=[('method', 'any'), ('args', 'any'), ('kwargs', 'any'), ('timeout', 'any')], returns='AsyncResult',
    modifies=['Dispatcher.g_calls', 'Dispatcher.g_method', 'Dispatcher.g_args', 'Dispatcher.g_kwargs'], allocates=True,
    ensures=['self.g_calls == old(self.g_calls) + 1', 'self.g_method == method and self.g_args == args and self.g_kwargs == kwargs'],
    notes='MessageDispatcher.DispatchMethodCall (C01): recorded here as "the dispatcher received (method, args, kwargs)"'),
  'ZooKeeperServerSetProvider.__init__': dict(
    params=[('zk_servers_or_client', 'any'), ('zk_path', 'any'), ('zk_timeout', 'any'), ('member_prefix', 'any'), ('member_factory', 'any'), ('endpoint_name', 'any')],
    returns='ZooKeeperServerSetProvider', fresh=True, allocates=True,
    modifies=['ZooKeeperServerSetProvider.g_hosts', 'ZooKeeperServerSetProvider.g_path', 'ZooKeeperServerSetProvider.g_endpoint'],
    ensures=['result.g_hosts == zk_servers_or_client and result.g_path == zk_path and result.g_endpoint == endpoint_name']),
}
