"""Contracts for scales/loadbalancer/base.py (C05, part of C01/C12)."""
FILE = 'scales/loadbalancer/base.py'

CLASSES = {
  'LoadBalancerSink': dict(path='LoadBalancerSink', bases=['ClientMessageSink'], fields={
    '_servers': 'dict[any,fn]', '_state': 'int', '_endpoint_name': 'any',
    '__init_done': 'Event', '__open_ar': 'AsyncResult?', '_properties': 'any',
    '_next_sink_provider': 'any', '_server_set_provider': 'any'}),
  'Event': dict(extern=True, path=None, fields={'flag': 'bool'}, bases=[]),
}
FUNCTIONS = {
  # behavioural contract of the subclass hook (HeapBalancerSink._AsyncProcessRequestImpl is verified against its own, stronger one)
  'LoadBalancerSink._AsyncProcessRequestImpl': dict(
    cls='LoadBalancerSink', params={'sink_stack': 'ClientMessageSinkStack', 'msg': 'Message', 'stream': 'any', 'headers': 'any'},
    requires=[], ensures=[], modifies=['*'], allocates=True, trusted=True,
    notes='abstract hook: dispatches the request into a member channel (see HeapBalancerSink._AsyncProcessRequestImpl)'),
  'LoadBalancerSink.AsyncProcessRequest': dict(
    cls='LoadBalancerSink', params={'sink_stack': 'ClientMessageSinkStack', 'msg': 'Message', 'stream': 'any', 'headers': 'any'},
    requires=['self.__open_ar is not None'], ensures=[], modifies=['*'], allocates=True,
    ghost=[
      # not open yet: the request is chained behind the open result, nothing is dispatched now
      {'before': 'self.__open_ar.rawlink(_on_open_done)', 'do': ['prove(not self.__open_ar.g_ready, "deferred-only-while-opening")']},
      {'before': 'self._AsyncProcessRequestImpl(sink_stack, msg, stream, headers)', 'do': ['prove(self.__open_ar.g_ready, "direct-only-when-open")']},
    ],
    props=['C01', 'C12'],
  ),
  'LoadBalancerSink.AsyncProcessRequest._on_open_done': dict(
    params={'_': 'any'},
    captures={'self': 'LoadBalancerSink', 'msg': 'Message', 'sink_stack': 'ClientMessageSinkStack', 'stream': 'any', 'headers': 'any'},
    requires=['allocated(msg.properties)'], ensures=[], modifies=['*'], allocates=True,
    ghost=[
      {'before': 'timeout_event = msg.properties.get(Deadline.EVENT_KEY, None)', 'do': [
        'g_timed_out = ("__Deadline_Event" in msg.properties) and msg.properties["__Deadline_Event"] is not None and truthy(msg.properties["__Deadline_Event"].value)']},
      # a request whose caller was already handed TimeoutError is dropped when the open completes
      {'before': 'self._AsyncProcessRequestImpl(sink_stack, msg, stream, headers)', 'do': ['prove(not g_timed_out, "timed-out-request-not-forwarded")', 'g_forwarded = True']},
    ],
    props=['C01', 'C12'],
  ),
}

EXTERNS = {
  'AsyncResult.ready': dict(params=[], returns='bool', ensures=['result == self.g_ready']),
  'AsyncResult.rawlink': dict(params=[('callback', 'any')], modifies=['AsyncResult.g_links'],
                              ensures=['self.g_links == old(self.g_links) + 1', 'forall_ref(a, AsyncResult, implies(a != self, a.g_links == old(a.g_links)), a.g_links)'], notes='registers a completion callback; gevent runs it once, later, in registration order (assumed)'),
}
