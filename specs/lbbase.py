"""Contracts for scales/loadbalancer/base.py (C05, part of C01/C12)."""
FILE = 'scales/loadbalancer/base.py'

CLASSES = {
  'LoadBalancerSink': dict(path='LoadBalancerSink', bases=['ClientMessageSink'], fields={
    '_servers': 'dict[any,ChannelFactory]', '_state': 'int', '_endpoint_name': 'any',
    '__init_done': 'Event', '__open_ar': 'AsyncResult?', '_properties': 'any',
    '_next_sink_provider': 'NextProvider', '_server_set_provider': 'ServerSetProviderX', '_open_greenlet': 'any',
    '__open_greenlet': 'any', '_log': 'any'}),
  'SinkPropsX': dict(extern=True, path=None, bases=[], fields={'server_set_provider': 'ServerSetProviderX', 'min_size': 'int', 'max_size': 'int', 'min_load': 'real', 'max_load': 'real',
                                                           'jitter_min_sec': 'int', 'jitter_max_sec': 'int'}),
  'ServerSetProviderX': dict(extern=True, path=None, fields={'endpoint_name': 'any'}, bases=[]),
  # a server-set member as the balancer reads it
  'SetMember': dict(extern=True, path=None, fields={'service_endpoint': 'any', 'additional_endpoints': 'dict[any,any]'}, bases=[]),
  'Event': dict(extern=True, path=None, fields={'flag': 'bool'}, bases=[]),
}
FUNCTIONS = {
  # behavioural contract of the subclass hook (HeapBalancerSink._AsyncProcessRequestImpl is verified against its own, stronger one)
  'LoadBalancerSink._AsyncProcessRequestImpl': dict(
    cls='LoadBalancerSink', params={'sink_stack': 'ClientMessageSinkStack', 'msg': 'Message', 'stream': 'any', 'headers': 'any'},
    requires=[], ensures=[], modifies=['*'], allocates=True, trusted=True,
    notes='abstract hook: dispatches the request into a member channel (see HeapBalancerSink._AsyncProcessRequestImpl)'),
  'LoadBalancerSink.AsyncProcessRequest': dict(
    cls='LoadBalancerSink', params={'sink_stack': 'ClientMessageSinkStack', 'msg': 'Message', 'stream': 'any', 'headers': 'any'},
    requires=['self.__open_ar is not None'], ensures=[], modifies=['*'], allocates=True,
    ghost=[
      # not open yet: the request is chained behind the open result, nothing is dispatched now
      {'before': 'self.__open_ar.rawlink(_on_open_done)', 'do': ['prove(not self.__open_ar.g_ready, "deferred-only-while-opening")']},
      {'before': 'self._AsyncProcessRequestImpl(sink_stack, msg, stream, headers)', 'do': ['prove(self.__open_ar.g_ready, "direct-only-when-open")']},
    ],
    props=['C01', 'C12'],
  ),
  'LoadBalancerSink.AsyncProcessRequest._on_open_done': dict(
    params={'_': 'any'},
    captures={'self': 'LoadBalancerSink', 'msg': 'Message', 'sink_stack': 'ClientMessageSinkStack', 'stream': 'any', 'headers': 'any'},
    requires=['allocated(msg.properties)'], ensures=[], modifies=['*'], allocates=True,
    ghost=[
      {'before': 'timeout_event = msg.properties.get(Deadline.EVENT_KEY, None)', 'do': [
        'g_timed_out = ("__Deadline_Event" in msg.properties) and msg.properties["__Deadline_Event"] is not None and truthy(msg.properties["__Deadline_Event"].value)']},
      # a request whose caller was already handed TimeoutError is dropped when the open completes
      {'before': 'self._AsyncProcessRequestImpl(sink_stack, msg, stream, headers)', 'do': ['prove(not g_timed_out, "timed-out-request-not-forwarded")', 'g_forwarded = True']},
    ],
    props=['C01', 'C12'],
  ),
}

EXTERNS = {
  'AsyncResult.ready': dict(params=[], returns='bool', ensures=['result == self.g_ready']),
  'AsyncResult.rawlink': dict(params=[('callback', 'any')], modifies=['AsyncResult.g_links'],
                              ensures=['self.g_links == old(self.g_links) + 1', 'forall_ref(a, AsyncResult, implies(a != self, a.g_links == old(a.g_links)), a.g_links)'], notes='registers a completion callback; gevent runs it once, later, in registration order (assumed)'),
}

# ----------------------------------------------------------------------------------------------------------------
# C05: balancer membership == server set.  The base-class join/leave handlers are verified once per balancer kind,
# with `self` typed as that subclass (same source text, `cls=` differs), so that the overridable hook
# _OnServersChanged -> _AddSink/_RemoveSink resolves to the subclass's own contract.
PREDICATES = {
  # the endpoint a member is known by (LoadBalancerSink.__GetEndpoint)
  'ep_of': (['s', 'm'], 'ite(truthy(s._endpoint_name), m.additional_endpoints[s._endpoint_name], m.service_endpoint)'),
  'ep_ok': (['s', 'm'], 'allocated(m) and allocated(m.additional_endpoints) and '
                        'ite(truthy(s._endpoint_name), has_key(m.additional_endpoints, s._endpoint_name) and truthy(m.additional_endpoints[s._endpoint_name]), True)'),
}

_MEM_MOD = ['dict[any,ChannelFactory]', 'dict[any,Node]', 'Node.load', 'Node.index', 'Node.downq', 'Node.avg_load', 'Node.channel', 'Node.endpoint',
            'Node.g_out', 'Node.g_inq', 'list[Node]', 'HeapBalancerSink._size', 'HeapBalancerSink.g_added', 'HeapBalancerSink.g_removed',
            'Channel.state', 'Channel.g_closes', '$cls']

FUNCTIONS.update({
  'LoadBalancerSink.__GetEndpoint': dict(cls='LoadBalancerSink', inline=True),
  'HeapBalancerSink._OnServersChanged': dict(cls='HeapBalancerSink', file='scales/loadbalancer/heap.py', inline=True),

  # join: a new endpoint becomes a member and a dispatch target in the same step; a known one changes nothing
  'LoadBalancerSink.__AddServer': dict(
    cls='HeapBalancerSink', params={'instance': 'SetMember'}, aspect='mem',
    requires=['HeapMem(self)', 'allocated(instance)', 'allocated(instance.additional_endpoints)', 'instance.service_endpoint is not None'],
    ensures=['HeapMem(self)', 'ep_ok(self, instance)',
             'has_key(self._servers, ep_of(self, instance))',
             'forall(e, "any", implies(e != ep_of(self, instance), has_key(self._servers, e) == old(has_key(self._servers, e))))'],
    raises={'ValueError': dict(when='not ep_ok(self, instance)', ensures=['HeapMem(self)', 'forall(e, "any", has_key(self._servers, e) == old(has_key(self._servers, e)))'])},
    locals={'channel_factory': 'ChannelFactory'},
    modifies=_MEM_MOD, allocates='any', drop=['_properties', 'new_props'],
    ghost=[
      {'after': 'self._OnServersChanged(ep, channel_factory, True)', 'do': ['self.g_node[ep] = self.g_added']},
      {'before': 'self._OnServersChanged(ep, channel_factory, True)', 'do': [
        'prove(forall_ref(r, Node, implies(inheap(self._heap, r), r.endpoint != ep), r.index), "a-joining-endpoint-is-not-yet-a-target")']},
    ],
    props=['C05'],
  ),
  # leave: the endpoint stops being a member and a dispatch target in the same step; an unknown one changes nothing
  'LoadBalancerSink.__RemoveServer': dict(
    cls='HeapBalancerSink', params={'instance': 'SetMember'}, aspect='mem',
    requires=['HeapMem(self)', 'allocated(instance)', 'allocated(instance.additional_endpoints)'],
    ensures=['HeapMem(self)', 'ep_ok(self, instance)',
             'not has_key(self._servers, ep_of(self, instance))',
             'forall(e, "any", implies(e != ep_of(self, instance), has_key(self._servers, e) == old(has_key(self._servers, e))))'],
    raises={'ValueError': dict(when='not ep_ok(self, instance)', ensures=['HeapMem(self)', 'forall(e, "any", has_key(self._servers, e) == old(has_key(self._servers, e)))'])},
    modifies=_MEM_MOD, allocates='any',
    ghost=[
      {'after': 'self._OnServersChanged(ep, channel_factory, False)', 'do': ['self.g_node.pop(ep, None)']},
    ],
    props=['C05'],
  ),
})

EXTERNS.update({
})

# join / leave notifications are delivered by the server set's greenlet; they block on the init-done event, i.e. they
# are scheduling points: while a notification waits the shared state may change arbitrarily within the invariant.
CONCURRENCY = {
  'Members': dict(
    state=_MEM_MOD + ['Event.flag', 'LoadBalancerSink._servers', 'HeapBalancerSink._downq', 'Node.g_rank'],
    invariant=['HeapMem(self)'],
    guarantee=[],
  ),
  # what notification handlers guarantee to the loader: they never touch the event, and change nothing while it is unset
  'MembersLoading': dict(
    state=_MEM_MOD + ['Event.flag', 'LoadBalancerSink._servers', 'HeapBalancerSink._downq', 'Node.g_rank'],
    invariant=['HeapMem(self)'],
    guarantee=['self.__init_done.flag == old(self.__init_done.flag)',
               'implies(not old(self.__init_done.flag), self._size == old(self._size) and self._servers == old(self._servers))'],
  ),
}

FUNCTIONS.update({
  # a join that arrives while the initial list is being loaded blocks until loading is complete (the event is set
  # only after the initial members are installed: _OpenImpl below), then adds the member unless already present
  'LoadBalancerSink.__OnServerSetJoin': dict(
    cls='HeapBalancerSink', params={'instance': 'SetMember'}, aspect='mem', conc='Members', guar=['MembersLoading'],
    requires=['allocated(instance)', 'allocated(instance.additional_endpoints)', 'instance.service_endpoint is not None', 'allocated(self.__init_done)'],
    ensures=['self.__init_done.flag', 'implies(ep_ok(self, instance), has_key(self._servers, ep_of(self, instance)))'],
    raises={'ValueError': dict(when='not ep_ok(self, instance)')},
    modifies=_MEM_MOD, allocates='any',
    yields=[{'at': 'self.__init_done.wait()'}],
    ghost=[
      {'after': 'self.__init_done.wait()', 'do': ['prove(self.__init_done.flag, "takes-effect-only-after-the-initial-load")', 'g_s0 = self._size']},
    ],
    props=['C05'],
  ),
  'LoadBalancerSink.__OnServerSetLeave': dict(
    cls='HeapBalancerSink', params={'instance': 'SetMember'}, aspect='mem', conc='Members', guar=['MembersLoading'],
    requires=['allocated(instance)', 'allocated(instance.additional_endpoints)', 'allocated(self.__init_done)'],
    ensures=['self.__init_done.flag', 'implies(ep_ok(self, instance), not has_key(self._servers, ep_of(self, instance)))'],
    raises={'ValueError': dict(when='not ep_ok(self, instance)')},
    modifies=_MEM_MOD, allocates='any',
    yields=[{'at': 'self.__init_done.wait()'}],
    ghost=[
      {'after': 'self.__init_done.wait()', 'do': ['prove(self.__init_done.flag, "takes-effect-only-after-the-initial-load")']},
    ],
    props=['C05'],
  ),
})

PREDICATES.update({
  'member_ok': (['m'], 'allocated(m) and allocated(m.additional_endpoints) and m.service_endpoint is not None'),
})

FUNCTIONS.update({
  # the open sequence: load the initial member list, and only then let queued notifications through
  'LoadBalancerSink._OpenImpl': dict(
    cls='HeapBalancerSink', returns='bool?', aspect='mem', conc='MembersLoading', guar=['Members'],
    locals={'server_set': 'list[SetMember]'},
    requires=['allocated(self.__init_done)', 'not self.__init_done.flag', 'self._size == 0', 'self.__open_ar is not None and allocated(self.__open_ar)'],
    ensures=['implies(result is not None, self.__init_done.flag)'],
    raises={'ValueError': dict()},
    modifies=_MEM_MOD + ['Event.flag', 'LoadBalancerSink._servers', 'LoadBalancerSink._state', 'LoadBalancerSink._open_greenlet', 'HeapBalancerSink._open',
                         'list[AsyncResult]', 'list[int]', 'AsyncResult.g_sets', 'AsyncResult.value', 'AsyncResult.exception', 'AsyncResult.g_ready', 'AsyncResult.g_value', 'AsyncResult.g_failed', 'list[SetMember]', 'Channel.g_opens', 'HeapBalancerSink._downq', 'Node.g_rank'],
    allocates='any',
    yields=[{'at': 'gevent.sleep(5)'}, {'at': 'self._server_set_provider.Initialize('}, {'at': 'self._server_set_provider.GetServers()'}],
    loops={
      0: dict(invariant=['HeapMem(self)', 'not self.__init_done.flag', 'self._size == 0', 'allocated(self.__init_done)'],
              modifies=_MEM_MOD + ['Event.flag', 'LoadBalancerSink._servers', 'LoadBalancerSink._state', 'list[SetMember]', 'HeapBalancerSink._downq', 'Node.g_rank'], allocates='any'),
      1: dict(invariant=['HeapMem(self)', 'not self.__init_done.flag', 'allocated(self.__init_done)', 'allocated(server_set)',
                         'forall(k, 0, len(server_set), member_ok(server_set[k]))',
                         'forall(k, 0, _i1, has_key(self._servers, ep_of(self, server_set[k])))'],
              modifies=_MEM_MOD, allocates='any'),
    },
    ghost=[
      {'before': 'self.__init_done.set()', 'do': [
        'prove(forall(k, 0, len(server_set), has_key(self._servers, ep_of(self, server_set[k]))), "initial-members-installed-before-notifications-pass")']},
    ],
    props=['C05'],
  ),
  # after the initial load: mark the balancer open and start opening every member; the open result completes when the
  # first member is open (or at once when there is no member).  No membership state is touched.
  'HeapBalancerSink._OpenInitialChannels': dict(
    file='scales/loadbalancer/heap.py', cls='HeapBalancerSink',
    requires=['HI_shape(self)', 'hwf(self._heap)', 'self.__open_ar is not None and allocated(self.__open_ar)'],
    ensures=['self._open'],
    modifies=['HeapBalancerSink._open', 'Channel.g_opens', 'list[AsyncResult]', 'list[int]', 'AsyncResult.g_sets', 'AsyncResult.value', 'AsyncResult.exception',
              'AsyncResult.g_ready', 'AsyncResult.g_value', 'AsyncResult.g_failed', '$cls'],
    allocates=True,
    comps={'[self._OpenNode(n) for n in self._heap[1:]]': dict(
      elem='AsyncResult',
      invariant=['allocated(_acc)', 'len(_acc) == _i900', 'forall(k, 0, len(_acc), allocated(_acc[k]))', 'self._open', 'HI_shape(self)', 'hwf(self._heap)'],
      modifies=['Channel.g_opens', 'list[AsyncResult]'], allocates=True)},
    props=['C05', 'C06'],
  ),

})

EXTERNS.update({
  'ServerSetProviderX.Initialize': dict(params=[('on_join', 'any'), ('on_leave', 'any')], may_raise=['Exception', 'GreenletExit'], yields=True,
                                        notes='registers the two callbacks; notifications are delivered later, serially, by the provider'),
  'ServerSetProviderX.GetServers': dict(params=[], returns='list[SetMember]', fresh=True, allocates=True, may_raise=['Exception', 'GreenletExit'], yields=True,
                                        ensures=['result is not None', 'forall(k, 0, len(result), member_ok(result[k]))']),
  'random.shuffle': dict(params=[('l', 'list[SetMember]')], modifies=['list[SetMember].items'],
                         ensures=['len(l) == old(len(l))', 'forall(k, 0, len(l), exists(j, 0, len(l), l[k] == old(l[j])))'],
                         notes='a permutation of the list'),
})


# ----------------------------------------------------------------------------------------------------------------
# construction: the freshly built balancer satisfies the invariants every other unit starts from
FUNCTIONS.update({
  'LoadBalancerSink.__init__': dict(
    cls='LoadBalancerSink', params={'next_provider': 'NextProvider', 'sink_properties': 'SinkPropsX', 'global_properties': 'any'}, returns='none',
    requires=['allocated(sink_properties) and allocated(sink_properties.server_set_provider)'],
    ensures=['allocated(self._servers) and fresh(self._servers)', 'forall(e, "any", not has_key(self._servers, e))', 'self.__open_ar is None',
             'allocated(self.__init_done) and fresh(self.__init_done) and not self.__init_done.flag', 'self._state == ChannelState.Idle'],
    modifies=['LoadBalancerSink._properties', 'LoadBalancerSink._log', 'LoadBalancerSink.__init_done', 'LoadBalancerSink.__open_ar', 'LoadBalancerSink.__open_greenlet',
              'LoadBalancerSink._server_set_provider', 'LoadBalancerSink._endpoint_name', 'LoadBalancerSink._next_sink_provider', 'LoadBalancerSink._state', 'LoadBalancerSink._servers',
              'dict[any,ChannelFactory]', 'Event.flag', 'ClientMessageSink._on_faulted', 'MessageSink._next', 'Observable.value', 'Observable.g_nsubs', '$cls'],
    allocates=True, drop=['__class__'],
    props=['C05'],
  ),
  'HeapBalancerSink.__init__': dict(
    file='scales/loadbalancer/heap.py', cls='HeapBalancerSink',
    params={'next_provider': 'NextProvider', 'sink_properties': 'SinkPropsX', 'global_properties': 'any'}, returns='none',
    # the node universe of the invariant is per balancer (C03 assumption): at construction no node exists yet
    requires=['allocated(sink_properties) and allocated(sink_properties.server_set_provider)', 'forall_ref(r, Node, not allocated(r), r.index)',
              'forall_ref(r, Node, not r.g_inq, r.g_inq)'],      # initial ghost state: nobody is on a down list
    ensures=['HeapMem(self)', 'self._size == 0', 'not self._open', 'self.__open_ar is None', 'allocated(self.__init_done) and fresh(self.__init_done) and not self.__init_done.flag',
             # the only node in existence is the sentinel, with a channel of its own
             'forall_ref(r, Node, implies(allocated(r), r == self._heap[0]), r.channel)', 'allocated(self._heap[0].channel)'],
    modifies=['LoadBalancerSink._properties', 'LoadBalancerSink._log', 'LoadBalancerSink.__init_done', 'LoadBalancerSink.__open_ar', 'LoadBalancerSink.__open_greenlet',
              'LoadBalancerSink._server_set_provider', 'LoadBalancerSink._endpoint_name', 'LoadBalancerSink._next_sink_provider', 'LoadBalancerSink._state', 'LoadBalancerSink._servers',
              'dict[any,ChannelFactory]', 'Event.flag', 'ClientMessageSink._on_faulted', 'MessageSink._next', 'Observable.value', 'Observable.g_nsubs', '$cls',
              'HeapBalancerSink._heap', 'HeapBalancerSink._no_members', 'HeapBalancerSink._downq', 'HeapBalancerSink._size', 'HeapBalancerSink._open', 'HeapBalancerSink._heap_lock',
              'HeapBalancerSink.__varz', 'HeapBalancerSink.g_node', 'list[Node]', 'dict[any,Node]', 'Node.load', 'Node.index', 'Node.downq', 'Node.avg_load', 'Node.channel', 'Node.endpoint',
              'Node.g_out', 'Node.g_inq', 'FailingMessageSink._ex'],
    allocates='any', drop=['HeapVarz'],
    ghost=[{'after': 'self._size = 0', 'do': ['self._heap[0].g_out = 0', 'self._heap[0].g_inq = False', 'self.g_node = {}']}],
    literals={'{}': 'dict[any,Node]'},
    props=['C03', 'C05'],
  ),
})

EXTERNS.update({
  'Event.__init__': dict(params=[], returns='Event', fresh=True, allocates=True, modifies=['Event.flag'], ensures=['not result.flag']),
})
