"""Contracts for scales/loadbalancer/base.py (C05, part of C01/C12)."""
FILE = 'scales/loadbalancer/base.py'

CLASSES = {
  'LoadBalancerSink': dict(path='LoadBalancerSink', bases=['ClientMessageSink'], fields={
    '_servers': 'dict[any,fn]', '_state': 'int', '_endpoint_name': 'any',
    '__init_done': 'Event', '__open_ar': 'AsyncResult?', '_properties': 'any',
    '_next_sink_provider': 'any', '_server_set_provider': 'any'}),
  'Event': dict(extern=True, path=None, fields={'flag': 'bool'}, bases=[]),
}
FUNCTIONS = {}
