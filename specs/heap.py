"""Contracts for scales/loadbalancer/heap.py (C03, C04, part of C05/C06/C09)."""
FILE = 'scales/loadbalancer/heap.py'

CLASSES = {
  'Heap': dict(path='Heap'),
  'Node': dict(path='HeapBalancerSink.Node', fields={
    'load': 'int', 'index': 'int', 'downq': 'Node?', 'avg_load': 'int',
    'channel': 'Channel', 'endpoint': 'any'}),
  # any ClientMessageSink used as a member channel; its state is an opaque observable
  'Channel': dict(extern=True, path=None, fields={'state': 'int'}, bases=[]),
}

PREDICATES = {
  # a <= b in the repository's own (load, index) order: "not b < a" via Node.__lt__
  'hle': (['a', 'b'], 'not (b < a)'),
  # position <-> index bijection on [1, len)
  'hbij': (['heap'], 'forall(k, 1, len(heap), heap[k].index == k)'),
  # r is stored in the heap (at its own index)
  'inheap': (['heap', 'r'], '1 <= r.index and r.index < len(heap) and heap[r.index] == r'),
  # heap order at position c (c >= 2): parent <= child
  'ordat': (['heap', 'c'], 'hle(heap[floor_div(c, 2)], heap[c])'),
  # two-state: every old member is still a member (by position), and only members' index moved
  'perm_frame': (['heap'],
     'forall(k, 1, old(len(heap)), inheap(heap, old(heap[k])), old(heap[k])) and '
     'forall(k, 1, len(heap), let(x, heap[k], old(inheap(heap, x))), heap[k]) and '
     'forall_ref(r, Node, r.index == old(r.index) or old(inheap(heap, r)), r.index)'),
}

_SWAP_FRAME = [
  'len(heap) == old(len(heap))',
  'forall(k, 0, len(heap), implies(k != i and k != j, heap[k] == old(heap[k])))',
]

FUNCTIONS = {
  'Node.__lt__': dict(path='HeapBalancerSink.Node.__lt__', cls='Node', pure=True,
                      params={'other': 'Node'}),

  'Heap.Swap': dict(
    params={'heap': 'list[Node]', 'i': 'int', 'j': 'int'},
    requires=['1 <= i and i < len(heap)', '1 <= j and j < len(heap)', 'hbij(heap)'],
    ensures=_SWAP_FRAME + [
      'heap[i] == old(heap[j])', 'heap[j] == old(heap[i])',
      'heap[i].index == i', 'heap[j].index == j',
      'forall_ref(r, Node, implies(r != heap[i] and r != heap[j], r.index == old(r.index)), r.index)',
      'hbij(heap)',
    ],
    modifies=['list[Node].items', 'Node.index'],
    props=['C03'],
  ),

  'Heap.FixDown': dict(
    params={'heap': 'list[Node]', 'i': 'int', 'j': 'int'},
    requires=[
      '1 <= i and i < len(heap)', 'j < len(heap)', 'hbij(heap)',
      # order everywhere in [2..j] except the pairs that involve position i
      'forall(c, 2, j + 1, implies(floor_div(c, 2) != i and c != i, ordat(heap, c)))',
      # children of i are not below i's parent
      'implies(i >= 2, forall(c, 2, j + 1, implies(floor_div(c, 2) == i, hle(heap[floor_div(i, 2)], heap[c]))))',
    ],
    ensures=[
      'len(heap) == old(len(heap))', 'hbij(heap)', 'perm_frame(heap)',
      'forall(k, 0, len(heap), implies(k < old(i) or k > j, heap[k] == old(heap[k])))',
      'forall(c, 2, j + 1, implies(c != old(i), ordat(heap, c)))',
      'implies(old(i >= 2 and ordat(heap, i)), ordat(heap, old(i)))',
      'implies(old(i) >= 2, forall(c, 2, j + 1, implies(floor_div(c, 2) == old(i), hle(heap[floor_div(old(i), 2)], heap[c]))))',
    ],
    modifies=['list[Node].items', 'Node.index'],
    loops={0: dict(
      modifies=['list[Node].items', 'Node.index'],
      invariant=[
        'old(i) <= i', 'len(heap) == old(len(heap))', 'hbij(heap)', 'perm_frame(heap)',
        'forall(k, 0, len(heap), implies(k < old(i) or k > j, heap[k] == old(heap[k])))',
        'forall(c, 2, j + 1, implies(floor_div(c, 2) != i and c != old(i), ordat(heap, c)))',
        'implies(i >= 2, forall(c, 2, j + 1, implies(floor_div(c, 2) == i, hle(heap[floor_div(i, 2)], heap[c]))))',
        'implies(i == old(i), forall(k, 0, len(heap), heap[k] == old(heap[k])))',
        'implies(i != old(i) and old(i) >= 2, ordat(heap, old(i)))',
        'implies(old(i) >= 2, forall(c, 2, j + 1, implies(floor_div(c, 2) == old(i), hle(heap[floor_div(old(i), 2)], heap[c]))))',
      ],
      decreases='j + 1 - i if j + 1 - i > 0 else 0',
    )},
    props=['C03'],
  ),

  'Heap.FixUp': dict(
    params={'heap': 'list[Node]', 'i': 'int'},
    requires=[
      '1 <= i and i < len(heap)', 'hbij(heap)',
      # order everywhere except at i and at the last position
      'forall(c, 2, len(heap) - 1, implies(c != i, ordat(heap, c)))',
      'implies(i >= 2, forall(c, 2, len(heap) - 1, implies(floor_div(c, 2) == i, hle(heap[floor_div(i, 2)], heap[c]))))',
    ],
    ensures=[
      'len(heap) == old(len(heap))', 'hbij(heap)', 'perm_frame(heap)',
      'forall(c, 2, len(heap) - 1, ordat(heap, c))',
      'implies(old(i) == len(heap) - 1 and old(i) >= 2, ordat(heap, len(heap) - 1))',
      'implies(old(i != len(heap) - 1 and len(heap) - 1 >= 2 and ordat(heap, len(heap) - 1) and '
      '        implies(floor_div(len(heap) - 1, 2) == i and i >= 2, hle(heap[floor_div(i, 2)], heap[len(heap) - 1]))),'
      '        ordat(heap, len(heap) - 1))',
    ],
    modifies=['list[Node].items', 'Node.index'],
    loops={0: dict(
      modifies=['list[Node].items', 'Node.index'],
      invariant=[
        '1 <= i and i <= old(i)', 'len(heap) == old(len(heap))', 'hbij(heap)', 'perm_frame(heap)',
        'forall(c, 2, len(heap) - 1, implies(c != i, ordat(heap, c)))',
        'implies(i >= 2, forall(c, 2, len(heap) - 1, implies(floor_div(c, 2) == i, hle(heap[floor_div(i, 2)], heap[c]))))',
        # the last position: fixed if it is where we started, preserved if it was fine
        'implies(old(i) == len(heap) - 1 and i != old(i), ordat(heap, len(heap) - 1) and '
        '        implies(floor_div(len(heap) - 1, 2) == i and i >= 2, hle(heap[floor_div(i, 2)], heap[len(heap) - 1])))',
        'implies(old(i) == len(heap) - 1 and i == old(i), forall(k, 0, len(heap), heap[k] == old(heap[k])))',
        'implies(old(i != len(heap) - 1 and len(heap) - 1 >= 2 and ordat(heap, len(heap) - 1) and '
        '        implies(floor_div(len(heap) - 1, 2) == i and i >= 2, hle(heap[floor_div(i, 2)], heap[len(heap) - 1]))),'
        '        ordat(heap, len(heap) - 1) and '
        '        implies(floor_div(len(heap) - 1, 2) == i and i >= 2, hle(heap[floor_div(i, 2)], heap[len(heap) - 1])))',
      ],
      decreases='i',
    )},
    props=['C03'],
  ),
}
