"""Contracts for scales/loadbalancer/heap.py (C03, C04, part of C05/C06/C09)."""
FILE = 'scales/loadbalancer/heap.py'

CLASSES = {
  'Heap': dict(path='Heap'),
  'Node': dict(path='HeapBalancerSink.Node', fields={
    'load': 'int', 'index': 'int', 'downq': 'Node?', 'avg_load': 'int',
    'channel': 'Channel', 'endpoint': 'any',
    # ghost: requests dispatched to the node and not yet released; membership of the down list
    'g_out': 'int', 'g_inq': 'bool', 'g_rank': 'int'}, ghost=['g_out', 'g_inq', 'g_rank'], final=True),
  'ChannelFactory': dict(extern=True, path=None, fields={}, bases=[]),
  'HeapBalancerSink': dict(path='HeapBalancerSink', bases=['LoadBalancerSink'], fields={
    '_heap': 'list[Node]', '_size': 'int', '_downq': 'Node?', '_open': 'bool',
    '_no_members': 'Channel', '_heap_lock': 'any', '__varz': 'any',
    # ghost (C05): the node the last _AddSink created / the last _RemoveSink took out; endpoint -> member node
    'g_added': 'Node?', 'g_removed': 'Node?', 'g_node': 'dict[any,Node]'}, ghost=['g_added', 'g_removed', 'g_node']),
  'ChannelState': dict(file='scales/constants.py', path='ChannelState'),
  'Int': dict(file='scales/constants.py', path='Int'),
  'MessageProperties': dict(file='scales/constants.py', path='MessageProperties'),
  # gevent's AsyncResult as the repository uses it: observable value / exception, readiness (ghost),
  # and a ghost count of set()/set_exception() calls
  'AsyncResult': dict(file='scales/asynchronous.py', path='AsyncResult', fields={'value': 'any', 'exception': 'any', 'g_sets': 'int', 'g_value': 'any', 'g_failed': 'bool', 'g_ready': 'bool', 'g_links': 'int'},
                      ghost=['g_sets', 'g_value', 'g_failed', 'g_ready', 'g_links'], bases=[]),
  # any ClientMessageSink used as a member channel; its state is an opaque observable
  'Channel': dict(extern=True, path=None, fields={'state': 'int', 'on_faulted': 'Observable', 'g_opens': 'int', 'g_closes': 'int'}, ghost=['g_opens', 'g_closes'], bases=['ClientMessageSink']),
}

PREDICATES = {
  # a <= b in the repository's own (load, index) order: "not b < a" via Node.__lt__
  'hle': (['a', 'b'], 'not (b < a)'),
  # position <-> index bijection on [1, len)
  'hbij': (['heap'], 'forall(k, 1, len(heap), heap[k].index == k)'),
  # well-formedness of the node universe w.r.t. this heap list (see HI_nodes)
  'hwf': (['heap'],
     'forall(k, 0, len(heap), allocated(heap[k])) and '
     'forall_ref(r, Node, implies(allocated(r) and r.index >= 0, r.index < len(heap) and heap[r.index] == r), r.index)'),
  # r is stored in the heap (at its own index)
  'inheap': (['heap', 'r'], '1 <= r.index and r.index < len(heap) and heap[r.index] == r'),
  # heap order at position c (c >= 2): parent <= child
  'ordat': (['heap', 'c'], 'hle(heap[floor_div(c, 2)], heap[c])'),
  # two-state: every old member is still a member (by position), and only members' index moved
  'perm_frame': (['heap'],
     'forall(k, 1, old(len(heap)), inheap(heap, old(heap[k])), old(heap[k])) and '
     'forall(k, 1, len(heap), let(x, heap[k], old(inheap(heap, x))), heap[k]) and '
     'forall_ref(r, Node, r.index == old(r.index) or old(inheap(heap, r)), r.index)'),
}

PREDICATES.update({
  'HI_shape': (['s'], 'len(s._heap) == s._size + 1 and s._size >= 0'),
  'HI_bij': (['s'], 'hbij(s._heap) and s._heap[0].index == 0'),
  'HI_ord': (['s'], 'forall(c, 2, s._size + 1, ordat(s._heap, c))'),
  # per-instance node universe: a node with a non-negative index sits in the heap at that index;
  # the sentinel (index 0) is never on the down list
  'HI_nodes': (['s'], 'hwf(s._heap)'),
  # load encoding: Idle + outstanding while up, outstanding (= Idle + Penalty + outstanding) while marked down
  'HI_loads': (['s'],
     'forall_ref(r, Node, implies(allocated(r), 0 <= r.g_out and r.g_out <= 2147483645 and '
     '           (r.load == HeapBalancerSink.Idle + r.g_out or r.load == r.g_out)), r.load)'),
  # the down list: closed under .downq, injective, only down-marked or discarded nodes
  'HI_chain': (['s'],
     'implies(s._downq is not None, s._downq.g_inq) and '
     'forall_ref(r, Node, implies(r.g_inq, allocated(r) and r != s._heap[0]), r.g_inq) and '
     'forall_ref(r, Node, implies(r.g_inq and r.downq is not None, r.downq.g_inq), r.downq) and '
     'forall_ref(r, Node, implies(r.g_inq and r.index >= 0, r.load >= 0), r.g_inq) and '
     'forall_ref(r, Node, implies(r.g_inq and r.downq is not None, r.downq != s._downq and r.downq.g_rank > r.g_rank), r.downq) and '
     'forall_ref((r1, r2), Node, implies(r1.g_inq and r2.g_inq and r1.downq is not None and r1.downq == r2.downq, r1 == r2), (r1.downq, r2.downq))'),
  'HeapInv': (['s'], 'HI_shape(s) and HI_bij(s) and HI_ord(s) and HI_nodes(s) and HI_loads(s) and HI_chain(s)'),
  # ---- C05: the dispatch targets (nodes in the heap) are exactly the members of the server set -------------------
  # every target is a current member
  'HM_sub': (['s'], 'forall_ref(r, Node, implies(inheap(s._heap, r), r.endpoint is not None and has_key(s._servers, r.endpoint)), r.index)'),
  # no endpoint has two nodes
  'HM_inj': (['s'], 'forall_ref((r1, r2), Node, implies(inheap(s._heap, r1) and inheap(s._heap, r2) and r1.endpoint == r2.endpoint, r1 == r2), (r1.index, r2.index))'),
  # every current member is a target (ghost map endpoint -> its node)
  'HM_sup1': (['s'], 'forall(e, "any", implies(has_key(s._servers, e), has_key(s.g_node, e) and allocated(s.g_node[e])))'),
  'HM_sup2': (['s'], 'forall(e, "any", implies(has_key(s._servers, e), inheap(s._heap, s.g_node[e])))'),
  'HM_sup3': (['s'], 'forall(e, "any", implies(has_key(s._servers, e), s.g_node[e].endpoint == e))'),
  'HM_sup': (['s'], 'HM_sup1(s) and HM_sup2(s) and HM_sup3(s)'),
  'HM_all': (['s'], 's._heap[0].endpoint is None and allocated(s._servers) and allocated(s.g_node) and HM_sub(s) and HM_inj(s) and HM_sup(s)'),
  'HeapMem': (['s'], 'HeapInv(s) and HM_all(s)'),
})

_AP_EXT = ['implies(dyn_is(self, ApertureBalancerSink), ApP1(cast(self, ApertureBalancerSink)))', 'implies(dyn_is(self, ApertureBalancerSink), ApP2(cast(self, ApertureBalancerSink)))', 'implies(dyn_is(self, ApertureBalancerSink), HM_inj(cast(self, ApertureBalancerSink)))', 'implies(dyn_is(self, ApertureBalancerSink), ApP4(cast(self, ApertureBalancerSink)))', 'implies(dyn_is(self, ApertureBalancerSink), ApP5(cast(self, ApertureBalancerSink)))', 'implies(dyn_is(self, ApertureBalancerSink), ApIdleKnown(cast(self, ApertureBalancerSink)))', 'implies(dyn_is(self, ApertureBalancerSink), ApHeapKnown(cast(self, ApertureBalancerSink)))', 'implies(dyn_is(self, ApertureBalancerSink), ApSup(cast(self, ApertureBalancerSink)))', 'implies(dyn_is(self, ApertureBalancerSink), ApCfg(cast(self, ApertureBalancerSink)))']

_HOOK_ENS = [
  'HeapInv(self)', 'self._downq == old(self._downq)', 'self._heap[0] == old(self._heap[0])',
  'forall_ref(r, Node, implies(old(allocated(r)), r.g_out == old(r.g_out) and r.load == old(r.load) and r.g_inq == old(r.g_inq) and '
  '           r.downq == old(r.downq) and r.g_rank == old(r.g_rank) and r.endpoint == old(r.endpoint)), r.g_out)',
  'forall_ref(r, Node, implies(old(allocated(r)), r.channel == old(r.channel)), r.channel)',
  # a hook closes no up-marked member that holds requests (the aperture retires idle members, and down-marked ones at once)
  'forall_ref(r, Node, implies(old(allocated(r)) and r.g_out > 0 and r.load < 0, r.channel.state == old(r.channel.state)), r.g_out)',
  'forall_ref(r, Node, implies(old(allocated(r)), r.channel.state == old(r.channel.state) or r.channel.state == ChannelState.Closed), r.channel)',
]
_HOOK_MOD = ['Node.index', 'Node.load', 'Node.downq', 'Node.avg_load', 'Node.channel', 'Node.endpoint', 'Node.g_out', 'Node.g_inq', 'Node.g_rank',
             'list[Node]', 'HeapBalancerSink._size', 'HeapBalancerSink.g_added', 'HeapBalancerSink.g_removed',
             'Channel.state', 'Channel.g_closes', 'Channel.g_opens', '$cls',
             # state of the aperture balancer's adjustment (untouched by the heap balancer's own hooks)
             'set[any]', 'list[any]', 'dict[any,Node]', 'ApertureBalancerSink._total', 'ApertureBalancerSink.g_load']

_SWAP_FRAME = [
  'len(heap) == old(len(heap))',
  'forall(k, 0, len(heap), implies(k != i and k != j, heap[k] == old(heap[k])))',
]

FUNCTIONS = {
  'Node.__lt__': dict(path='HeapBalancerSink.Node.__lt__', cls='Node', pure=True,
                      params={'other': 'Node'}),

  'Heap.Swap': dict(
    params={'heap': 'list[Node]', 'i': 'int', 'j': 'int'},
    requires=['1 <= i and i < len(heap)', '1 <= j and j < len(heap)', 'hbij(heap)', 'heap[0].index == 0', 'hwf(heap)'],
    ensures=_SWAP_FRAME + [
      'heap[i] == old(heap[j])', 'heap[j] == old(heap[i])',
      'heap[i].index == i', 'heap[j].index == j',
      'forall_ref(r, Node, implies(r != heap[i] and r != heap[j], r.index == old(r.index)), r.index)',
      'hbij(heap)', 'hwf(heap)',
    ],
    modifies=['list[Node].items', 'Node.index'],
    aspects={'mem': dict(ensures=['forall_ref(r, Node, inheap(heap, r) == old(inheap(heap, r)), r.index)'], props=['C05'])},
    props=['C03'],
  ),

  'Heap.FixDown': dict(
    params={'heap': 'list[Node]', 'i': 'int', 'j': 'int'},
    requires=[
      '1 <= i and i < len(heap)', 'j < len(heap)', 'hbij(heap)', 'heap[0].index == 0', 'hwf(heap)',
      # order everywhere in [2..j] except the pairs that involve position i
      'forall(c, 2, j + 1, implies(floor_div(c, 2) != i and c != i, ordat(heap, c)))',
      # children of i are not below i's parent
      'implies(i >= 2, forall(c, 2, j + 1, implies(floor_div(c, 2) == i, hle(heap[floor_div(i, 2)], heap[c]))))',
    ],
    ensures=[
      'len(heap) == old(len(heap))', 'hbij(heap)', 'perm_frame(heap)', 'hwf(heap)',
      'forall(k, 0, len(heap), implies(k < old(i) or k > j, heap[k] == old(heap[k])))',
      'forall(c, 2, j + 1, implies(c != old(i), ordat(heap, c)))',
      'implies(old(i >= 2 and ordat(heap, i)), ordat(heap, old(i)))',
      'implies(old(i) >= 2, forall(c, 2, j + 1, implies(floor_div(c, 2) == old(i), hle(heap[floor_div(old(i), 2)], heap[c]))))',
    ],
    modifies=['list[Node].items', 'Node.index'],
    loops={0: dict(
      modifies=['list[Node].items', 'Node.index'],
      invariant=[
        'old(i) <= i', 'len(heap) == old(len(heap))', 'hbij(heap)', 'perm_frame(heap)', 'hwf(heap)',
        'forall(k, 0, len(heap), implies(k < old(i) or k > j, heap[k] == old(heap[k])))',
        'forall(c, 2, j + 1, implies(floor_div(c, 2) != i and c != old(i), ordat(heap, c)))',
        'implies(i >= 2, forall(c, 2, j + 1, implies(floor_div(c, 2) == i, hle(heap[floor_div(i, 2)], heap[c]))))',
        'implies(i == old(i), forall(k, 0, len(heap), heap[k] == old(heap[k])))',
        'implies(i != old(i) and old(i) >= 2, ordat(heap, old(i)))',
        'implies(old(i) >= 2, forall(c, 2, j + 1, implies(floor_div(c, 2) == old(i), hle(heap[floor_div(old(i), 2)], heap[c]))))',
      ],
      decreases='j + 1 - i if j + 1 - i > 0 else 0',
    )},
    aspects={'mem': dict(ensures=['forall_ref(r, Node, inheap(heap, r) == old(inheap(heap, r)), r.index)'], loops={0: ['forall_ref(r, Node, inheap(heap, r) == old(inheap(heap, r)), r.index)']}, props=['C05'])},
    props=['C03'],
  ),

  'Heap.FixUp': dict(
    params={'heap': 'list[Node]', 'i': 'int'},
    requires=[
      '1 <= i and i < len(heap)', 'hbij(heap)', 'heap[0].index == 0', 'hwf(heap)',
      # order everywhere except at i and at the last position
      'forall(c, 2, len(heap) - 1, implies(c != i, ordat(heap, c)))',
      'implies(i >= 2, forall(c, 2, len(heap) - 1, implies(floor_div(c, 2) == i, hle(heap[floor_div(i, 2)], heap[c]))))',
    ],
    ensures=[
      'len(heap) == old(len(heap))', 'hbij(heap)', 'perm_frame(heap)', 'heap[0] == old(heap[0])', 'hwf(heap)',
      'forall(k, 0, len(heap), implies(k > old(i), heap[k] == old(heap[k])))',
      'forall(c, 2, len(heap) - 1, ordat(heap, c))',
      'implies(old(i) == len(heap) - 1 and old(i) >= 2, ordat(heap, len(heap) - 1))',
      'implies(old(i != len(heap) - 1 and len(heap) - 1 >= 2 and ordat(heap, len(heap) - 1) and '
      '        implies(floor_div(len(heap) - 1, 2) == i and i >= 2, hle(heap[floor_div(i, 2)], heap[len(heap) - 1]))),'
      '        ordat(heap, len(heap) - 1))',
    ],
    modifies=['list[Node].items', 'Node.index'],
    loops={0: dict(
      modifies=['list[Node].items', 'Node.index'],
      invariant=[
        '1 <= i and i <= old(i)', 'len(heap) == old(len(heap))', 'hbij(heap)', 'perm_frame(heap)', 'heap[0] == old(heap[0])', 'hwf(heap)',
        'forall(k, 0, len(heap), implies(k > old(i), heap[k] == old(heap[k])))',
        'forall(c, 2, len(heap) - 1, implies(c != i, ordat(heap, c)))',
        'implies(i >= 2, forall(c, 2, len(heap) - 1, implies(floor_div(c, 2) == i, hle(heap[floor_div(i, 2)], heap[c]))))',
        # the last position: fixed if it is where we started, preserved if it was fine
        'implies(old(i) == len(heap) - 1 and i != old(i), ordat(heap, len(heap) - 1) and '
        '        implies(floor_div(len(heap) - 1, 2) == i and i >= 2, hle(heap[floor_div(i, 2)], heap[len(heap) - 1])))',
        'implies(old(i) == len(heap) - 1 and i == old(i), forall(k, 0, len(heap), heap[k] == old(heap[k])))',
        'implies(old(i != len(heap) - 1 and len(heap) - 1 >= 2 and ordat(heap, len(heap) - 1) and '
        '        implies(floor_div(len(heap) - 1, 2) == i and i >= 2, hle(heap[floor_div(i, 2)], heap[len(heap) - 1]))),'
        '        ordat(heap, len(heap) - 1) and '
        '        implies(floor_div(len(heap) - 1, 2) == i and i >= 2, hle(heap[floor_div(i, 2)], heap[len(heap) - 1])))',
      ],
      decreases='i',
    )},
    aspects={'mem': dict(ensures=['forall_ref(r, Node, inheap(heap, r) == old(inheap(heap, r)), r.index)'], loops={0: ['forall_ref(r, Node, inheap(heap, r) == old(inheap(heap, r)), r.index)']}, props=['C05'])},
    props=['C03'],
  ),

  # ---------------------------------------------------------------- balancer hooks
  # Behavioural contracts of the overridable hooks, weak enough for both balancers: the heap balancer's own hooks do
  # nothing; the aperture balancer's adjust the aperture, i.e. add one member or take one out (C06).  Callers may rely on
  # the heap invariant, on the accounting of every existing node and on the down list being untouched -- not on positions
  # or on the size.
  'HeapBalancerSink._OnNodeDown': dict(
    cls='HeapBalancerSink', params={'node': 'Node'}, returns='AsyncResult',
    requires=['HeapInv(self)', 'allocated(node)'],
    ensures=_HOOK_ENS + ['self._size >= old(self._size)'],
    modifies=_HOOK_MOD, allocates='any', drop=['AsyncResult'], props=['C03', 'C04'],
    # the heap balancer's own hooks change no membership (C05 is claimed for the heap balancer only)
    aspects={'ap': dict(requires=_AP_EXT, ensures=_AP_EXT + ['implies(dyn_is(self, ApertureBalancerSink), cast(self, ApertureBalancerSink)._total == old(cast(self, ApertureBalancerSink)._total))'], entry_assume=['not dyn_is(self, ApertureBalancerSink)'], props=['C06']), 'mem': dict(ensures=['forall(e, "any", has_key(self.g_node, e) == old(has_key(self.g_node, e)) and self.g_node[e] == old(self.g_node[e]))', 'self.g_node == old(self.g_node)', 'forall_ref(r, Node, inheap(self._heap, r) == old(inheap(self._heap, r)), r.index)', 'implies(old(HM_all(self)), self._heap[0].endpoint is None and allocated(self._servers) and allocated(self.g_node))', 'implies(old(HM_all(self)), HM_sub(self))', 'implies(old(HM_all(self)), HM_inj(self))', 'implies(old(HM_all(self)), HM_sup1(self))', 'implies(old(HM_all(self)), HM_sup2(self))', 'implies(old(HM_all(self)), HM_sup3(self))'], props=['C05'])},
  ),
  'HeapBalancerSink._OnPut': dict(
    cls='HeapBalancerSink', params={'node': 'Node'},
    requires=['HeapInv(self)'],
    ensures=_HOOK_ENS,
    modifies=_HOOK_MOD, allocates='any', drop=['AsyncResult'], props=['C03', 'C04'],
    aspects={'ap': dict(requires=_AP_EXT, ensures=_AP_EXT + ['implies(dyn_is(self, ApertureBalancerSink), cast(self, ApertureBalancerSink)._total == old(cast(self, ApertureBalancerSink)._total) - 1)'], entry_assume=['not dyn_is(self, ApertureBalancerSink)'], props=['C06']), 'mem': dict(ensures=['forall(e, "any", has_key(self.g_node, e) == old(has_key(self.g_node, e)) and self.g_node[e] == old(self.g_node[e]))', 'self.g_node == old(self.g_node)', 'forall_ref(r, Node, inheap(self._heap, r) == old(inheap(self._heap, r)), r.index)', 'implies(old(HM_all(self)), self._heap[0].endpoint is None and allocated(self._servers) and allocated(self.g_node))', 'implies(old(HM_all(self)), HM_sub(self))', 'implies(old(HM_all(self)), HM_inj(self))', 'implies(old(HM_all(self)), HM_sup1(self))', 'implies(old(HM_all(self)), HM_sup2(self))', 'implies(old(HM_all(self)), HM_sup3(self))'], props=['C05'])},
  ),
  'HeapBalancerSink._OnGet': dict(
    cls='HeapBalancerSink', params={'node': 'Node'},
    requires=['HeapInv(self)'],
    ensures=_HOOK_ENS,
    modifies=_HOOK_MOD, allocates='any', drop=['AsyncResult'], props=['C03', 'C04'],
    aspects={'ap': dict(requires=_AP_EXT, ensures=_AP_EXT + ['implies(dyn_is(self, ApertureBalancerSink), cast(self, ApertureBalancerSink)._total == old(cast(self, ApertureBalancerSink)._total) + 1)'], entry_assume=['not dyn_is(self, ApertureBalancerSink)'], props=['C06']), 'mem': dict(ensures=['forall(e, "any", has_key(self.g_node, e) == old(has_key(self.g_node, e)) and self.g_node[e] == old(self.g_node[e]))', 'self.g_node == old(self.g_node)', 'forall_ref(r, Node, inheap(self._heap, r) == old(inheap(self._heap, r)), r.index)', 'implies(old(HM_all(self)), self._heap[0].endpoint is None and allocated(self._servers) and allocated(self.g_node))', 'implies(old(HM_all(self)), HM_sub(self))', 'implies(old(HM_all(self)), HM_inj(self))', 'implies(old(HM_all(self)), HM_sup1(self))', 'implies(old(HM_all(self)), HM_sup2(self))', 'implies(old(HM_all(self)), HM_sup3(self))'], props=['C05'])},
  ),

  'HeapBalancerSink.__Get': dict(
    cls='HeapBalancerSink', returns='Node',
    locals={'n': 'Node?', 'm': 'Node?', 'o': 'Node?'},
    requires=['HeapInv(self)', 'self._size >= 1'],
    ensures=[
      'HeapInv(self)', 'self._size >= old(self._size)',
      'result == self._heap[1]',
      'result.channel.state == ChannelState.Open or result.load >= 0',
      # the root is a minimum of the repository's own (load, index) order over all members
      'forall(k, 1, self._size + 1, hle(result, self._heap[k]))',
      # taking a member changes nobody's outstanding count (the hook may add or retire members, never requests)
      'forall_ref(r, Node, implies(old(allocated(r)), r.g_out == old(r.g_out) and r.endpoint == old(r.endpoint) and r.channel == old(r.channel)), r.g_out)',
      'self._heap[0] == old(self._heap[0])',
    ],
    allocates='any',
    # C05: taking a member for a request changes nobody's membership
    aspects={'ap': dict(requires=_AP_EXT, ensures=_AP_EXT + ['implies(dyn_is(self, ApertureBalancerSink), cast(self, ApertureBalancerSink)._total == old(cast(self, ApertureBalancerSink)._total))'], loops={0: _AP_EXT + ['implies(dyn_is(self, ApertureBalancerSink), cast(self, ApertureBalancerSink)._total == old(cast(self, ApertureBalancerSink)._total))'], 1: _AP_EXT + ['implies(dyn_is(self, ApertureBalancerSink), cast(self, ApertureBalancerSink)._total == old(cast(self, ApertureBalancerSink)._total))']}, props=['C06']), 'mem': dict(ensures=['forall_ref(r, Node, inheap(self._heap, r) == old(inheap(self._heap, r)), r.index)', 'implies(old(HM_all(self)), self._heap[0].endpoint is None and allocated(self._servers) and allocated(self.g_node))', 'implies(old(HM_all(self)), HM_sub(self))', 'implies(old(HM_all(self)), HM_inj(self))', 'implies(old(HM_all(self)), HM_sup1(self))', 'implies(old(HM_all(self)), HM_sup2(self))', 'implies(old(HM_all(self)), HM_sup3(self))'], loops={0: ['forall_ref(r, Node, inheap(self._heap, r) == old(inheap(self._heap, r)), r.index)', 'implies(old(HM_all(self)), self._heap[0].endpoint is None and allocated(self._servers) and allocated(self.g_node))', 'implies(old(HM_all(self)), HM_sub(self))', 'implies(old(HM_all(self)), HM_inj(self))', 'implies(old(HM_all(self)), HM_sup1(self))', 'implies(old(HM_all(self)), HM_sup2(self))', 'implies(old(HM_all(self)), HM_sup3(self))'], 1: ['forall_ref(r, Node, inheap(self._heap, r) == old(inheap(self._heap, r)), r.index)', 'implies(old(HM_all(self)), self._heap[0].endpoint is None and allocated(self._servers) and allocated(self.g_node))', 'implies(old(HM_all(self)), HM_sub(self))', 'implies(old(HM_all(self)), HM_inj(self))', 'implies(old(HM_all(self)), HM_sup1(self))', 'implies(old(HM_all(self)), HM_sup2(self))', 'implies(old(HM_all(self)), HM_sup3(self))']}, props=['C05'])},
    lemmas=['k: lemma_root_min(self._heap, self._size, k)'],
    modifies=_HOOK_MOD + ['HeapBalancerSink._downq'],
    ghost=[
      {'before': 'n = n.downq', 'do': ['n.g_inq = False']},
      {'after': 'n.downq = None', 'do': ['n.g_inq = False']},
      {'after': 'n.downq = self._downq', 'do': ['n.g_inq = True', 'n.g_rank = (self._downq.g_rank - 1) if self._downq is not None else 0']},
    ],
    loops={
      0: dict(invariant=['HeapInv(self)', 'self._size >= old(self._size)', 'self._size >= 1', 'self._heap[0] == old(self._heap[0])',
                         'forall_ref(r, Node, implies(old(allocated(r)), r.g_out == old(r.g_out) and r.endpoint == old(r.endpoint) and r.channel == old(r.channel)), r.g_out)'],
              modifies=_HOOK_MOD + ['HeapBalancerSink._downq'], allocates='any'),
      1: dict(invariant=['HeapInv(self)', 'self._size >= old(self._size)', 'self._size >= 1',
                         'implies(n is not None, n.g_inq)',
                         'implies(m is None, n == self._downq)',
                         'implies(m is not None, m.g_inq and m.downq == n)', 'self._heap[0] == old(self._heap[0])',
                         'forall_ref(r, Node, implies(old(allocated(r)), r.g_out == old(r.g_out) and r.endpoint == old(r.endpoint) and r.channel == old(r.channel)), r.g_out)'],
              modifies=_HOOK_MOD + ['HeapBalancerSink._downq'], allocates='any'),
    },
    # C09: this is where a member whose channel is open again leaves the down list and gets traffic
    props=['C03', 'C04', 'C09'],
  ),

  'HeapBalancerSink.__Put': dict(
    cls='HeapBalancerSink', params={'n': 'Node'},
    requires=['HeapInv(self)', 'allocated(n)', 'n != self._heap[0]', 'n.g_out >= 1'],
    ensures=['HeapInv(self)', 'n.g_out == old(n.g_out) - 1',
             'forall_ref(r, Node, implies(r != n and old(allocated(r)), r.g_out == old(r.g_out)), r.g_out)',
             # a node that has left the heap is closed exactly when its last request is released
             'implies(old(n.index) < 0 and n.g_out == 0, n.channel.state == ChannelState.Closed or n.channel.state == old(n.channel.state))',
             # a release never closes a member that still holds requests (the aperture hook may retire an idle one)
             'forall_ref(r, Node, implies(old(allocated(r)) and r.g_out > 0 and r.load < 0 and r.channel != n.channel, r.channel.state == old(r.channel.state)), r.g_out)',
             'implies(n.g_out > 0 and n.load < 0, n.channel.state == old(n.channel.state))'],
    aspects={'ap': dict(requires=_AP_EXT, ensures=_AP_EXT + ['implies(dyn_is(self, ApertureBalancerSink), cast(self, ApertureBalancerSink)._total == old(cast(self, ApertureBalancerSink)._total) - 1)'], props=['C06']), 'mem': dict(ensures=['forall_ref(r, Node, inheap(self._heap, r) == old(inheap(self._heap, r)), r.index)', 'implies(old(HM_all(self)), self._heap[0].endpoint is None and allocated(self._servers) and allocated(self.g_node))', 'implies(old(HM_all(self)), HM_sub(self))', 'implies(old(HM_all(self)), HM_inj(self))', 'implies(old(HM_all(self)), HM_sup1(self))', 'implies(old(HM_all(self)), HM_sup2(self))', 'implies(old(HM_all(self)), HM_sup3(self))'], props=['C05'])},
    modifies=_HOOK_MOD, allocates='any',
    ghost=[
      {'after': 'n.load -= 1', 'do': ['n.g_out = n.g_out - 1']},
      {'before': 'n.load = self.Idle', 'do': ['assert False']},   # the clamp is unreachable
    ],
    props=['C03', 'C04'],
  ),

  # ghost lemma: in a heap ordered on [2..n] the root is a minimum (induction along k -> k//2)
  'lemma_root_min': dict(
    ghost_fn='''
def lemma_root_min(heap, n, k):
  j = k
  while j > 1:
    j = j // 2
''',
    params={'heap': 'list[Node]', 'n': 'int', 'k': 'int'},
    requires=['n < len(heap)', 'forall(c, 2, n + 1, ordat(heap, c))', '1 <= k and k <= n'],
    ensures=['hle(heap[1], heap[k])'],
    modifies=[],
    loops={0: dict(invariant=['1 <= j and j <= k', 'hle(heap[j], heap[k])'], decreases='j', modifies=[])},
    props=['C03'],
  ),

  'HeapBalancerSink._AddSink': dict(
    cls='HeapBalancerSink', params={'endpoint': 'any', 'sink_factory': 'ChannelFactory'}, returns='AsyncResult',
    locals={'new_node': 'Node'},
    requires=['HeapInv(self)'],
    ensures=['HeapInv(self)', 'self._size == old(self._size) + 1',
             'self._heap[self._size].endpoint == endpoint or exists(k, 1, self._size + 1, self._heap[k].endpoint == endpoint and self._heap[k].g_out == 0 and fresh(self._heap[k]))',
             'forall_ref(r, Node, implies(old(allocated(r)), r.g_out == old(r.g_out) and r.load == old(r.load)), r.g_out)',
             'forall_ref(c, Channel, implies(old(allocated(c)), c.state == old(c.state)), c.state)'],
    # C05: exactly one member joins -- a new node carrying this endpoint; every other node keeps its membership and endpoint
    aspects={'mem': dict(ensures=[
             'self.g_added is not None and fresh(self.g_added) and inheap(self._heap, self.g_added) and self.g_added.endpoint == endpoint',
             'forall_ref(r, Node, implies(r != self.g_added, inheap(self._heap, r) == old(inheap(self._heap, r))), r.index)',
             'forall_ref(r, Node, implies(old(allocated(r)), r.endpoint == old(r.endpoint)), r.endpoint)',
             'forall_ref(r, Node, implies(old(allocated(r)), r.endpoint == old(r.endpoint) and r.g_inq == old(r.g_inq) and r.downq == old(r.downq)), r.g_out)',
             'forall_ref(r, Node, implies(old(allocated(r)), r.channel == old(r.channel)), r.channel)',
             # the one new node has a channel of its own, just created
             'allocated(self.g_added.channel) and fresh(self.g_added.channel)',
             'forall_ref(r, Node, implies(allocated(r) and not old(allocated(r)), r == self.g_added), r.channel)',
             'self._downq == old(self._downq)',
             'self._heap[0] == old(self._heap[0])'], props=['C05'])},
    modifies=['Node.load', 'Node.index', 'Node.downq', 'Node.avg_load', 'Node.channel', 'Node.endpoint',
              'Node.g_out', 'Node.g_inq', 'list[Node]', 'HeapBalancerSink._size', 'HeapBalancerSink.g_added', 'Channel.state', 'Channel.g_closes', '$cls'],
    allocates='any',
    ghost=[{'after': 'new_node = self.Node(sink_factory(), self.Idle, self._size, endpoint)',
            'do': ['new_node.g_out = 0', 'new_node.g_inq = False', 'self.g_added = new_node']}],
    props=['C03', 'C04'],
  ),

  # starting a member's open: the only synchronous effect is the Open() call on its channel; the completion callback
  # (_OnOpenNodeComplete -> _OnNodeDown on failure) runs later as its own entry point
  'HeapBalancerSink._OpenNode': dict(
    cls='HeapBalancerSink', params={'n': 'Node'}, returns='AsyncResult',
    requires=['allocated(n)'],
    ensures=['result is not None', 'n.channel.g_opens == old(n.channel.g_opens) + 1',
             'forall_ref(c, Channel, implies(c != n.channel, c.g_opens == old(c.g_opens)), c.g_opens)'],
    modifies=['Channel.g_opens'], allocates=True,
    props=['C03', 'C05', 'C06'],
  ),
  'HeapBalancerSink._OnOpenNodeComplete': dict(
    cls='HeapBalancerSink', params={'ar': 'AsyncResult', 'node': 'Node'}, returns='AsyncResult',
    requires=['HeapInv(self)', 'allocated(ar)', 'allocated(node)'],
    ensures=['HeapInv(self)', 'implies(old(ar.exception) is None, result == ar)'],
    modifies=_HOOK_MOD, allocates='any',
    props=['C03'],
  ),


  # release closure created per dispatch (C04: idempotent release)
  'HeapBalancerSink._AsyncProcessRequestImpl.PutWrapper': dict(
    captures={'self': 'HeapBalancerSink', 'n': 'Node', 'put_called': 'list[bool]'},
    requires=['HeapInv(self)', 'allocated(n)', 'n != self._heap[0]', 'len(put_called) == 1',
              # token: an un-released wrapper accounts for one outstanding request of its node
              # (counting argument: DESIGN C04; g_out changes only here and at dispatch, by frame conditions)
              'implies(not put_called[0], n.g_out >= 1)'],
    ensures=['HeapInv(self)', 'put_called[0]',
             'implies(old(put_called[0]), forall_ref(r, Node, r.g_out == old(r.g_out) and r.load == old(r.load), r.g_out) and self._size == old(self._size))',
             'implies(not old(put_called[0]), n.g_out == old(n.g_out) - 1)',
             'forall_ref(r, Node, implies(r != n and old(allocated(r)), r.g_out == old(r.g_out)), r.g_out)'],
    modifies=_HOOK_MOD + ['list[bool]'], allocates='any',
    aspects={'ap': dict(requires=_AP_EXT, ensures=_AP_EXT + ['implies(dyn_is(self, ApertureBalancerSink), cast(self, ApertureBalancerSink)._total == old(cast(self, ApertureBalancerSink)._total) - (0 if old(put_called[0]) else 1))'], props=['C06'])},
    props=['C04'],
  ),

  'HeapBalancerSink._AsyncProcessRequestImpl': dict(
    cls='HeapBalancerSink',
    params={'sink_stack': 'ClientMessageSinkStack', 'msg': 'Message', 'stream': 'any', 'headers': 'any'},
    locals={'put_called': 'list[bool]', 'channel': 'Channel'},
    requires=['HeapInv(self)'],
    ensures=[],
    modifies=['*'],
    allocates='any',
    ghost=[
      {'after': 'n = self.__Get()', 'do': [
        'g_sel_out = n.g_out',
        # C03 (taken from the statement): the chosen member is a minimum of (load, index) over the heap,
        # and it is open unless every member is marked down
        'prove(forall(k, 1, self._size + 1, hle(n, self._heap[k])), "chosen-is-least")',
        'prove(n.channel.state == ChannelState.Open or forall(k, 1, self._size + 1, self._heap[k].load >= 0), "open-unless-all-down")',
        'prove(implies(n.load < 0, forall(k, 1, self._size + 1, implies(self._heap[k].load < 0, n.g_out <= self._heap[k].g_out))), "fewest-outstanding")',
      ]},
      {'before': 'n.load += 1', 'do': ['assume(n.g_out < 2147483645)']},
      {'after': 'n.load += 1', 'do': ['n.g_out = n.g_out + 1']},
      {'after': 'channel = self._no_members', 'do': [
        'prove(old(self._size) == 0 and self._size == 0, "no-members-only-when-empty")']},
      {'after': 'channel = n.channel', 'do': [
        'prove(old(self._size) != 0, "member-chosen-when-non-empty")',
        'prove(channel == n.channel and n.g_out == g_sel_out + 1, "dispatch-accounted")',
        'prove(msg.properties["__Endpoint"] == n.endpoint and ("__Endpoint" in msg.properties), "endpoint-stamped")',
        'prove(len(sink_stack._stack) == old(len(sink_stack._stack)) + 1 and sink_stack._stack[len(sink_stack._stack) - 1][0] == self, "release-pushed")',
        'prove(HeapInv(self), "invariant-before-forward")',
      ]},
    ],
    aspects={'ap': dict(requires=_AP_EXT, ghost=[{'before': 'channel.AsyncProcessRequest(sink_stack, msg, stream, headers)', 'do': ['prove(ApExt(self), "aperture-invariant-before-forward")',
        'prove(implies(dyn_is(self, ApertureBalancerSink), cast(self, ApertureBalancerSink)._total == old(cast(self, ApertureBalancerSink)._total) + (0 if old(self._size) == 0 else 1)), "every-dispatch-is-counted-once")']}], props=['C06'])},
    props=['C03', 'C04'],
  ),

  # the reply path: the member is released (the context is the release closure pushed at dispatch) BEFORE the reply
  # travels on -- sinks further up may raise or re-enter, and the release must not depend on them
  'HeapBalancerSink.AsyncProcessResponse': dict(
    cls='HeapBalancerSink',
    params={'sink_stack': 'ClientMessageSinkStack', 'context': 'Callable0', 'stream': 'any', 'msg': 'any'},
    requires=[], ensures=['context.g_calls == old(context.g_calls) + 1'],
    modifies=['*'], allocates='any',
    ghost=[{'before': 'sink_stack.AsyncProcessResponse(stream, msg)', 'do': [
      'prove(context.g_calls == old(context.g_calls) + 1, "member-released-before-the-reply-travels-on")']}],
    props=['C04', 'C01'],
  ),

  'HeapBalancerSink._FindNodeByEndpoint': dict(
    cls='HeapBalancerSink', params={'endpoint': 'any'}, returns='Node?',
    requires=['HI_shape(self)'],
    ensures=[
      'implies(result is not None, exists(k, 1, len(self._heap), self._heap[k] == result and result.endpoint == endpoint))',
      # the scan starts at the sentinel in slot 0 (endpoint None) and a hit there also reads as "not found"
      'implies(result is None and self._heap[0].endpoint != endpoint, forall(k, 1, len(self._heap), self._heap[k].endpoint != endpoint))',
      # first match: no earlier member has this endpoint
    ],
    modifies=[],
    props=['C03', 'C05'],
  ),

  'HeapBalancerSink._RemoveSink': dict(
    cls='HeapBalancerSink', params={'endpoint': 'any'}, returns='bool',
    locals={'node': 'Node?'},
    requires=['HeapInv(self)'],
    ensures=['HeapInv(self)',
             'forall_ref(r, Node, r.g_out == old(r.g_out), r.g_out)',
             'implies(not result, self._size == old(self._size))',
             'implies(result, self._size == old(self._size) - 1)'],
    # C05: exactly the member with this endpoint leaves; nobody else's membership changes
    aspects={'mem': dict(ensures=[
             'implies(result, self.g_removed is not None and self.g_removed.index == -1 and self.g_removed.endpoint == endpoint)',
             'implies(result, let(n, self.g_removed, old(inheap(self._heap, n))))',
             'forall_ref(r, Node, implies(not result or r != self.g_removed, inheap(self._heap, r) == old(inheap(self._heap, r))), r.index)',
             'implies(not result and self._heap[0].endpoint != endpoint, forall_ref(r, Node, implies(inheap(self._heap, r), r.endpoint != endpoint), r.index))',
             'self._heap[0] == old(self._heap[0])', 'self._downq == old(self._downq)',
             # only the removed member's channel can change state, and only to Closed -- and not while it is up and holds requests
             'forall_ref(c, Channel, implies(old(allocated(c)) and (not result or c != self.g_removed.channel), c.state == old(c.state)), c.state)',
             'implies(result, let(n, self.g_removed, n.channel.state == old(n.channel.state) or n.channel.state == ChannelState.Closed))',
             'implies(result and self.g_removed.g_out > 0 and self.g_removed.load < 0, let(n, self.g_removed, n.channel.state == old(n.channel.state)))',
             'forall_ref(r, Node, implies(old(allocated(r)), r.endpoint == old(r.endpoint) and r.load == old(r.load) and r.g_inq == old(r.g_inq) and r.downq == old(r.downq)), r.g_out)',
             'forall_ref(r, Node, implies(old(allocated(r)), r.channel == old(r.channel)), r.channel)'],
      ghost=[{'after': 'i = node.index', 'do': ['prove(inheap(self._heap, node) and node.endpoint == endpoint, "found-node-is-a-member-with-this-endpoint")']}],
      props=['C05'])},
    modifies=['Node.index', 'list[Node]', 'HeapBalancerSink._size', 'HeapBalancerSink.g_removed', 'Channel.state', 'Channel.g_closes'],
    ghost=[
      {'after': 'i = node.index', 'do': ['g_c0 = node.channel.g_closes', 'self.g_removed = node']},
      # C04: a removed member is closed at once exactly when it is idle or already marked down;
      # otherwise its last release closes it (see __Put)
      {'before': 'return True', 'do': [
        'prove(node.index == -1 and not inheap(self._heap, node), "removed-node-left-the-heap")',
        'prove(implies(node.g_out == 0 or node.load >= 0, node.channel.g_closes == g_c0 + 1), "idle-or-down-member-closed-at-once")',
        'prove(implies(node.g_out > 0 and node.load < 0, node.channel.g_closes == g_c0), "loaded-member-drains-first")']},
    ],
    props=['C03', 'C04'],
  ),
}

EXTERNS = {
  # handing the request to the member's channel: arbitrary downstream behaviour, including an
  # immediate reply that re-enters the balancer through the pushed release closure.  It is the
  # last statement of the dispatch, so nothing is assumed about the state afterwards.
  'Channel.AsyncProcessRequest': dict(
    params=[('sink_stack', 'ClientMessageSinkStack'), ('msg', 'Message'), ('stream', 'any'), ('headers', 'any')],
    modifies=['*'], allocates=True),
  'ChannelFactory.__call__': dict(params=[], returns='Channel', fresh=True, allocates=True,
                                  notes='functools.partial(next_provider.CreateSink, properties): builds a new member channel; touches no existing object'),
  'AsyncResult.Complete': dict(params=[], returns='AsyncResult'),
  'Channel.Open': dict(params=[], returns='AsyncResult', modifies=['Channel.g_opens'], allocates=True,
                       ensures=['self.g_opens == old(self.g_opens) + 1',
                                'forall_ref(c, Channel, implies(c != self, c.g_opens == old(c.g_opens)), c.g_opens)'],
                       notes='starts opening a sink; completion is asynchronous (no observable state changes synchronously)'),
  'random.randint': dict(params=[('a', 'int'), ('b', 'int')], returns='int',
                         requires=['a <= b'], ensures=['a <= result and result <= b'],
                         notes='unconstrained choice in range: every outcome of the random draw is covered'),
  # closing a channel changes only that channel's observable state
  'Channel.Close': dict(params=[], modifies=['Channel.state', 'Channel.g_closes'],
                        ensures=['forall_ref(c, Channel, implies(c != self, c.state == old(c.state)), c.state)',
                                 'self.g_closes == old(self.g_closes) + 1',
                                 'forall_ref(c, Channel, implies(c != self, c.g_closes == old(c.g_closes)), c.g_closes)',
                                 'self.state == ChannelState.Closed or self.state == old(self.state)'],
                        notes='ClientMessageSink.Close of a member channel (transport/pool/resurrector stack): assumed not to raise, not to yield'),
}
