"""Contracts for scales/asynchronous.py (C17)."""
FILE = 'scales/asynchronous.py'

CLASSES = {}

PREDICATES = {
  'succeeded': (['a'], 'a.g_ready and a.exception is None'),
  'failed': (['a'], 'a.g_ready and a.exception is not None'),
  # ---- WhenAll: state of the countdown after the callbacks of the inputs in g_done have run
  'WhenAllInv': (['ret', 'total', 'results', 'g_ars', 'g_done', 'g_ok'],
     'len(total) == 1 and len(results) == len(g_ars) and subset(g_ok, g_done) and '
     'forall(i, "int", implies(i in g_done, 0 <= i and i < len(g_ars))) and '
     'total[0] == len(g_ars) - card(g_ok) and card(g_ok) >= 0 and card(g_ok) <= card(g_done) and card(g_done) <= len(g_ars) and '
     # recorded values are the inputs' values, in input order
     'forall(i, "int", implies(i in g_ok, results[i] == g_ars[i].value)) and '
     # fails as soon as any input has failed; succeeds exactly when all have succeeded
     '((ret.g_ready and ret.exception is not None) == (not set_eq(g_ok, g_done))) and '
     '((ret.g_ready and ret.exception is None) == (set_eq(g_ok, g_done) and card(g_ok) == len(g_ars) and len(g_ars) > 0)) and '
     'implies(ret.g_ready and ret.exception is None, ret.value == results)'),
  # ---- WhenAny (from the statement): succeeded <=> some input succeeded (first one's value);
  # failed <=> all inputs done and none succeeded; once resolved it never changes
  'WhenAnyInv': (['ret', 'total', 'n', 'g_done', 'g_ok', 'g_first'],
     'len(total) == 1 and subset(g_ok, g_done) and card(g_done) >= 0 and card(g_done) <= n and total[0] == n - card(g_done) and '
     '(card(g_ok) == 0) == set_eq(g_ok, empty_set("int")) and '
     '((ret.g_ready and ret.exception is None) == (not set_eq(g_ok, empty_set("int")))) and '
     'implies(not set_eq(g_ok, empty_set("int")), ret.value == g_first) and '
     '((ret.g_ready and ret.exception is not None) == (set_eq(g_ok, empty_set("int")) and card(g_done) == n and n > 0))'),
}

FUNCTIONS = {
  'AsyncResult.WhenAll.complete': dict(
    path='AsyncResult.WhenAll.complete',
    params={'_n': 'int', '_ar': 'AsyncResult'},
    captures={'ret': 'AsyncResult', 'total': 'list[int]', 'results': 'list[any]',
              'g_ars': 'list[AsyncResult]', 'g_done': 'set[int]', 'g_ok': 'set[int]'},
    requires=['WhenAllInv(ret, total, results, g_ars, g_done, g_ok)', 'g_done != g_ok', 'results != g_ars',
              # gevent runs the link of input _n once, when that input has completed
              '0 <= _n and _n < len(g_ars)', '_ar == g_ars[_n]', '_ar.g_ready', 'not (_n in g_done)', '_ar != ret',
              # counting: each input's link runs once, so fewer than n have run before this one
              'card(g_done) < len(g_ars)',
              'forall(i, 0, len(g_ars), g_ars[i] != ret)'],
    ensures=['WhenAllInv(ret, total, results, g_ars, g_done, g_ok)',
             '_n in g_done', 'implies(_ar.exception is not None, ret.g_ready and ret.exception is not None)'],
    modifies=['list[int]', 'list[any]', 'set[int]', 'AsyncResult.g_sets', 'AsyncResult.value', 'AsyncResult.exception', 'AsyncResult.g_ready'],
    ghost=[
      {'before': 'if _ar.exception:', 'do': ['g_done.add(_n)']},
      {'after': 'results[_n] = _ar.value', 'do': ['g_ok.add(_n)']},
    ],
    props=['C17'],
  ),
  'AsyncResult.WhenAny.complete': dict(
    path='AsyncResult.WhenAny.complete',
    params={'_ar': 'AsyncResult'},
    captures={'ret': 'AsyncResult', 'total': 'list[int]',
              'g_n': 'int', 'g_i': 'int', 'g_done': 'set[int]', 'g_ok': 'set[int]', 'g_first': 'any'},
    requires=['WhenAnyInv(ret, total, g_n, g_done, g_ok, g_first)', 'g_done != g_ok',
              '_ar.g_ready', '_ar != ret', 'not (g_i in g_done)', '0 <= g_i and g_i < g_n', 'card(g_done) < g_n'],
    ensures=['let(first, ite(old(set_eq(g_ok, empty_set("int"))) and _ar.exception is None, _ar.value, old(g_first)), '
             '    WhenAnyInv(ret, total, g_n, g_done, g_ok, first))',
             # once resolved successfully the result never changes
             'implies(old(ret.g_ready and ret.exception is None), ret.g_ready and ret.exception is None and ret.value == old(ret.value))'],
    modifies=['list[int]', 'set[int]', 'AsyncResult.g_sets', 'AsyncResult.value', 'AsyncResult.exception', 'AsyncResult.g_ready'],
    ghost=[
      {'before': 'total[0] -= 1', 'do': ['g_done.add(g_i)', 'g_ok.add(g_i) if _ar.exception is None else None']},
    ],
    props=['C17'],
  ),
  'AsyncResult.WhenAny': dict(
    cls=None, params={'ars': 'list[AsyncResult]'}, returns='AsyncResult',
    locals={'ready_ars': 'list[AsyncResult]', 'total': 'list[int]'},
    requires=['len(ars) >= 1'],
    ensures=[
      # the result handed back at call time must already satisfy the statement:
      # resolved as failed only if every input has failed
      'implies(result.g_ready and result.exception is not None, forall(i, 0, len(ars), failed(ars[i])))',
      # resolved as succeeded only with the value of an input that succeeded
      'implies(result.g_ready and result.exception is None, exists(i, 0, len(ars), succeeded(ars[i]) and ars[i].value == result.value))',
      # some input already succeeded => resolved as succeeded
      'implies(exists(i, 0, len(ars), old(succeeded(ars[i]))), result.g_ready and result.exception is None)',
    ],
    modifies=['list[int]', 'list[AsyncResult]', 'AsyncResult.g_sets', 'AsyncResult.value', 'AsyncResult.exception', 'AsyncResult.g_ready', '$cls'],
    allocates=True,
    loops={0: dict(invariant=['not ret.g_ready', 'fresh(ret)'], modifies=[], allocates=False)},
    props=['C17'],
  ),
}

EXTERNS = {}

FUNCTIONS.update({
  # WhenAll at call time: nothing is decided synchronously -- every input, complete or not, is
  # handled by its link callback (gevent runs the link of an already complete input at once)
  'AsyncResult.WhenAll': dict(
    cls=None, params={'ars': 'list[AsyncResult]'}, returns='AsyncResult',
    locals={'total': 'list[int]', 'results': 'list[any]'},
    literals={'[None]': 'list[any]'},
    requires=['len(ars) >= 1'],
    ensures=['fresh(result)', 'not result.g_ready'],
    modifies=['list[int]', 'list[any]', 'AsyncResult.g_sets', 'AsyncResult.value', 'AsyncResult.exception', 'AsyncResult.g_ready', 'AsyncResult.g_links', '$cls'],
    allocates=True,
    loops={0: dict(invariant=['not ret.g_ready', 'fresh(ret)', 'len(total) == 1 and total[0] == len(ars)',
                              'len(results) == len(ars)', 'forall(k, 0, len(results), results[k] is None)',
                              'fresh(total) and fresh(results)'],
                   modifies=['AsyncResult.g_links'], allocates=True)},
    ghost=[{'before': 'return ret', 'do': [
      'prove(total[0] == len(ars) and forall(k, 0, len(ars), results[k] is None), "countdown-and-slots-move-only-in-callbacks")']},
      {'after': 'ar.rawlink(functools.partial(complete, n))', 'do': ['prove(ar == ars[n] and ar.g_links >= 1 + g_l0, "each-input-gets-its-link")']},
      {'before': 'ar.rawlink(functools.partial(complete, n))', 'do': ['g_l0 = ar.g_links']}],
    props=['C17'],
  ),

  # Unwrap: a fresh result that follows the chain of nested results
  'AsyncResult.Unwrap': dict(
    cls='AsyncResult', returns='AsyncResult',
    requires=[], ensures=['fresh(result)'],
    modifies=['AsyncResult.g_sets', 'AsyncResult.value', 'AsyncResult.exception', 'AsyncResult.g_ready', 'AsyncResult.g_links', '$cls'],
    allocates=True,
    props=['C17'],
  ),
  'AsyncResult._UnwrapHelper': dict(
    cls='AsyncResult', params={'target': 'AsyncResult'},
    requires=['allocated(target)'],
    ensures=[
      'target.g_sets <= old(target.g_sets) + 1',
      # not complete yet: nothing reaches the target now (it is linked for later)
      'implies(not old(self.g_ready), target.g_sets == old(target.g_sets) and self.g_links == old(self.g_links) + 1)',
      # a failure anywhere along the chain reaches the target
      'implies(old(self.g_ready and self.exception is not None), target.g_sets == old(target.g_sets) + 1 and target.exception == old(self.exception))',
      # a plain value is delivered as is; a nested result is followed, never delivered itself
      'implies(old(self.g_ready and self.exception is None and not dyn_is(self.value, AsyncResult)), target.g_sets == old(target.g_sets) + 1 and target.exception is None and target.value == old(self.value))',
      'implies(target.g_sets == old(target.g_sets) + 1 and target.exception is None, not dyn_is(target.value, AsyncResult))',
    ],
    modifies=['AsyncResult.g_sets', 'AsyncResult.value', 'AsyncResult.exception', 'AsyncResult.g_ready', 'AsyncResult.g_links'],
    allocates=True,
    props=['C17'],
  ),
})

EXTERNS.update({
  'functools.partial': dict(params=[('fn', 'any')], varargs=True, returns='any', ensures=['result is not None'], allocates=True),
})


# ---------------------------------------------------------------------------- ContinueWith / Map (C17)
CLASSES.update({
  # a user callback taking one argument; ghost: how often it ran and with what
  'Callback1': dict(extern=True, path=None, bases=[], fields={'g_calls': 'int', 'g_arg': 'any', 'g_ret': 'any'}, ghost=['g_calls', 'g_arg', 'g_ret']),
})

FUNCTIONS.update({
  # the continuation body: whatever fn does -- return, raise an ordinary exception, or raise one of the BaseException-only
  # ones gevent uses (Timeout, GreenletExit) -- the continuation's result is completed exactly once and nothing escapes
  'AsyncResult.ContinueWith.continue_with_callback.run': dict(
    captures={'fn': 'Callback1', '_ar': 'AsyncResult', 'cw_ar': 'AsyncResult'}, returns='none',
    requires=['allocated(cw_ar)', 'allocated(fn)'],
    ensures=['cw_ar.g_sets == old(cw_ar.g_sets) + 1', 'fn.g_calls == old(fn.g_calls) + 1 and fn.g_arg == _ar',
             'implies(cw_ar.exception is None, cw_ar.value == fn.g_ret)'],
    modifies=['AsyncResult.g_sets', 'AsyncResult.value', 'AsyncResult.exception', 'AsyncResult.g_ready', 'Callback1.g_calls', 'Callback1.g_arg', 'Callback1.g_ret', '$cls'],
    allocates=True,
    props=['C17'],
  ),
  # Map applies fn only to a successful value; a failed source is passed on as it is (decided when the source has
  # completed, i.e. inside the continuation -- not when Map is called)
  'AsyncResult.Map.mapper': dict(
    params={'_': 'any'}, captures={'self': 'AsyncResult', 'fn': 'Callback1'}, returns='any',
    requires=['allocated(fn)', 'allocated(self)'],
    ensures=['implies(truthy(old(self.exception)), result == self and fn.g_calls == old(fn.g_calls))',
             'implies(not truthy(old(self.exception)), fn.g_calls == old(fn.g_calls) + 1 and fn.g_arg == old(self.value) and result == fn.g_ret)'],
    raises={'Exception': dict(ensures=['not truthy(old(self.exception))']), 'GreenletExit': dict(), 'Timeout': dict()},
    modifies=['Callback1.g_calls', 'Callback1.g_arg', 'Callback1.g_ret'], allocates=True,
    props=['C17'],
  ),
})

EXTERNS.update({
  'Callback1.__call__': dict(params=[('x', 'any')], returns='any', may_raise=['Exception', 'GreenletExit', 'Timeout'], allocates=True,
                             modifies=['Callback1.g_calls', 'Callback1.g_arg', 'Callback1.g_ret'],
                             ensures=['self.g_calls == old(self.g_calls) + 1', 'self.g_arg == x', 'self.g_ret == result'],
                             raise_ensures=['self.g_calls == old(self.g_calls) + 1', 'self.g_arg == x'],
                             notes='a user continuation: may return anything or raise anything, including gevent.Timeout / GreenletExit (BaseException only)'),
  'sys.exc_info': dict(params=[], returns='tuple[any,any,any]', ensures=['result[1] is not None'], notes='inside an except block: the exception being handled'),
})
