"""Contracts for scales/resurrector.py (C09)."""
FILE = 'scales/resurrector.py'

CLASSES = {
  'ResurrectorSink': dict(path='ResurrectorSink', bases=['ClientMessageSink'], fields={
    '_down_on': 'real?', '_resurrector': 'Greenlet?', '_next_factory': 'NextProvider', '_properties': 'any',
    '_initial_wait_interval': 'real', '_max_wait_interval': 'real', '_backoff_exponent': 'real', 'endpoint': 'any',
    'g_attempts': 'int', 'g_spawns': 'int'}, ghost=['g_attempts', 'g_spawns']),
  'FailedFastError': dict(file='scales/message.py', path='FailedFastError', bases=[], fields={}),
  'GreenletExit': dict(extern=True, path=None, bases=[], fields={}),
}

PREDICATES = {
  # while the endpoint is down there is no underlying sink: requests fail fast, state reads Closed
  'ResInv': (['s'], 'implies(truthy(s._down_on), s._next is None) and allocated(s._on_faulted) and allocated(s._next_factory)'),
}

CONCURRENCY = {
  'Resurrector': dict(
    state=['ResurrectorSink._down_on', 'MessageSink._next', 'ResurrectorSink._resurrector', 'Channel.state', 'Channel.g_opens', 'Channel.g_closes', 'Observable.value'],
    invariant=['ResInv(self)'],
    guarantee=['self._initial_wait_interval == old(self._initial_wait_interval) and self._max_wait_interval == old(self._max_wait_interval) and self._backoff_exponent == old(self._backoff_exponent)'],
  ),
}

FUNCTIONS = {
  'ResurrectorSink.state': dict(cls='ResurrectorSink', inline=True),
  # down => fail fast, not forwarded
  'ResurrectorSink.AsyncProcessRequest': dict(
    cls='ResurrectorSink', conc='Resurrector', guar=[],
    params={'sink_stack': 'ClientMessageSinkStack', 'msg': 'Message', 'stream': 'any', 'headers': 'any'},
    requires=[], ensures=[], modifies=['*'], allocates=True,
    yields=[{'at': 'gevent.sleep(0)'}],
    ghost=[
      {'before': 'self.next_sink.AsyncProcessRequest(sink_stack, msg, stream, headers)', 'do': ['prove(self._next is not None and not truthy(self._down_on), "forwarded-only-while-up")']},
      {'before': 'sink_stack.AsyncProcessResponseMessage(MethodReturnMessage(error=FailedFastError()))', 'do': ['g_failfast = True']},
    ],
    props=['C09'],
  ),
  'ResurrectorSink._OnSinkFaulted': dict(
    cls='ResurrectorSink', params={'val': 'any'}, conc='Resurrector',
    locals={'sink': 'Channel?'},
    # the fault signal comes from the sink currently in use (the subscription is removed with the sink)
    requires=['implies(not truthy(self._down_on), self._next is not None)'],
    ensures=['truthy(self._down_on) and self._next is None', 'self._on_faulted.value == val',
             # idempotent while down: a second fault neither spawns another retry loop nor touches the clock
             'implies(old(truthy(self._down_on)), self._down_on == old(self._down_on) and self._resurrector == old(self._resurrector))',
             'implies(not old(truthy(self._down_on)), old(self._next).g_closes == old(old(self._next).g_closes) + 1)',
             # every outage gets its retry loop -- the first one and each later one alike
             'implies(not old(truthy(self._down_on)), self.g_spawns == old(self.g_spawns) + 1 and self._resurrector is not None)',
             'implies(old(truthy(self._down_on)), self.g_spawns == old(self.g_spawns))',
             # the handler is taken off the dead sink
             'implies(not old(truthy(self._down_on)), let(o, old(self._next.on_faulted), o.g_nsubs == old(o.g_nsubs) - 1))'],
    modifies=['ResurrectorSink._down_on', 'MessageSink._next', 'ResurrectorSink._resurrector', 'ResurrectorSink.g_spawns', 'Channel.state', 'Channel.g_closes',
              'Observable.value', 'Observable.g_nsubs', '$cls'],
    allocates=True,
    ghost=[{'after': 'self._resurrector = gevent.spawn(self._TryResurrect)', 'do': ['self.g_spawns = self.g_spawns + 1']}],
    props=['C09'],
  ),
  'ResurrectorSink.Close': dict(
    cls='ResurrectorSink', conc='Resurrector',
    requires=['implies(self._next is not None, allocated(self._next) and allocated(self._next.on_faulted) and self._next.on_faulted != self._on_faulted)'],
    ensures=['self._resurrector is None', 'not truthy(self._down_on)',
             # the fault handler is removed from the sink being closed (a fault already on its way must not start a retry loop)
             'implies(old(self._next) is not None, let(o, old(self._next.on_faulted), o.g_nsubs == old(o.g_nsubs) - 1))',
             'implies(old(self._next) is not None, old(self._next).g_closes == old(old(self._next).g_closes) + 1)'],
    modifies=['ResurrectorSink._down_on', 'ResurrectorSink._resurrector', 'Channel.state', 'Channel.g_closes', 'Observable.g_nsubs'],
    props=['C09'],
  ),
  'ResurrectorSink._TryResurrect': dict(
    cls='ResurrectorSink', conc='Resurrector',
    locals={'sink': 'Channel'},
    requires=['self._initial_wait_interval > 1', 'self._max_wait_interval >= self._initial_wait_interval', 'self._backoff_exponent > 1'],
    ensures=[],
    modifies=['ResurrectorSink._down_on', 'MessageSink._next', 'ResurrectorSink.g_attempts', 'Channel.state', 'Channel.g_opens', 'Channel.g_closes', 'Observable.g_nsubs', '$cls'],
    allocates=True,
    loops={0: dict(invariant=['ResInv(self)', 'not is_none(last_attempt)',
                              # growing, capped back-off
                              'wait_interval >= self._initial_wait_interval and wait_interval <= self._max_wait_interval',
                              'self._initial_wait_interval > 1 and self._max_wait_interval >= self._initial_wait_interval and self._backoff_exponent > 1'],
                   modifies=['ResurrectorSink._down_on', 'MessageSink._next', 'ResurrectorSink._resurrector', 'ResurrectorSink.g_attempts', 'Channel.state',
                             'Channel.g_opens', 'Channel.g_closes', 'Observable.value', 'Observable.g_nsubs', '$cls'], allocates=True)},
    yields=[{'at': 'gevent.sleep(wait_interval)'}, {'at': 'sink.Open().get()', 'rely': ['allocated(sink)']}],
    ghost=[
      {'before': 'gevent.sleep(wait_interval)', 'do': ['g_w = wait_interval']},
      {'after': 'sink = self._next_factory.CreateSink(self._properties)', 'do': ['self.g_attempts = self.g_attempts + 1']},
      # success: the fresh sink is installed, subscribed, and the down mark cleared
      {'after': 'self._down_on = None', 'do': ['prove(self._next == sink, "reopened-sink-installed")']},
      # the only exceptions that lead to another round are failures of the attempt itself: a retry loop killed by Close()
      # while it waits for the connect (GreenletExit raised inside sink.Open().get()) must end, not close-and-retry
      {'before': 'sink.Close()', 'do': ['prove(not caught("GreenletExit"), "killed-loop-makes-no-further-attempt")']},
      {'after': 'wait_interval = min(wait_interval, self._max_wait_interval)', 'do': [
        'prove(wait_interval >= g_w and wait_interval <= self._max_wait_interval, "back-off-grows-up-to-the-cap")']},
    ],
    props=['C09'],
  ),
}

EXTERNS = {
  'AsyncResult.get': dict(params=[], returns='any', yields=True, may_raise=['Exception', 'GreenletExit'],
                          notes='blocks until the result is set; re-raises its exception; a killed greenlet gets GreenletExit here'),
  'FailedFastError.__init__': dict(params=[], returns='any', ensures=['result is not None'], allocates=True),
}

CLASSES.update({
  'ResPropsX': dict(extern=True, path=None, bases=[], fields={'initial_wait_interval': 'real', 'max_wait_interval': 'real', 'backoff_exponent': 'real'}),
})
FUNCTIONS.update({
  # a new resurrector is up (no down mark), has no retry loop, and holds no underlying sink yet
  'ResurrectorSink.__init__': dict(
    cls='ResurrectorSink', params={'next_factory': 'NextProvider', 'sink_properties': 'ResPropsX', 'global_properties': 'any'}, returns='none',
    requires=['allocated(sink_properties)', 'allocated(next_factory)'],
    ensures=['ResInv(self)', 'not truthy(self._down_on)', 'self._resurrector is None', 'self._next is None',
             'self._initial_wait_interval == sink_properties.initial_wait_interval and self._max_wait_interval == sink_properties.max_wait_interval and '
             'self._backoff_exponent == sink_properties.backoff_exponent'],
    modifies=['*'], allocates=True, drop=['Varz', 'ROOT_LOG'],
    props=['C09'],
  ),
})
