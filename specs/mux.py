"""Contracts for scales/mux/sink.py (C11, parts of C02/C08/C12)."""
FILE = 'scales/mux/sink.py'

MAXTAG = 2 ** 24 - 1

CLASSES = {
  'TagPool': dict(path='TagPool', bases=[], fields={'_set': 'set[int]', '_next': 'int', '_max_tag': 'int', '_varz': 'any', '_log': 'any'}),
  'Tag': dict(path='Tag', bases=[], fields={'_tag': 'int'}),
}

PREDICATES = {
  # a tag is leased when it has been handed out (<= high-water mark) and is not in the free set
  'leased': (['p', 't'], '2 <= t and t <= p._next and t not in p._set'),
  'TagPoolInv': (['p'],
     '1 <= p._next and p._next <= p._max_tag - 1 and p._max_tag == 16777215 and '
     'forall(t, "int", implies(t in p._set, 2 <= t and t <= p._next))'),
}

FUNCTIONS = {
  'TagPool.get': dict(
    cls='TagPool', returns='int',
    requires=['TagPoolInv(self)'],
    ensures=[
      'TagPoolInv(self)',
      '2 <= result and result <= 16777214',                    # never 0, 1 or 2^24-1
      'not old(leased(self, result))', 'leased(self, result)',   # fresh w.r.t. every unanswered tag
      'forall(t, "int", implies(t != result, leased(self, t) == old(leased(self, t))))',
      # released tags are reused before the high-water mark moves
      'implies(old(truthy(self._set)), self._next == old(self._next) and old(result in self._set))',
      'implies(not old(truthy(self._set)), self._next == old(self._next) + 1 and result == self._next)',
    ],
    raises={'Exception': dict(when='not truthy(self._set) and self._next == self._max_tag - 1',
                              ensures=['unchanged("TagPool._next")', 'unchanged("set[int]")'])},
    modifies=['TagPool._next', 'set[int]'],
    props=['C11'],
  ),
  'TagPool.release': dict(
    cls='TagPool', params={'tag': 'int'},
    # only a tag that is currently leased may be returned (callers must establish this)
    requires=['TagPoolInv(self)', 'leased(self, tag)'],
    ensures=['TagPoolInv(self)', 'not leased(self, tag)', 'tag in self._set',
             'forall(t, "int", implies(t != tag, leased(self, t) == old(leased(self, t))))',
             'self._next == old(self._next)'],
    modifies=['set[int]'],
    props=['C11'],
  ),
}

CLASSES.update({
  'MuxSocketTransportSink': dict(path='MuxSocketTransportSink', bases=['ClientMessageSink'], fields={
    '_tag_map': 'dict[int,tuple[ClientMessageSinkStack,real,Props]]', '_tag_pool': 'TagPool',
    '_state': 'int', '_open_result': 'AsyncResult?', '_send_queue': 'Queue', '_socket': 'MuxSocket',
    '_greenlets': 'list[Greenlet]', '_service': 'any', '_socket_source': 'any'}),
  'Queue': dict(extern=True, path=None, bases=[], fields={}),
  'Socket': dict(extern=True, path=None, bases=[], fields={'connected': 'bool', 'host': 'any', 'port': 'int', 'g_epoch': 'int', 'g_written': 'int', 'g_ioerr': 'bool'}, ghost=['g_epoch', 'g_written', 'g_ioerr']),
  'Stream': dict(extern=True, path=None, bases=[], fields={}),
  # the mux transport's socket: reads and writes block (other greenlets run meanwhile)
  'MuxSocket': dict(extern=True, path=None, bases=['Socket'], fields={}),
})

PREDICATES.update({
  # the tags awaiting an answer are exactly the leased ones
  # every tag awaiting an answer is leased; while the transport is not closed the converse holds too
  # (a shutdown fails and forgets all in-flight requests; the pool is replaced on the next open)
  'MuxInv': (['s'], 'TagPoolInv(s._tag_pool) and allocated(s._tag_map) and allocated(s._tag_pool) and '
                    'forall(t, "int", implies(t in s._tag_map, leased(s._tag_pool, t))) and '
                    'implies(s._state != ChannelState.Closed, forall(t, "int", implies(leased(s._tag_pool, t), t in s._tag_map))) and '
                    'implies(s._state == ChannelState.Closed, forall(t, "int", not (t in s._tag_map)))'),
})

_MUX_MOD = ['dict[int,tuple[ClientMessageSinkStack,real,Props]]', 'set[int]']

FUNCTIONS.update({
  'MuxSocketTransportSink._ReleaseTag': dict(
    cls='MuxSocketTransportSink', params={'tag': 'int'}, returns='tuple[ClientMessageSinkStack,real,Props]?',
    requires=['MuxInv(self)'],
    ensures=['MuxInv(self)', 'tag not in self._tag_map',
             'is_none(result) == (not old(tag in self._tag_map))',
             'implies(not is_none(result), result[0] == old(self._tag_map[tag][0]) and result[2] == old(self._tag_map[tag][2]))',
             # an unknown / reserved / duplicated tag named by the peer changes nothing
             'forall(t, "int", implies(t != tag, (t in self._tag_map) == old(t in self._tag_map)))',
             'implies(not old(tag in self._tag_map), unchanged("set[int]") and unchanged("TagPool._next"))',
             'self._tag_pool._next == old(self._tag_pool._next)'],
    modifies=_MUX_MOD,
    props=['C11', 'C02'],
  ),
  'MuxSocketTransportSink._ProcessTaggedReply': dict(
    cls='MuxSocketTransportSink', params={'tag': 'int', 'stream': 'Stream'},
    requires=['MuxInv(self)'],
    ensures=['MuxInv(self)', 'tag not in self._tag_map',
             'forall(t, "int", implies(t != tag, (t in self._tag_map) == old(t in self._tag_map)))',
             'implies(not old(tag in self._tag_map), unchanged("set[int]") and unchanged("TagPool._next"))',
             ],
    modifies=_MUX_MOD + ['deque[tuple[AnySink,any]]', 'AnySink.g_invoked', 'Props.tag', 'Props.has_tag'],
    allocates=True,
    ghost=[
      # the reply goes to the stack registered under that tag -- and a frame for a tag nobody
      # waits for is delivered to nobody
      {'before': 'reply_stack.AsyncProcessResponseStream(stream)', 'do': [
        'prove(old(tag in self._tag_map) and reply_stack == old(self._tag_map[tag][0]), "routed-to-the-registered-stack")']},
    ],
    props=['C11', 'C02'],
  ),
})

EXTERNS = {
  'Stream.seek': dict(params=[('pos', 'int')]),
}

# ---------------------------------------------------------------------------- request path
CONCURRENCY = {
  # while a request waits for the connection to open, other greenlets may lease/release tags
  # and open/close the transport -- always through the verified operations
  'Mux': dict(
    state=['dict[int,tuple[ClientMessageSinkStack,real,Props]]', 'set[int]', 'TagPool._next', 'MuxSocketTransportSink._state',
           'MuxSocketTransportSink._open_result', 'MuxSocketTransportSink._tag_pool', 'MuxSocketTransportSink._tag_map',
           'MuxSocketTransportSink._send_queue', 'Props.tag', 'Props.has_tag'],
    invariant=['MuxInv(self)'],
    guarantee=[],
  ),
}

FUNCTIONS.update({
  'MuxSocketTransportSink._BuildHeader': dict(
    cls='MuxSocketTransportSink', params={'tag': 'int', 'msg_type': 'int', 'data_len': 'int'}, returns='bytes', trusted=True,
    requires=[], ensures=[], modifies=[], allocates=True,
    notes='abstract: the ThriftMux and Kafka transports are verified against their own header contracts'),

  'MuxSocketTransportSink.AsyncProcessRequest': dict(
    cls='SocketTransportSink_mux', path='MuxSocketTransportSink.AsyncProcessRequest', conc='Mux',
    params={'sink_stack': 'ClientMessageSinkStack?', 'msg': 'Message', 'stream': 'Stream', 'headers': 'HeadersRec'},
    captures={'g_body': 'int', 'g_bodylen': 'int'},
    buffers={'stream': 'braw(g_body, g_bodylen)'},
    requires=['g_bodylen >= 0 and g_bodylen <= 2147483643', 'allocated(msg.properties)', 'allocated(self._send_queue)',
              'has_key_rec(headers)', '-128 <= headers["__MessageType"] and headers["__MessageType"] <= 127',
              # only one-way messages (discards) are sent without a reply stack
              'implies(sink_stack is None, msg.is_one_way)'],
    ensures=['MuxInv(self)',
             # one-way messages (discards) lease nothing
             'implies(msg.is_one_way and old(self._state != ChannelState.Idle or self._open_result is None), forall(t, "int", (t in self._tag_map) == old(t in self._tag_map)) and unchanged("set[int]") and unchanged("TagPool._next") and unchanged("Props.tag") and unchanged("Props.has_tag"))'],
    modifies=['dict[int,tuple[ClientMessageSinkStack,real,Props]]', 'set[int]', 'TagPool._next', 'Props.tag', 'Props.has_tag',
              'deque[tuple[AnySink,any]]', 'AnySink.g_invoked', 'MethodReturnMessage.error', 'MethodReturnMessage.return_value',
              'MethodReturnMessage.stack', '$cls'],
    raises={'Exception': dict(when='True', ensures=['MuxInv(self)', 'implies(msg.is_one_way and old(self._state != ChannelState.Idle or self._open_result is None), forall(t, "int", (t in self._tag_map) == old(t in self._tag_map)) and unchanged("set[int]") and unchanged("TagPool._next") and unchanged("Props.tag") and unchanged("Props.has_tag"))'])},
    allocates=True, may_yield='self._state == ChannelState.Idle and self._open_result is not None',
    yields=[{'at': 'self._open_result.wait()'}],
    ghost=[
      {'after': 'tag = self._tag_pool.get()', 'do': [
        'prove(2 <= tag and tag <= 16777214 and not old_at_get_leased, "fresh-unreserved-tag")' if False else
        'prove(2 <= tag and tag <= 16777214, "tag-in-2..2^24-2")']},
      {'before': 'self._send_queue.put((payload, msg.properties))', 'do': [
        # C11/C02: the tag written in the header is the key under which this call's stack is registered
        'prove(implies(not msg.is_one_way, (tag in self._tag_map) and self._tag_map[tag][0] == sink_stack and msg.properties["__Tag"] == tag), "stack-registered-under-the-tag-sent")',
        'prove(implies(msg.is_one_way, tag == 0), "one-way-messages-use-tag-0-and-lease-nothing")',
        # C13: frame = 4-byte length of everything after it, signed type byte, 24-bit tag, then exactly the body
        'prove(beq(payload, bcat(bi32(4 + g_bodylen), bi8(headers["__MessageType"]), bu24(tag), braw(g_body, g_bodylen))), "frame-is-length-type-tag-body")',
        'prove(MuxInv(self), "tags-awaiting-an-answer-are-the-leased-ones")']},
    ],
    props=['C11', 'C13', 'C02', 'C08'],
  ),
})

PREDICATES['has_key_rec'] = (['h'], '"__MessageType" in h')

EXTERNS.update({
  'Queue.put': dict(params=[('item', 'any')], notes='gevent Queue: unbounded, put does not block'),
  'Queue.empty': dict(params=[], returns='bool', notes='whether anything is queued right now (either answer is possible at any time)'),
  'Queue.qsize': dict(params=[], returns='int', ensures=['result >= 0']),
  'Exception.__init__': dict(params=[('m', 'any')], returns='any', ensures=['result is not None'], allocates=True),
})

# ---------------------------------------------------------------------------- timeouts in the send path (C11, C12, C01)
_TAGS_UNCHANGED = ['forall(t, "int", (t in self._tag_map) == old(t in self._tag_map))',
                   'unchanged("set[int]")', 'unchanged("TagPool._next")', 'unchanged("Props.tag")', 'unchanged("Props.has_tag")']

FUNCTIONS.update({
  # behavioural contract of the hook: a client-side timeout of a request that is already on the wire
  # never gives its tag back (only the peer's answer does) -- it may only enqueue a discard notice
  'MuxSocketTransportSink._OnTimeout': dict(
    cls='MuxSocketTransportSink', params={'tag': 'int'}, trusted=True,
    requires=['MuxInv(self)'], ensures=['MuxInv(self)'] + _TAGS_UNCHANGED,
    raises={'Exception': dict(ensures=['MuxInv(self)'] + _TAGS_UNCHANGED)},
    modifies=['Props.tag', 'Props.has_tag', '$cls'], allocates=True,
    notes='abstract hook; SocketTransportSink_mux._OnTimeout and KafkaTransportSink._OnTimeout are verified against this contract'),

  'KafkaTransportSink._OnTimeout': dict(
    file='scales/kafka/sink.py', cls='KafkaTransportSink', params={'tag': 'int'},
    requires=['MuxInv(self)'], ensures=['MuxInv(self)'] + _TAGS_UNCHANGED,
    modifies=[], props=['C11'],
  ),

  'SocketTransportSink_mux._CreateDiscardMessage': dict(
    file='scales/thriftmux/sink.py', path='SocketTransportSink._CreateDiscardMessage', cls=None,
    params={'tag': 'int'}, returns='tuple[MethodDiscardMessage,Stream,HeadersRec]', trusted=True,
    requires=[], modifies=[], allocates=True,
    ensures=['result[0].is_one_way', 'result[0].which == tag', 'allocated(result[0].properties)', 'fresh(result[1])',
             '("__MessageType" in result[2]) and result[2]["__MessageType"] == 66'],
    notes='builds MethodDiscardMessage(tag) and marshals it with MessageSerializer(None).Marshal -> _Marshal_Tdiscarded (verified under C13); '
          'the serializer construction (dispatch dictionaries of bound methods) is not modelled'),

  'SocketTransportSink_mux._OnTimeout': dict(
    file='scales/thriftmux/sink.py', path='SocketTransportSink._OnTimeout', cls='SocketTransportSink_mux', params={'tag': 'int'},
    # the discard is sent on a transport that is open (the request it discards was written on it)
    requires=['MuxInv(self)', 'allocated(self._send_queue)', 'self._state == ChannelState.Open'],
    ensures=['MuxInv(self)'] + _TAGS_UNCHANGED,
    raises={'Exception': dict(ensures=['MuxInv(self)'] + _TAGS_UNCHANGED)},
    modifies=['Props.tag', 'Props.has_tag', 'deque[tuple[AnySink,any]]', 'AnySink.g_invoked', 'MethodReturnMessage.error',
              'MethodReturnMessage.return_value', 'MethodReturnMessage.stack', '$cls',
              'dict[int,tuple[ClientMessageSinkStack,real,Props]]', 'set[int]', 'TagPool._next'],
    allocates=True,
    props=['C11', 'C12'],
  ),

  # decides, just before a queued frame is written, whether the caller has already been handed TimeoutError
  'MuxSocketTransportSink._HandleTimeout': dict(
    cls='MuxSocketTransportSink', params={'msg_properties': 'Props'}, returns='bool',
    requires=['MuxInv(self)', 'allocated(msg_properties)',
              # the request has not been answered yet (an answered request's tag slot holds None)
              'implies("__Tag" in msg_properties, msg_properties["__Tag"] is not None)',
              # ... and not been written yet: this is the decision *before* the write (a tag given back here was never on the wire)
              'not msg_properties.g_sent'],
    ensures=['MuxInv(self)',
             # C12: dropped (True) exactly when the caller already holds TimeoutError
             'result == old(("__Deadline_Event" in msg_properties) and msg_properties["__Deadline_Event"] is not None and truthy(msg_properties["__Deadline_Event"].value))',
             # C11: a request dropped before it was written gives its own tag back, and only that one
             'implies(result and old("__Tag" in msg_properties) and old(msg_properties["__Tag"]) != 0, not (old(msg_properties["__Tag"]) in self._tag_map))',
             'forall(t, "int", implies(not (result and old("__Tag" in msg_properties) and t == old(msg_properties["__Tag"])), (t in self._tag_map) == old(t in self._tag_map)))',
             # a request that is going to be written keeps its tag
             'implies(not result, unchanged("set[int]") and unchanged("TagPool._next") and forall(t, "int", (t in self._tag_map) == old(t in self._tag_map)))'],
    modifies=['Observable.g_nsubs', 'dict[int,tuple[ClientMessageSinkStack,real,Props]]', 'set[int]', 'Props.tag', 'Props.has_tag'],
    allocates=True,
    props=['C11', 'C12'],
  ),
  'MuxSocketTransportSink._HandleTimeout.timeout_proc': dict(
    captures={'self': 'MuxSocketTransportSink', 'msg_properties': 'Props'},
    requires=['MuxInv(self)', 'allocated(msg_properties)', 'implies("__Tag" in msg_properties, msg_properties["__Tag"] is not None)'],
    # the timeout of a request already on the wire: its tag stays leased until the peer answers
    ensures=['MuxInv(self)'] + _TAGS_UNCHANGED[:3],
    raises={'Exception': dict(ensures=['MuxInv(self)'] + _TAGS_UNCHANGED[:3])},
    modifies=['Props.tag', 'Props.has_tag', '$cls'], allocates=True,
    props=['C11', 'C12', 'C01', 'C02'],
  ),
})

# ---------------------------------------------------------------------------- shutdown and the I/O loops (C08)
CLASSES.update({
  'ClientError': dict(file='scales/message.py', path='ClientError', bases=[], fields={}),
})

FUNCTIONS.update({
  'MuxSocketTransportSink.isActive': dict(cls='MuxSocketTransportSink', inline=True),
  # the first shutdown of an active transport closes it, fails every in-flight request once and
  # forgets them; later shutdowns do nothing
  'MuxSocketTransportSink._Shutdown': dict(
    cls='MuxSocketTransportSink', params={'reason': 'any', 'fault': 'bool'},
    locals={'sink_stack': 'ClientMessageSinkStack'},
    requires=['MuxInv(self)', 'allocated(self._on_faulted) and allocated(self._socket)'],
    ensures=['MuxInv(self)', 'self._state == ChannelState.Closed',
             'implies(old(self._state) == ChannelState.Closed, unchanged("Observable.value") and self._tag_map == old(self._tag_map) and self._socket.g_epoch == old(self._socket.g_epoch))',
             'implies(old(self._state) != ChannelState.Closed, not self._socket.connected and forall(t, "int", not (t in self._tag_map)))',
             'implies(old(self._state) != ChannelState.Closed and fault, self._on_faulted.value is not None)',
             'implies(not fault, unchanged("Observable.value"))'],
    modifies=['MuxSocketTransportSink._state', 'MuxSocketTransportSink._tag_map', 'MuxSocketTransportSink._open_result', 'MuxSocketTransportSink._send_queue',
              'MuxSocketTransportSink._greenlets', 'Socket.connected', 'Socket.g_epoch', 'Observable.value', 'dict[int,tuple[ClientMessageSinkStack,real,Props]]', 'list[Greenlet]',
              'deque[tuple[AnySink,any]]', 'AnySink.g_invoked', 'MethodReturnMessage.error', 'MethodReturnMessage.return_value', 'MethodReturnMessage.stack',
              'AsyncResult.g_sets', 'AsyncResult.value', 'AsyncResult.exception', 'AsyncResult.g_ready', '$cls'],
    allocates=True,
    loops={
      0: dict(invariant=['True'], modifies=[]),
      1: dict(invariant=['self._state == ChannelState.Closed', 'not self._socket.connected', 'msg.error is not None',
                         'self._tag_map == old(self._tag_map)', 'forall(t, "int", (t in self._tag_map) == old(t in self._tag_map))',
                         'TagPoolInv(self._tag_pool)', 'self._tag_pool == old(self._tag_pool)',
                         'implies(fault, self._on_faulted.value is not None)', 'implies(not fault, unchanged("Observable.value"))'],
              modifies=['deque[tuple[AnySink,any]]', 'AnySink.g_invoked'], allocates=True),
    },
    ghost=[
      # every stack registered in the tag map receives the error message (one per in-flight request)
      {'before': 'sink_stack.AsyncProcessResponseMessage(msg)', 'do': ['prove(msg.error is not None, "in-flight-request-failed-with-an-error")']},
    ],
    props=['C08'],
  ),
})

FUNCTIONS.update({
  # the only writer of the connection: one queued frame at a time, the timeout decision first,
  # any failure shuts the transport down and ends the loop
  'MuxSocketTransportSink._SendLoop': dict(
    cls='MuxSocketTransportSink', conc='Mux', guar=[],
    locals={'dct': 'Props'},
    requires=['MuxInv(self)', 'allocated(self._on_faulted) and allocated(self._socket) and allocated(self._send_queue)'],
    ensures=['MuxInv(self)', 'self._state == ChannelState.Closed'],
    modifies=['*'], allocates=True,
    loops={0: dict(invariant=['MuxInv(self)', 'allocated(self._on_faulted) and allocated(self._socket) and allocated(self._send_queue)'],
                   modifies=['*'], allocates=True)},
    yields=[{'at': 'self._send_queue.get()', 'rely': ['allocated(self._on_faulted) and allocated(self._socket) and allocated(self._send_queue)']},
            {'at': 'self._socket.write(payload)', 'rely': ['allocated(self._on_faulted) and allocated(self._socket) and allocated(self._send_queue)']}],
    ghost=[
      {'after': 'payload, dct = self._send_queue.get()', 'do': ['g_decided = False', 'assume(allocated(dct) and implies("__Tag" in dct, dct["__Tag"] is not None) and not dct.g_sent)']},
      {'after': 'self._socket.write(payload)', 'do': ['dct.g_sent = True']},
      {'before': 'if self._HandleTimeout(dct):', 'do': ['g_decided = True']},
      # C12: a frame is written only after _HandleTimeout said the caller has not timed out (and has
      # armed the discard handler for it)
      {'before': 'self._socket.write(payload)', 'do': ['prove(g_decided, "timeout-decision-before-every-write")']},
      {'before': 'break', 'do': ['prove(self._state == ChannelState.Closed, "failure-shuts-the-transport-down")']},
    ],
    props=['C08', 'C12', 'C11', 'C02'],
  ),

  # the only reader: frame by frame; any failure (error, EOF) shuts the transport down and ends the loop
  'MuxSocketTransportSink._RecvLoop': dict(
    cls='MuxSocketTransportSink', conc='Mux', guar=[],
    requires=['MuxInv(self)', 'allocated(self._on_faulted) and allocated(self._socket)'],
    ensures=['MuxInv(self)', 'self._state == ChannelState.Closed'],
    modifies=['*'], allocates=True,
    loops={0: dict(invariant=['MuxInv(self)', 'allocated(self._on_faulted) and allocated(self._socket)'], modifies=['*'], allocates=True)},
    yields=[{'at': "self._socket.readAll(4)", 'rely': ['allocated(self._on_faulted) and allocated(self._socket)']},
            {'at': 'self._socket.readAll(sz)', 'rely': ['allocated(self._on_faulted) and allocated(self._socket)']}],
    ghost=[
      # the body handed to the reply processor has exactly the announced length
      {'after': 'buf = BytesIO(self._socket.readAll(sz))', 'do': ['prove(blen(content(buf)) == sz, "frame-body-has-the-announced-length")']},
      {'before': 'break', 'do': ['prove(self._state == ChannelState.Closed, "failure-shuts-the-transport-down")']},
    ],
    props=['C08', 'C13'],
  ),
})

EXTERNS.update({
  'Queue.get': dict(params=[], returns='tuple[bytes,Props]', yields=True, may_raise=['Exception'],
                    notes='blocks until an item is queued (items are (frame bytes, message properties))'),
  'Queue.qsize': dict(params=[], returns='int'),
  'MuxSocket.readAll': dict(params=[('sz', 'int')], returns='bytes', may_raise=['Exception', 'EOFError'], yields=True, ensures=['blen(result) == sz']),
  'MuxSocket.write': dict(params=[('data', 'bytes')], may_raise=['Exception'], yields=True, modifies=['Socket.g_written'],
                          ensures=['self.g_written == old(self.g_written) + 1']),
})

# ---------------------------------------------------------------------------- construction (C11)

FUNCTIONS.update({
  # a new pool has leased nothing: the free set is empty and the high-water mark is the reserved tag 1
  'TagPool.__init__': dict(
    cls='TagPool', params={'max_tag': 'int', 'service': 'any', 'host': 'any'}, returns='none',
    requires=['max_tag == 16777215'],
    ensures=['TagPoolInv(self)', 'self._next == 1', 'forall(t, "int", not (t in self._set))', 'forall(t, "int", not leased(self, t))'],
    modifies=['TagPool._set', 'TagPool._next', 'TagPool._max_tag', 'TagPool._varz', 'TagPool._log', 'set[int]', '$cls'], allocates=True,
    literals={'set()': 'set[int]'}, drop=['Varz', 'POOL_LOGGER'],
    props=['C11'],
  ),
  # (re)initialisation on every open: no request is in flight on the new connection and its tag pool is new
  'MuxSocketTransportSink._Init': dict(
    cls='MuxSocketTransportSink', returns='none',
    requires=[],
    ensures=['MuxInv(self)', 'forall(t, "int", not (t in self._tag_map))', 'fresh(self._tag_pool) and fresh(self._tag_map)', 'self._open_result is None'],
    modifies=['MuxSocketTransportSink._tag_map', 'MuxSocketTransportSink._open_result', 'MuxSocketTransportSink._tag_pool', 'MuxSocketTransportSink._greenlets',
              'MuxSocketTransportSink._send_queue', 'dict[int,tuple[ClientMessageSinkStack,real,Props]]', 'list[Greenlet]',
              'TagPool._set', 'TagPool._next', 'TagPool._max_tag', 'TagPool._varz', 'TagPool._log', 'set[int]', '$cls'],
    allocates=True,
    literals={'{}': 'dict[int,tuple[ClientMessageSinkStack,real,Props]]', '[]': 'list[Greenlet]'},
    props=['C11'],
  ),
})

EXTERNS.update({
  'Queue.__init__': dict(params=[], returns='Queue', fresh=True, allocates=True, ensures=['result is not None']),
})
