"""Contracts for scales/thrift/sink.py (C08, C12, C02, C14 framing) and scales/thrift/serializer.py (C14)."""
FILE = 'scales/thrift/sink.py'

CLASSES = {
  'SocketTransportSink': dict(path='SocketTransportSink', bases=['ClientMessageSink'], fields={
    '_socket': 'TimedSocket', '_state': 'int', '_processing': 'Greenlet?', '_open_result': 'AsyncResult?',
    # ghost: messages handed to the stack of the transaction in progress
  }),
  # g_armed (ghost): the timer is running -- a blocking socket call made now is interrupted at the deadline
  'TimeoutObj': dict(extern=True, path=None, bases=[], fields={'g_armed': 'bool'}, ghost=['g_armed']),
  # the serial transport's socket: a gevent.Timeout armed around the transaction may surface in its blocking calls
  'TimedSocket': dict(extern=True, path=None, bases=['Socket'], fields={}),
  'Greenlet': dict(extern=True, path=None, bases=[], fields={}),
  'Timeout': dict(extern=True, path=None, bases=[], fields={}),
  'NoopTimeout': dict(file='scales/asynchronous.py', path='NoopTimeout', bases=['TimeoutObj'], fields={}),
  'ChannelConcurrencyError': dict(file='scales/message.py', path='ChannelConcurrencyError', bases=[], fields={}),
}

PREDICATES = {
  'sz_ok': (['x'], 'x >= 0'),
  # what the transport reports upward
  'reports_open': (['s'], 's._socket.connected or s._state == ChannelState.Open'),
}

FUNCTIONS = {
  'SocketTransportSink.state': dict(cls='SocketTransportSink', inline=True),
  'SocketTransportSink.Close': dict(
    cls='SocketTransportSink',
    requires=[], ensures=['self._state == ChannelState.Closed', 'not self._socket.connected', 'self._processing is None', 'self._open_result is None',
                          'self._socket.g_epoch > old(self._socket.g_epoch)'],
    modifies=['SocketTransportSink._state', 'Socket.connected', 'Socket.g_epoch', 'SocketTransportSink._open_result', 'SocketTransportSink._processing'],
    props=['C08'],
  ),
  # _Fault is idempotent: a closed transport is not faulted again
  'SocketTransportSink._Fault': dict(
    cls='SocketTransportSink', params={'reason': 'any'},
    requires=['allocated(self._on_faulted)'],
    ensures=['self._state == ChannelState.Closed', 'not self._socket.connected', 'self._socket.g_epoch >= old(self._socket.g_epoch)',
             # the fault signal is raised unless the transport was already closed
             'implies(not old(self._state == ChannelState.Closed and not self._socket.connected), self._on_faulted.value is not None)'],
    modifies=['SocketTransportSink._state', 'Socket.connected', 'Socket.g_epoch', 'SocketTransportSink._open_result', 'SocketTransportSink._processing', 'Observable.value', '$cls'],
    allocates=True,
    props=['C08'],
  ),
  'SocketTransportSink._OpenImpl': dict(
    cls='SocketTransportSink',
    # Open() is issued on a transport that has not been closed (closed transports are replaced, not re-opened)
    requires=['allocated(self._on_faulted)', 'self._state != ChannelState.Closed'],
    ensures=['self._state == ChannelState.Open and self._socket.connected'],
    raises={'Exception': dict(ensures=['not self._socket.connected', 'self._state == ChannelState.Closed', 'self._on_faulted.value is not None'])},
    modifies=['SocketTransportSink._state', 'Socket.connected', 'Socket.g_epoch', 'SocketTransportSink._open_result', 'SocketTransportSink._processing', 'Observable.value', '$cls'],
    allocates=True,
    props=['C08'],
  ),

  # one request/response transaction of the serial transport
  'SocketTransportSink._AsyncProcessTransaction': dict(
    cls='SocketTransportSink',
    params={'data': 'bytes', 'sink_stack': 'ClientMessageSinkStack', 'deadline': 'real?'},
    locals={'gtimeout': 'TimeoutObj?'},
    requires=['allocated(self._on_faulted)', 'self._processing is not None'],
    ensures=[
      # on every exit -- success, timeout, fault at any I/O step -- the slot is free again
      'self._processing is None',
      # a transport that still reports itself open is actually connected
      'implies(self._state != ChannelState.Closed or self._socket.connected, self._socket.connected)',
      # C14: the reply is delivered unless the connection itself failed (error / end of stream / timeout raised by a
      # socket call) or the deadline had passed -- in particular however the reply bytes are split across reads
      'implies(not self._socket.g_ioerr and not g_expired and sz_ok(g_sz), g_spawned == 1 and g_posts == 0)',
    ],
    modifies=['TimeoutObj.g_armed', 'Socket.g_ioerr', 'SocketTransportSink._state', 'Socket.connected', 'Socket.g_epoch', 'SocketTransportSink._open_result', 'SocketTransportSink._processing',
              'Observable.value', 'deque[tuple[AnySink,any]]', 'AnySink.g_invoked', 'MethodReturnMessage.error',
              'MethodReturnMessage.return_value', 'MethodReturnMessage.stack', 'Socket.g_written', '$cls'],
    allocates=True,
    ghost=[
      {'before': 'gtimeout = None', 'do': ['g_posts = 0', 'g_spawned = 0', 'g_now = 0.0', 'g_w0 = self._socket.g_written', 'self._socket.g_ioerr = False', 'g_expired = False', 'g_sz = 0']},
      {'before': 'raise gevent.Timeout()', 'do': ['g_expired = True']},
      {'after': "(sz,) = unpack('!i', self._socket.readAll(4))", 'do': ['g_sz = sz']},
      # C12: once the deadline has been reached the caller may already hold TimeoutError: nothing is written
      {'before': 'self._socket.write(data)', 'do': [
        'prove(implies(not is_none(deadline) and truthy(deadline), g_now < deadline), "nothing-written-at-or-after-the-deadline")',
        'prove(implies(not is_none(deadline) and truthy(deadline), gtimeout is not None and gtimeout.g_armed), "deadline-timer-running-across-the-write")']},
      # C08: a peer that goes silent at any point of the exchange is noticed: with a deadline, its timer is running across
      # the write and across both reads (header and body), so the silence ends in the timeout branch
      {'before': "(sz,) = unpack('!i', self._socket.readAll(4))", 'do': [
        'prove(implies(not is_none(deadline) and truthy(deadline), gtimeout is not None and gtimeout.g_armed), "deadline-timer-running-across-the-header-read")']},
      {'before': 'buf = BytesIO(self._socket.readAll(sz))', 'do': [
        'prove(implies(not is_none(deadline) and truthy(deadline), gtimeout is not None and gtimeout.g_armed), "deadline-timer-running-across-the-body-read")']},
      {'before': 'self._processing = None', 'do': ['g_slot_freed = True']},
      {'after': 'timeout = deadline - time.time()', 'do': ['g_now = deadline - timeout']},
      # C14 framing: the reply body handed on is exactly the number of bytes the 4-byte prefix announced
      {'after': 'buf = BytesIO(self._socket.readAll(sz))', 'do': ['prove(blen(content(buf)) == sz, "reply-body-has-the-announced-length")']},
      {'before': 'gevent.spawn(self._ProcessReply, buf, sink_stack)', 'do': [
        'prove(self._processing is None and g_posts == 0, "slot-freed-before-the-reply-is-delivered")', 'g_spawned = g_spawned + 1']},
      {'before': 'sink_stack.AsyncProcessResponseMessage(MethodReturnMessage(error=err))', 'do': [
        'prove(g_posts == 0 and g_spawned == 0 and self._processing is None, "timeout-answered-once-with-the-slot-free")',
        # C02: the connection a late reply could arrive on has been closed (and re-opened) first
        'prove(self._socket.g_epoch > old(self._socket.g_epoch), "connection-recycled-after-a-timeout")',
        'g_posts = g_posts + 1']},
      {'before': 'self._Fault(ex)', 'do': ['g_was_closed = (self._state == ChannelState.Closed and not self._socket.connected)']},
      {'before': 'sink_stack.AsyncProcessResponseMessage(MethodReturnMessage(error=ex))', 'do': [
        'prove(g_posts == 0 and g_spawned == 0 and self._processing is None, "fault-answered-once-with-the-slot-free")',
        'prove(not self._socket.connected and self._state == ChannelState.Closed and (g_was_closed or self._on_faulted.value is not None), "fault-closes-the-transport-and-raises-the-signal")',
        'g_posts = g_posts + 1']},
    ],
    props=['C08', 'C12', 'C02', 'C14'],
  ),

  'SocketTransportSink.AsyncProcessRequest': dict(
    cls='SocketTransportSink',
    params={'sink_stack': 'ClientMessageSinkStack', 'msg': 'Message', 'stream': 'Stream', 'headers': 'any'},
    captures={'g_body': 'int', 'g_bodylen': 'int'},
    buffers={'stream': 'braw(g_body, g_bodylen)'},
    requires=['0 <= g_bodylen and g_bodylen <= 2147483647', 'allocated(msg.properties)'],
    ensures=[],
    modifies=['SocketTransportSink._processing', 'deque[tuple[AnySink,any]]', 'AnySink.g_invoked', 'MethodReturnMessage.error',
              'MethodReturnMessage.return_value', 'MethodReturnMessage.stack', '$cls'],
    allocates=True,
    ghost=[
      # C02: a request arriving while another is in flight is rejected and writes nothing
      {'before': "sink_stack.AsyncProcessResponseMessage(MethodReturnMessage(error=ChannelConcurrencyError('Concurrency violation in AsyncProcessRequest')))", 'do': [
        'prove(self._processing is not None, "rejected-only-while-busy")']},
      # C14: the bytes handed to the transaction are a 4-byte big-endian length followed by exactly the payload
      {'before': 'self._processing = gevent.spawn(self._AsyncProcessTransaction, sz + payload, sink_stack, deadline)', 'do': [
        'prove(old(self._processing) is None, "one-transaction-at-a-time")',
        'prove(beq(bcat(sz, payload), bcat(bi32(g_bodylen), braw(g_body, g_bodylen))), "frame-is-length-prefix-plus-payload")',
        'prove(implies("__Deadline" in msg.properties, deadline == msg.properties["__Deadline"]), "deadline-passed-on")']},
    ],
    props=['C02', 'C14', 'C08'],
  ),
}

EXTERNS = {
  'Socket.open': dict(params=[], may_raise=['Exception'], modifies=['Socket.connected', 'Socket.g_epoch'],
                      ensures=['self.connected', 'self.g_epoch == old(self.g_epoch)'],
                      raise_ensures=['self.g_epoch == old(self.g_epoch)'],
                      notes='VarzSocketWrapper.open: connect; may be refused / fail (connected is then unspecified but not trusted: see isOpen)'),
  'Socket.close': dict(params=[], modifies=['Socket.connected', 'Socket.g_epoch'],
                       ensures=['not self.connected', 'self.g_epoch == old(self.g_epoch) + 1'],
                       notes='closes the connection: nothing sent on the old connection can be read afterwards (epoch)'),
  'Socket.isOpen': dict(params=[], returns='bool', ensures=['result == self.connected']),
  'TimedSocket.write': dict(params=[('data', 'bytes')], may_raise=['Exception', 'Timeout'], modifies=['Socket.g_written', 'Socket.g_ioerr'],
                       ensures=['self.g_written == old(self.g_written) + 1', 'self.connected', 'self.g_ioerr == old(self.g_ioerr)'], raise_ensures=['self.g_written >= old(self.g_written)', 'self.g_ioerr'],
                       notes='sendall on the connection; cannot succeed on a closed handle'),
  'TimedSocket.read': dict(params=[('sz', 'int')], returns='bytes', may_raise=['Exception', 'EOFError', 'Timeout'], modifies=['Socket.g_ioerr'],
                      ensures=['0 <= blen(result) and blen(result) <= sz', 'self.connected', 'self.g_ioerr == old(self.g_ioerr)'], raise_ensures=['self.g_ioerr'],
                      notes='one recv: whatever has arrived, at most sz bytes -- possibly fewer than asked for'),
  'TimedSocket.readAll': dict(params=[('sz', 'int')], returns='bytes', may_raise=['Exception', 'EOFError', 'Timeout'], modifies=['Socket.g_ioerr'],
                         ensures=['blen(result) == sz', 'self.connected', 'self.g_ioerr == old(self.g_ioerr)'], raise_ensures=['self.g_ioerr']),
  'gevent.Timeout.start_new': dict(params=[('timeout', 'real')], returns='TimeoutObj', fresh=True, allocates=True, modifies=['TimeoutObj.g_armed'],
                                   ensures=['result.g_armed', 'forall_ref(t, TimeoutObj, implies(t != result, t.g_armed == old(t.g_armed)), t.g_armed)']),
  'gevent.Timeout': dict(params=[], returns='Timeout', fresh=True, allocates=True),
  'gevent.spawn_greenlet': dict(params=[], returns='Greenlet'),
  'TimeoutObj.cancel': dict(params=[], modifies=['TimeoutObj.g_armed'],
                            ensures=['not self.g_armed', 'forall_ref(t, TimeoutObj, implies(t != self, t.g_armed == old(t.g_armed)), t.g_armed)']),
  'Greenlet.kill': dict(params=[('block', 'bool')]),
}

# ---------------------------------------------------------------------------- serializer (C14)
CLASSES.update({
  'MessageSerializer': dict(file='scales/thrift/serializer.py', path='MessageSerializer', bases=[], fields={
    '_protocol_factory': 'ProtocolFactory', '_seq_id': 'int', '_FindClass': 'ClassFinder'}),
  'ProtocolFactory': dict(extern=True, path=None, bases=[], fields={}),
  'Protocol': dict(extern=True, path=None, bases=[], fields={}),
  'ClassFinder': dict(extern=True, path=None, bases=[], fields={}),
  # a generated <method>_result class and its instances, as far as the reply mapping looks at them
  'ResultClass': dict(extern=True, path=None, bases=[], fields={'thrift_spec': 'list[SpecEntry?]?', 'g_void': 'bool'}, ghost=['g_void']),
  # one entry of a generated thrift_spec: (field id, type, name, type args, default); entry 0 describes `success` (None for void)
  'SpecEntry': dict(extern=True, path=None, bases=[], listlike=['fid', 'ttype', 'name', 'targs', 'dflt'],
                    fields={'fid': 'int', 'ttype': 'int', 'name': 'str', 'targs': 'any', 'dflt': 'any'}),
  'ThriftResult': dict(extern=True, path=None, bases=[], fields={'success': 'any', 'g_has_success': 'bool', 'g_cls': 'ResultClass'},
                       ghost=['g_has_success', 'g_cls'], maybe_attrs={'success': 'g_has_success'}),
  'TMemoryBuffer': dict(extern=True, path=None, bases=[], fields={'_buffer': 'any'}),
  'TApplicationException': dict(extern=True, path=None, bases=[], fields={}, consts={'MISSING_RESULT': 5}),
  'TMessageType': dict(extern=True, path=None, bases=[], fields={}, consts={'CALL': 1, 'REPLY': 2, 'EXCEPTION': 3, 'ONEWAY': 4}),
})

FUNCTIONS.update({
  # reply mapping (from the statement): EXCEPTION -> the application exception as error; success set ->
  # return value; a declared exception set -> that exception as error; a void result -> None, no error
  'MessageSerializer.DeserializeThriftCall': dict(
    file='scales/thrift/serializer.py', cls='MessageSerializer', params={'buf': 'any'}, returns='MethodReturnMessage',
    locals={'result': 'ThriftResult?', 'result_cls': 'ResultClass?', 'exceptions': 'list[SpecEntry?]', 'e': 'SpecEntry?',
            'g_res': 'ThriftResult?', 'g_cls': 'ResultClass?', 'g_x': 'any'},
    requires=['allocated(self._FindClass) and allocated(self._protocol_factory)',
              # generated result classes: every entry after the first describes one declared exception
              'forall_ref(c, ResultClass, implies(c.thrift_spec is not None, allocated(c.thrift_spec) and '
              '           forall(k, 1, len(c.thrift_spec), c.thrift_spec[k] is not None and allocated(c.thrift_spec[k]))), c.thrift_spec)'],
    ensures=[
      # (1) an EXCEPTION message: the application exception is the error, recorded with a stack so that the dispatcher wraps it
      'implies(g_mt == 3, result.error is not None and result.error == g_x and result.stack is not None and result.return_value is None)',
      # (2) a success value is the return value
      'implies(g_mt != 3 and g_res is not None and g_res.g_has_success and g_res.success is not None, result.return_value == g_res.success and result.error is None)',
      # (3) otherwise a declared exception that is set is the error -- for void and non-void methods alike
      'implies(g_mt != 3 and g_res is not None and not (g_res.g_has_success and g_res.success is not None) and g_cls.thrift_spec is not None and '
      '        exists(k, 1, len(g_cls.thrift_spec), dyn_attr(g_res, g_cls.thrift_spec[k].name) is not None), '
      '        result.error is not None and implies(truthy(result.error), result.stack is not None) and result.return_value is None and '
      '        exists(k, 1, len(g_cls.thrift_spec), result.error == dyn_attr(g_res, g_cls.thrift_spec[k].name)))',
      # (4) nothing set: a void method completed normally (None, no error); a non-void one is a missing result (an error, never a value)
      'implies(g_mt != 3 and g_res is not None and not (g_res.g_has_success and g_res.success is not None) and '
      '        (g_cls.thrift_spec is None or forall(k, 1, len(g_cls.thrift_spec), dyn_attr(g_res, g_cls.thrift_spec[k].name) is None)), '
      '        result.return_value is None and ite(g_cls.g_void, result.error is None, result.error is not None and result.stack is not None))',
      # (5) no result class at all (one-way): an empty reply
      'implies(g_mt != 3 and g_res is None, result.return_value is None and result.error is None)',
    ],
    modifies=['TMemoryBuffer._buffer', 'MethodReturnMessage.error', 'MethodReturnMessage.return_value', 'MethodReturnMessage.stack', '$cls',
              'ThriftResult.g_cls', 'ThriftResult.g_has_success', 'ThriftResult.success', 'list[SpecEntry?]'],
    allocates='any',
    loops={0: dict(invariant=['result is not None and result == g_res and not (result.g_has_success and result.success is not None)', 'g_mt != 3',
                              'allocated(exceptions)', 'result_cls is not None and result_cls == g_cls and result_cls.thrift_spec is not None',
                              'len(exceptions) == len(result_cls.thrift_spec) - 1',
                              'forall(k, 0, len(exceptions), exceptions[k] == result_cls.thrift_spec[k + 1])',
                              'forall(k, 1, _i0 + 1, dyn_attr(result, result_cls.thrift_spec[k].name) is None)'],
                   modifies=[], allocates=False)},
    ghost=[
      {'after': '(fn_name, msg_type, seq_id) = protocol.readMessageBegin()', 'do': ['g_mt = msg_type', 'g_res = None', 'g_cls = None', 'g_x = None']},
      {'after': 'x = TApplicationException()', 'do': ['g_x = x']},
      {'after': 'result.read(protocol)', 'do': ['g_res = result', 'g_cls = result_cls']},
    ],
    raises={'Exception': dict()},
    props=['C14'],
  ),
})

EXTERNS.update({
  'TMemoryBuffer.__init__': dict(params=[], returns='TMemoryBuffer', fresh=True, allocates=True),
  'ProtocolFactory.getProtocol': dict(params=[('trans', 'any')], returns='Protocol', fresh=True, allocates=True),
  'Protocol.readMessageBegin': dict(params=[], returns='tuple[any,int,int]', may_raise=['Exception']),
  'Protocol.readMessageEnd': dict(params=[], may_raise=['Exception']),
  'TApplicationException.__init__': dict(params=[('type', 'any'), ('message', 'any')], returns='TApplicationException', fresh=True, allocates=True),
  'TApplicationException.read': dict(params=[('iprot', 'any')], may_raise=['Exception']),
  'ClassFinder.__call__': dict(params=[('name', 'any')], returns='ResultClass?'),
  'ResultClass.__call__': dict(params=[], returns='ThriftResult', fresh=True, allocates=True, modifies=['ThriftResult.g_cls', 'ThriftResult.g_has_success', 'ThriftResult.success'],
                               ensures=['result is not None', 'result.g_cls == self', 'result.g_has_success == (not self.g_void)'],
                               notes='instantiates the generated result class: it has a success attribute unless the method is void'),
  'ThriftResult.read': dict(params=[('iprot', 'any')], may_raise=['Exception'], modifies=['ThriftResult.success'],
                            ensures=['forall_ref(r, ThriftResult, implies(r != self, r.success == old(r.success)), r.success)']),
})

# ---------------------------------------------------------------------------- reading the reply (C14: chunk independence)
CLASSES.update({
  'ScalesSocket': dict(file='scales/scales_socket.py', path='ScalesSocket', bases=[], fields={
    'handle': 'GSock?', 'host': 'any', 'port': 'any',
    # ghost: the byte stream the peer sends on this connection and how much of it has been consumed
    'g_stream': 'int', 'g_pos': 'int'}, ghost=['g_stream', 'g_pos']),
})

CLASSES.update({
  'AddrInfo': dict(extern=True, path=None, bases=[], fields={}),
  'GSock': dict(extern=True, path=None, bases=[], fields={'g_connected': 'bool', 'g_closed': 'bool'}, ghost=['g_connected', 'g_closed']),
})
EXTERNS.update({
  'gevent.socket.socket': dict(params=[('family', 'any'), ('kind', 'any')], returns='GSock', fresh=True, allocates=True, modifies=['GSock.g_connected', 'GSock.g_closed'],
                  ensures=['not result.g_connected and not result.g_closed'], notes='gevent.socket.socket(family, type): a new, unconnected socket'),
  'GSock.connect': dict(params=[('addr', 'any')], modifies=['GSock.g_connected'], may_raise=['error'],
                        ensures=['self.g_connected', 'forall_ref(g, GSock, implies(g != self, g.g_connected == old(g.g_connected)), g.g_connected)'],
                        notes='connects or raises socket.error (refused, unreachable, ...); a raising connect leaves the socket unconnected'),
  'AddrInfo.__getitem__': dict(params=[('idx', 'int')], returns='any', notes='one component of a getaddrinfo 5-tuple'),
  'GSock.close': dict(params=[], modifies=['GSock.g_connected', 'GSock.g_closed'],
                      ensures=['self.g_closed and not self.g_connected', 'forall_ref(g, GSock, implies(g != self, g.g_connected == old(g.g_connected) and g.g_closed == old(g.g_closed)), g.g_connected)']),
  'ScalesSocket._resolveAddr': dict(params=[], returns='list[AddrInfo]', fresh=True, allocates=True, may_raise=['error'],
                                    ensures=['allocated(result)'], notes='socket.getaddrinfo: the candidate addresses, possibly none; may raise socket.gaierror'),
})
FUNCTIONS.update({
  # C08 (refused or failed connect): a socket whose open() raised does not report itself open, and one that reports itself
  # open holds a connected handle -- isOpen() is `handle is not None`, and the transport's `state` reads it
  'ScalesSocket.open': dict(
    file='scales/scales_socket.py', cls='ScalesSocket', returns='none',
    locals={'resolved': 'list[AddrInfo]', 'res': 'AddrInfo'},
    requires=['self.handle is None'],
    ensures=['implies(self.handle is not None, self.handle.g_connected and not self.handle.g_closed)'],
    raises={'error': dict(ensures=['self.handle is None'])},
    modifies=['ScalesSocket.handle', 'GSock.g_connected', 'GSock.g_closed', '$cls'], allocates=True,
    loops={0: dict(invariant=['allocated(resolved)', 'self.handle is None'], modifies=['ScalesSocket.handle', 'GSock.g_connected', 'GSock.g_closed', '$cls'], allocates=True)},
    props=['C08'],
  ),
  # whatever chunk sizes the socket returns (1 <= k <= requested, 0 = end of stream), the result is the
  # next sz bytes of the stream
  'ScalesSocket.read': dict(
    file='scales/scales_socket.py', cls='ScalesSocket', params={'sz': 'int'}, returns='bytes', trusted=True,
    requires=['sz >= 0'],
    ensures=['0 <= blen(result) and blen(result) <= sz', 'beq(result, bslice(self.g_stream, old(self.g_pos), blen(result)))',
             'self.g_pos == old(self.g_pos) + blen(result)'],
    raises={'Exception': dict()},
    modifies=['ScalesSocket.g_pos'],
    notes='handle.recv(sz): returns between 0 and sz of the next bytes of the stream (0 at end of stream); may raise'),
  'ScalesSocket.readAll': dict(
    file='scales/scales_socket.py', cls='ScalesSocket', params={'sz': 'int'}, returns='bytes',
    requires=['sz >= 0'],
    ensures=['beq(result, bslice(self.g_stream, old(self.g_pos), sz))', 'self.g_pos == old(self.g_pos) + sz'],
    raises={'EOFError': dict(), 'Exception': dict()},
    modifies=['ScalesSocket.g_pos'],
    loops={0: dict(invariant=['0 <= have and have <= sz', 'self.g_pos == old(self.g_pos) + have',
                              'beq(buff, bslice(self.g_stream, self.g_pos - have, have))'],
                   modifies=['ScalesSocket.g_pos'])},
    props=['C14'],
  ),
})

# ---------------------------------------------------------------------------- the socket stack the library builds (C08)
# VarzSocketWrapper around ScalesSocket: what the transports' abstract `Socket.connected` stands for is
# `wrapper.isOpen()` == `inner.handle is not None`.  The wrapper's close() acts only when its own flag is set, so the
# chain "failed open -> transport Close() -> state reads Closed" needs: flag clear => inner already closed.
CLASSES.update({
  'VarzSocketWrapper': dict(file='scales/varz.py', path='VarzSocketWrapper', bases=[], fields={
    '_socket': 'ScalesSocket', '_varz': 'any', '_is_open': 'bool'}),
})
PREDICATES.update({
  'WrapInv': (['w'], 'allocated(w._socket) and (w._is_open or w._socket.handle is None)'),
})
EXTERNS.update({
  'GSock.setsockopt': dict(params=[('level', 'any'), ('opt', 'any'), ('val', 'any')], notes='TCP_NODELAY; no effect on connectedness'),
})
FUNCTIONS.update({
  'ScalesSocket.isOpen': dict(file='scales/scales_socket.py', cls='ScalesSocket', inline=True),
  'ScalesSocket.close': dict(
    file='scales/scales_socket.py', cls='ScalesSocket', returns='none',
    requires=[], ensures=['self.handle is None', 'implies(old(self.handle) is not None, old(self.handle).g_closed)'],
    modifies=['ScalesSocket.handle', 'GSock.g_connected', 'GSock.g_closed'],
    props=['C08'],
  ),
  'VarzSocketWrapper.__init__': dict(
    file='scales/varz.py', cls='VarzSocketWrapper', params={'socket': 'ScalesSocket', 'varz_tag': 'any'}, returns='none',
    requires=['allocated(socket)'],
    ensures=['WrapInv(self)', 'self._socket == socket', 'self._is_open == (socket.handle is not None)'],
    modifies=['VarzSocketWrapper._socket', 'VarzSocketWrapper._is_open', 'VarzSocketWrapper._varz'], allocates=True, drop=['Varz', 'Source'],
    props=['C08'],
  ),
  'VarzSocketWrapper.isOpen': dict(file='scales/varz.py', cls='VarzSocketWrapper', inline=True),
  # a failed open leaves the wrapper reporting closed (with its flag untouched); a successful one sets the flag
  'VarzSocketWrapper.open': dict(
    file='scales/varz.py', cls='VarzSocketWrapper', returns='none',
    requires=['WrapInv(self)', 'self._socket.handle is None'],
    ensures=['WrapInv(self)', 'self._is_open', 'implies(self._socket.handle is not None, self._socket.handle.g_connected)'],
    raises={'error': dict(ensures=['WrapInv(self)', 'self._socket.handle is None', 'self._is_open == old(self._is_open)'])},
    modifies=['VarzSocketWrapper._is_open', 'ScalesSocket.handle', 'GSock.g_connected', 'GSock.g_closed', '$cls'], allocates=True,
    props=['C08'],
  ),
  # after close() the wrapper reports closed -- whatever happened before (this is what the transport's Close relies on)
  'VarzSocketWrapper.close': dict(
    file='scales/varz.py', cls='VarzSocketWrapper', returns='none',
    requires=['WrapInv(self)'],
    ensures=['WrapInv(self)', 'self._socket.handle is None', 'not self._is_open'],
    modifies=['VarzSocketWrapper._is_open', 'ScalesSocket.handle', 'GSock.g_connected', 'GSock.g_closed'],
    props=['C08'],
  ),
})
