"""Contracts for scales/thrift/sink.py (C08, C12, C02, C14 framing) and scales/thrift/serializer.py (C14)."""
FILE = 'scales/thrift/sink.py'

CLASSES = {
  'SocketTransportSink': dict(path='SocketTransportSink', bases=['ClientMessageSink'], fields={
    '_socket': 'Socket', '_state': 'int', '_processing': 'Greenlet?', '_open_result': 'AsyncResult?',
    # ghost: messages handed to the stack of the transaction in progress
  }),
  'TimeoutObj': dict(extern=True, path=None, bases=[], fields={}),
  'Greenlet': dict(extern=True, path=None, bases=[], fields={}),
  'Timeout': dict(extern=True, path=None, bases=[], fields={}),
  'NoopTimeout': dict(file='scales/asynchronous.py', path='NoopTimeout', bases=['TimeoutObj'], fields={}),
  'ChannelConcurrencyError': dict(file='scales/message.py', path='ChannelConcurrencyError', bases=[], fields={}),
}

PREDICATES = {
  # what the transport reports upward
  'reports_open': (['s'], 's._socket.connected or s._state == ChannelState.Open'),
}

FUNCTIONS = {
  'SocketTransportSink.state': dict(cls='SocketTransportSink', inline=True),
  'SocketTransportSink.Close': dict(
    cls='SocketTransportSink',
    requires=[], ensures=['self._state == ChannelState.Closed', 'not self._socket.connected', 'self._processing is None', 'self._open_result is None',
                          'self._socket.g_epoch > old(self._socket.g_epoch)'],
    modifies=['SocketTransportSink._state', 'Socket.connected', 'Socket.g_epoch', 'SocketTransportSink._open_result', 'SocketTransportSink._processing'],
    props=['C08'],
  ),
  # _Fault is idempotent: a closed transport is not faulted again
  'SocketTransportSink._Fault': dict(
    cls='SocketTransportSink', params={'reason': 'any'},
    requires=['allocated(self._on_faulted)'],
    ensures=['self._state == ChannelState.Closed', 'not self._socket.connected', 'self._socket.g_epoch >= old(self._socket.g_epoch)',
             # the fault signal is raised unless the transport was already closed
             'implies(not old(self._state == ChannelState.Closed and not self._socket.connected), self._on_faulted.value is not None)'],
    modifies=['SocketTransportSink._state', 'Socket.connected', 'Socket.g_epoch', 'SocketTransportSink._open_result', 'SocketTransportSink._processing', 'Observable.value', '$cls'],
    allocates=True,
    props=['C08'],
  ),
  'SocketTransportSink._OpenImpl': dict(
    cls='SocketTransportSink',
    # Open() is issued on a transport that has not been closed (closed transports are replaced, not re-opened)
    requires=['allocated(self._on_faulted)', 'self._state != ChannelState.Closed'],
    ensures=['self._state == ChannelState.Open and self._socket.connected'],
    raises={'Exception': dict(ensures=['not self._socket.connected', 'self._state == ChannelState.Closed', 'self._on_faulted.value is not None'])},
    modifies=['SocketTransportSink._state', 'Socket.connected', 'Socket.g_epoch', 'SocketTransportSink._open_result', 'SocketTransportSink._processing', 'Observable.value', '$cls'],
    allocates=True,
    props=['C08'],
  ),

  # one request/response transaction of the serial transport
  'SocketTransportSink._AsyncProcessTransaction': dict(
    cls='SocketTransportSink',
    params={'data': 'bytes', 'sink_stack': 'ClientMessageSinkStack', 'deadline': 'real?'},
    locals={'gtimeout': 'TimeoutObj?'},
    requires=['allocated(self._on_faulted)', 'self._processing is not None'],
    ensures=[
      # on every exit -- success, timeout, fault at any I/O step -- the slot is free again
      'self._processing is None',
      # a transport that still reports itself open is actually connected
      'implies(self._state != ChannelState.Closed or self._socket.connected, self._socket.connected)',
    ],
    modifies=['SocketTransportSink._state', 'Socket.connected', 'Socket.g_epoch', 'SocketTransportSink._open_result', 'SocketTransportSink._processing',
              'Observable.value', 'deque[tuple[AnySink,any]]', 'AnySink.g_invoked', 'MethodReturnMessage.error',
              'MethodReturnMessage.return_value', 'MethodReturnMessage.stack', 'Socket.g_written', '$cls'],
    allocates=True,
    ghost=[
      {'before': 'gtimeout = None', 'do': ['g_posts = 0', 'g_spawned = 0', 'g_now = 0.0', 'g_w0 = self._socket.g_written']},
      # C12: once the deadline has been reached the caller may already hold TimeoutError: nothing is written
      {'before': 'self._socket.write(data)', 'do': [
        'prove(implies(not is_none(deadline) and truthy(deadline), g_now < deadline), "nothing-written-at-or-after-the-deadline")']},
      {'before': 'self._processing = None', 'do': ['g_slot_freed = True']},
      {'after': 'timeout = deadline - time.time()', 'do': ['g_now = deadline - timeout']},
      # C14 framing: the reply body handed on is exactly the number of bytes the 4-byte prefix announced
      {'after': 'buf = BytesIO(self._socket.readAll(sz))', 'do': ['prove(blen(content(buf)) == sz, "reply-body-has-the-announced-length")']},
      {'before': 'gevent.spawn(self._ProcessReply, buf, sink_stack)', 'do': [
        'prove(self._processing is None and g_posts == 0, "slot-freed-before-the-reply-is-delivered")', 'g_spawned = g_spawned + 1']},
      {'before': 'sink_stack.AsyncProcessResponseMessage(MethodReturnMessage(error=err))', 'do': [
        'prove(g_posts == 0 and g_spawned == 0 and self._processing is None, "timeout-answered-once-with-the-slot-free")',
        # C02: the connection a late reply could arrive on has been closed (and re-opened) first
        'prove(self._socket.g_epoch > old(self._socket.g_epoch), "connection-recycled-after-a-timeout")',
        'g_posts = g_posts + 1']},
      {'before': 'self._Fault(ex)', 'do': ['g_was_closed = (self._state == ChannelState.Closed and not self._socket.connected)']},
      {'before': 'sink_stack.AsyncProcessResponseMessage(MethodReturnMessage(error=ex))', 'do': [
        'prove(g_posts == 0 and g_spawned == 0 and self._processing is None, "fault-answered-once-with-the-slot-free")',
        'prove(not self._socket.connected and self._state == ChannelState.Closed and (g_was_closed or self._on_faulted.value is not None), "fault-closes-the-transport-and-raises-the-signal")',
        'g_posts = g_posts + 1']},
    ],
    props=['C08', 'C12', 'C02', 'C14'],
  ),

  'SocketTransportSink.AsyncProcessRequest': dict(
    cls='SocketTransportSink',
    params={'sink_stack': 'ClientMessageSinkStack', 'msg': 'Message', 'stream': 'Stream', 'headers': 'any'},
    captures={'g_body': 'int', 'g_bodylen': 'int'},
    buffers={'stream': 'braw(g_body, g_bodylen)'},
    requires=['0 <= g_bodylen and g_bodylen <= 2147483647', 'allocated(msg.properties)'],
    ensures=[],
    modifies=['SocketTransportSink._processing', 'deque[tuple[AnySink,any]]', 'AnySink.g_invoked', 'MethodReturnMessage.error',
              'MethodReturnMessage.return_value', 'MethodReturnMessage.stack', '$cls'],
    allocates=True,
    ghost=[
      # C02: a request arriving while another is in flight is rejected and writes nothing
      {'before': "sink_stack.AsyncProcessResponseMessage(MethodReturnMessage(error=ChannelConcurrencyError('Concurrency violation in AsyncProcessRequest')))", 'do': [
        'prove(self._processing is not None, "rejected-only-while-busy")']},
      # C14: the bytes handed to the transaction are a 4-byte big-endian length followed by exactly the payload
      {'before': 'self._processing = gevent.spawn(self._AsyncProcessTransaction, sz + payload, sink_stack, deadline)', 'do': [
        'prove(old(self._processing) is None, "one-transaction-at-a-time")',
        'prove(beq(bcat(sz, payload), bcat(bi32(g_bodylen), braw(g_body, g_bodylen))), "frame-is-length-prefix-plus-payload")',
        'prove(implies("__Deadline" in msg.properties, deadline == msg.properties["__Deadline"]), "deadline-passed-on")']},
    ],
    props=['C02', 'C14', 'C08'],
  ),
}

EXTERNS = {
  'Socket.open': dict(params=[], may_raise=['Exception'], modifies=['Socket.connected', 'Socket.g_epoch'],
                      ensures=['self.connected', 'self.g_epoch == old(self.g_epoch)'],
                      raise_ensures=['self.g_epoch == old(self.g_epoch)'],
                      notes='VarzSocketWrapper.open: connect; may be refused / fail (connected is then unspecified but not trusted: see isOpen)'),
  'Socket.close': dict(params=[], modifies=['Socket.connected', 'Socket.g_epoch'],
                       ensures=['not self.connected', 'self.g_epoch == old(self.g_epoch) + 1'],
                       notes='closes the connection: nothing sent on the old connection can be read afterwards (epoch)'),
  'Socket.isOpen': dict(params=[], returns='bool', ensures=['result == self.connected']),
  'Socket.write': dict(params=[('data', 'bytes')], may_raise=['Exception', 'Timeout'], modifies=['Socket.g_written'],
                       ensures=['self.g_written == old(self.g_written) + 1', 'self.connected'], raise_ensures=['self.g_written >= old(self.g_written)'],
                       notes='sendall on the connection; cannot succeed on a closed handle'),
  'Socket.readAll': dict(params=[('sz', 'int')], returns='bytes', may_raise=['Exception', 'EOFError', 'Timeout'],
                         ensures=['blen(result) == sz', 'self.connected']),
  'gevent.Timeout.start_new': dict(params=[('timeout', 'real')], returns='TimeoutObj', fresh=True, allocates=True),
  'gevent.Timeout': dict(params=[], returns='Timeout', fresh=True, allocates=True),
  'gevent.spawn_greenlet': dict(params=[], returns='Greenlet'),
  'TimeoutObj.cancel': dict(params=[]),
  'Greenlet.kill': dict(params=[('block', 'bool')]),
}
