"""Contracts for scales/sink.py (C01, C12, C16)."""
FILE = 'scales/sink.py'

CLASSES = {
  'MessageSink': dict(path='MessageSink', bases=[], fields={'_next': 'Channel?'}),
  'ClientMessageSink': dict(path='ClientMessageSink', bases=['MessageSink'], fields={'_on_faulted': 'Observable'}),
  'Observable': dict(extern=True, path=None, fields={'value': 'any'}, bases=[]),
  'SinkStack': dict(path='SinkStack', bases=[], fields={'_stack': 'deque[tuple[any,any]]', 'g_posted': 'int'}, ghost=['g_posted']),
  'ClientMessageSinkStack': dict(path='ClientMessageSinkStack', bases=['SinkStack'], fields={}),
  # a request/reply message: only its properties dictionary is visible to the sinks verified here
  'Message': dict(extern=True, path=None, fields={'properties': 'Props'}, bases=[]),
  # message.properties: a dict used as a record with a few well-known keys
  'Props': dict(extern=True, path=None, bases=[], dictlike={
    '__Tag': ('tag', 'int?'), '__Deadline': ('deadline', 'real?'),
    '__Deadline_Event': ('event', 'Observable?'), '__Endpoint': ('endpoint', 'any')}),
  'Deadline': dict(file='scales/message.py', path='Deadline', bases=[], fields={'_ts': 'int', '_timeout': 'int'}),
}
FUNCTIONS = {
  'SinkStack.Push': dict(
    cls='SinkStack', params={'sink': 'any', 'context': 'any'},
    requires=['sink is not None'],
    ensures=['len(self._stack) == old(len(self._stack)) + 1',
             'self._stack[len(self._stack) - 1][0] == sink', 'self._stack[len(self._stack) - 1][1] == context',
             'forall(k, 0, old(len(self._stack)), self._stack[k][0] == old(self._stack[k][0]) and self._stack[k][1] == old(self._stack[k][1]))'],
    modifies=['deque[tuple[any,any]]'],
    props=['C01', 'C04'],
  ),

  # response delivery into a call's stack.  g_posted (ghost) counts the messages posted into the
  # stack by its holders (transport, timer, pool, ...): 'exactly one message per request' is
  # stated with it.  The popped sink continues the drain, so only lower bounds are known after.
  'ClientMessageSinkStack.AsyncProcessResponse': dict(
    cls='ClientMessageSinkStack', params={'stream': 'any', 'msg': 'any'},
    requires=[], ensures=['self.g_posted == old(self.g_posted) + 1',
             'forall_ref(k, ClientMessageSinkStack, implies(k != self, k.g_posted == old(k.g_posted)), k.g_posted)'],
    modifies=['SinkStack.g_posted', 'deque[tuple[any,any]]'], allocates=True, trusted=True,
    notes='verified as a unit under C01 (pop at most one entry, invoke it once); callers in transports use this summary; '
          'assumed not to re-enter the calling transport synchronously',
  ),
  'ClientMessageSinkStack.AsyncProcessResponseStream': dict(
    cls='ClientMessageSinkStack', params={'stream': 'any'},
    requires=[], ensures=['self.g_posted == old(self.g_posted) + 1',
             'forall_ref(k, ClientMessageSinkStack, implies(k != self, k.g_posted == old(k.g_posted)), k.g_posted)'],
    modifies=['SinkStack.g_posted', 'deque[tuple[any,any]]'], allocates=True, trusted=True,
    notes='see ClientMessageSinkStack.AsyncProcessResponse',
  ),
  'ClientMessageSinkStack.AsyncProcessResponseMessage': dict(
    cls='ClientMessageSinkStack', params={'msg': 'any'},
    requires=[], ensures=['self.g_posted == old(self.g_posted) + 1',
             'forall_ref(k, ClientMessageSinkStack, implies(k != self, k.g_posted == old(k.g_posted)), k.g_posted)'],
    modifies=['SinkStack.g_posted', 'deque[tuple[any,any]]'], allocates=True, trusted=True,
    notes='see ClientMessageSinkStack.AsyncProcessResponse',
  ),
}

EXTERNS = {
  'Observable.Get': dict(params=[], returns='any', ensures=['result == self.value']),
  'Observable.Set': dict(params=[('value', 'any')], modifies=['Observable.value'], allocates=True,
                         ensures=['self.value == value', 'forall_ref(o, Observable, implies(o != self, o.value == old(o.value)), o.value)'],
                         notes='sets the value and spawns the notification greenlet (callbacks run later)'),
  'Observable.Subscribe': dict(params=[('callback', 'any'), ('one_shot', 'bool')], requires=['callback is not None'],
                               notes='registers a callback; one-shot callbacks are delivered at most once (assumed)'),
  'Observable.Unsubscribe': dict(params=[('callback', 'any')]),
  'time.time': dict(params=[], returns='real', ensures=['result > 0'],
                    notes='wall clock; monotonicity is stated where a proof needs it'),
}
