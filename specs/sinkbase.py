"""Contracts for scales/sink.py (C01, C12, C16)."""
FILE = 'scales/sink.py'

CLASSES = {
  'MessageSink': dict(path='MessageSink', bases=[], fields={'_next': 'Channel?'}),
  'ClientMessageSink': dict(path='ClientMessageSink', bases=['MessageSink'], fields={'_on_faulted': 'Observable'}),
  'Observable': dict(extern=True, path=None, fields={'value': 'any'}, bases=[]),
}
FUNCTIONS = {}
