"""Contracts for scales/sink.py (C01, C12, C16)."""
FILE = 'scales/sink.py'

CLASSES = {
  'MessageSink': dict(path='MessageSink', bases=[], fields={'_next': 'Channel?'}),
  'ClientMessageSink': dict(path='ClientMessageSink', bases=['MessageSink'], fields={'_on_faulted': 'Observable'}),
  'Observable': dict(extern=True, path=None, fields={'value': 'any'}, bases=[]),
  'SinkStack': dict(path='SinkStack', bases=[], fields={'_stack': 'deque[tuple[any,any]]'}),
  'ClientMessageSinkStack': dict(path='ClientMessageSinkStack', bases=['SinkStack'], fields={}),
  # a request/reply message: only its properties dictionary is visible to the sinks verified here
  'Message': dict(extern=True, path=None, fields={'properties': 'dict[str,any]'}, bases=[]),
}
FUNCTIONS = {
  'SinkStack.Push': dict(
    cls='SinkStack', params={'sink': 'any', 'context': 'any'},
    requires=['sink is not None'],
    ensures=['len(self._stack) == old(len(self._stack)) + 1',
             'self._stack[len(self._stack) - 1][0] == sink', 'self._stack[len(self._stack) - 1][1] == context',
             'forall(k, 0, old(len(self._stack)), self._stack[k][0] == old(self._stack[k][0]) and self._stack[k][1] == old(self._stack[k][1]))'],
    modifies=['deque[tuple[any,any]]'],
    props=['C01', 'C04'],
  ),
}
