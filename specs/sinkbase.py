"""Contracts for scales/sink.py (C01, C12, C16)."""
FILE = 'scales/sink.py'

CLASSES = {
  'MessageSink': dict(path='MessageSink', bases=[], fields={'_next': 'Channel?'}),
  'ClientMessageSink': dict(path='ClientMessageSink', bases=['MessageSink'], fields={'_on_faulted': 'Observable'}),
  # ghost g_nsubs: how many callbacks are currently subscribed (Subscribe +1, Unsubscribe -1)
  'Observable': dict(extern=True, path=None, fields={'value': 'any', 'g_nsubs': 'int'}, ghost=['g_nsubs'], bases=[]),
  'Callable0': dict(extern=True, path=None, fields={'g_calls': 'int'}, ghost=['g_calls'], bases=[]),
  'RefCountedSink': dict(path='RefCountedSink', bases=['ClientMessageSink'], fields={
    '_ref_count': 'int', '_open_ar': 'AsyncResult?', '_open_lock': 'any',
    # ghost: how often this wrapper opened / closed its underlying sink
    'g_opens': 'int', 'g_closes': 'int'}, ghost=['g_opens', 'g_closes']),
  'SinkProviderBase': dict(path='SinkProviderBase', bases=[], fields={'next_provider': 'NextProvider', 'sink_properties': 'any'}),
  'SharedSinkProvider': dict(path='SharedSinkProvider', bases=['SinkProviderBase'], fields={
    '_key_selector': 'KeySelector', '_cache': 'dict[any,RefCountedSink]'}),
  'ClientTimeoutSink': dict(path='ClientTimeoutSink', bases=['ClientMessageSink'], fields={}),
  'FailingMessageSink': dict(path='FailingMessageSink', bases=['Channel'], fields={'_ex': 'any'}),
  'ExcFactory': dict(extern=True, path=None, fields={}, bases=[]),
  'TimeoutError': dict(file='scales/message.py', path='TimeoutError', bases=[], fields={}),
  'KeySelector': dict(extern=True, path=None, fields={}, bases=[]),
  'NextProvider': dict(extern=True, path=None, fields={}, bases=[]),
  'SinkStack': dict(path='SinkStack', bases=[], fields={'_stack': 'deque[tuple[AnySink,any]]'}),
  # whatever sink sits on a call's stack (only its response entry point matters here)
  'AnySink': dict(extern=True, path=None, bases=[], fields={'g_invoked': 'int'}, ghost=['g_invoked']),
  'ClientMessageSinkStack': dict(path='ClientMessageSinkStack', bases=['SinkStack'], fields={}),
  # a request/reply message: only its properties dictionary is visible to the sinks verified here
  'Message': dict(extern=True, path=None, fields={'properties': 'Props', 'public_properties': 'dict[str,any]', 'is_one_way': 'bool',
                                                    'g_thrift': 'int', 'g_thrift_len': 'int', 'g_topic': 'bytes', 'g_payloads': 'list[bytes]', 'g_acks': 'int'},
                  ghost=['g_thrift', 'g_thrift_len', 'g_topic', 'g_payloads', 'g_acks'], bases=[]),
  # message.properties: a dict used as a record with a few well-known keys
  'Props': dict(extern=True, path=None, bases=[], dictlike={
    '__Tag': ('tag', 'int?'), '__Deadline': ('deadline', 'real?'),
    '__Deadline_Event': ('event', 'Observable?'), '__Endpoint': ('endpoint', 'any')},
    # ghost: the frame carrying these properties has been handed to the socket
    fields={'g_sent': 'bool'}, ghost=['g_sent']),
  'MethodReturnMessage': dict(extern=True, path=None, bases=['Message'], fields={'return_value': 'any', 'error': 'any', 'stack': 'any'}),
  'Deadline': dict(file='scales/message.py', path='Deadline', bases=[], fields={'_ts': 'int', '_timeout': 'int'}),
}
PREDICATES = {
  # underlying sink is open exactly while somebody holds the wrapper
  'RCInv': (['s'], 's._ref_count >= 0 and s._next is not None and '
                   's.g_opens - s.g_closes == (1 if s._ref_count > 0 else 0) and '
                   '(s._open_ar is not None) == (s._ref_count > 0)'),
}

FUNCTIONS = {
  'RefCountedSink.Open': dict(
    cls='RefCountedSink', returns='AsyncResult?',
    requires=['RCInv(self)'],
    ensures=['RCInv(self)', 'self._ref_count == old(self._ref_count) + 1',
             # the underlying sink is opened on the first Open only, and everybody gets the same result
             'self.g_opens == old(self.g_opens) + (1 if old(self._ref_count) == 0 else 0)',
             'self._next.g_opens == old(self._next.g_opens) + (1 if old(self._ref_count) == 0 else 0)',
             'self.g_closes == old(self.g_closes)', 'self._next.g_closes == old(self._next.g_closes)',
             'result == self._open_ar and result is not None',
             'implies(old(self._ref_count) > 0, result == old(self._open_ar))'],
    modifies=['RefCountedSink._ref_count', 'RefCountedSink._open_ar', 'RefCountedSink.g_opens', 'Channel.g_opens'],
    allocates=True,
    ghost=[{'after': 'self._open_ar = self.next_sink.Open()', 'do': ['self.g_opens = self.g_opens + 1']}],
    props=['C16'],
  ),
  'RefCountedSink.Close': dict(
    cls='RefCountedSink',
    requires=['RCInv(self)'],
    ensures=['RCInv(self)',
             # surplus closes are ignored
             'implies(old(self._ref_count) == 0, self._ref_count == 0 and self.g_closes == old(self.g_closes) and self._next.g_closes == old(self._next.g_closes))',
             'implies(old(self._ref_count) > 0, self._ref_count == old(self._ref_count) - 1)',
             # the underlying sink is closed by the last holder only
             'self.g_closes == old(self.g_closes) + (1 if old(self._ref_count) == 1 else 0)',
             'self._next.g_closes == old(self._next.g_closes) + (1 if old(self._ref_count) == 1 else 0)',
             'self.g_opens == old(self.g_opens)'],
    modifies=['RefCountedSink._ref_count', 'RefCountedSink._open_ar', 'RefCountedSink.g_closes', 'Channel.state', 'Channel.g_closes'],
    ghost=[{'after': 'self.next_sink.Close()', 'do': ['self.g_closes = self.g_closes + 1']}],
    props=['C16'],
  ),
  'SharedSinkProvider.CreateSink': dict(
    cls='SharedSinkProvider', params={'properties': 'any'}, returns='Channel',
    locals={'sink': 'RefCountedSink?'},
    requires=['forall(k, "any", implies(k in self._cache, allocated(self._cache[k]) and RCInv(self._cache[k])))'],
    ensures=[
      # same key -> same sink while it is cached; otherwise one new ref-counted wrapper, cached under the key
      'forall(k, "any", implies(old(k in self._cache), (k in self._cache) and self._cache[k] == old(self._cache[k])))',
      'forall(k, "any", implies(k in self._cache, allocated(self._cache[k]) and RCInv(self._cache[k])))',
    ],
    modifies=['dict[any,RefCountedSink]', 'RefCountedSink._ref_count', 'RefCountedSink._open_ar', 'RefCountedSink._open_lock',
              'RefCountedSink.g_opens', 'RefCountedSink.g_closes', 'MessageSink._next', 'ClientMessageSink._on_faulted', '$cls'],
    allocates='any',
    ghost=[
      {'after': 'key = self._key_selector(properties)', 'do': ['g_key = key']},
      {'after': 'sink = RefCountedSink(new_sink)', 'do': ['sink.g_opens = 0', 'sink.g_closes = 0',
         'prove(sink._ref_count == 0 and sink._next == new_sink and fresh(sink), "new-wrapper")']},
      {'before': 'return sink', 'do': [
         'prove(implies(old(g_key in self._cache), sink == old(self._cache[g_key])), "cached-sink-reused")',
         'prove((g_key in self._cache) and self._cache[g_key] == sink, "cached-under-key")']},
    ],
    inline_calls=['RefCountedSink.__init__'],
    props=['C16'],
  ),
  'SinkStack.Push': dict(
    cls='SinkStack', params={'sink': 'AnySink?', 'context': 'any'},
    requires=[],
    ensures=['sink is not None', 'len(self._stack) == old(len(self._stack)) + 1',
             'self._stack[len(self._stack) - 1][0] == sink', 'self._stack[len(self._stack) - 1][1] == context',
             'forall(k, 0, old(len(self._stack)), self._stack[k][0] == old(self._stack[k][0]) and self._stack[k][1] == old(self._stack[k][1]))'],
    modifies=['deque[tuple[AnySink,any]]'],
    raises={'Exception': dict(when='sink is None')},
    props=['C01', 'C04'],
  ),

  # response delivery into a call's stack: pops at most one entry and invokes it exactly once;
  # on an empty stack (a reply, fault or timer arriving after completion) nothing happens.
  # The invoked sink normally continues the drain, so afterwards only "not longer" is known.
  'ClientMessageSinkStack.AsyncProcessResponse': dict(
    cls='ClientMessageSinkStack', params={'stream': 'any', 'msg': 'any'},
    requires=[],
    ensures=['implies(old(len(self._stack)) == 0, len(self._stack) == 0 and forall_ref(k, AnySink, k.g_invoked == old(k.g_invoked), k.g_invoked))',
             'implies(old(len(self._stack)) > 0, len(self._stack) <= old(len(self._stack)) - 1)'],
    modifies=['deque[tuple[AnySink,any]]', 'AnySink.g_invoked'], allocates=True,
    ghost=[
      {'after': 'next_sink, next_ctx = self.Pop()', 'do': [
        'prove(len(self._stack) == old(len(self._stack)) - 1 and next_sink == old(self._stack[len(self._stack) - 1][0]) and next_ctx == old(self._stack[len(self._stack) - 1][1]), "pops-exactly-the-top-entry")',
        'g_before = next_sink.g_invoked']},
      {'after': 'next_sink.AsyncProcessResponse(self, next_ctx, stream, msg)', 'do': [
        'prove(next_sink.g_invoked >= g_before + 1, "invokes-the-popped-sink")']},
    ],
    props=['C01'],
  ),
  'ClientMessageSinkStack.AsyncProcessResponseStream': dict(
    cls='ClientMessageSinkStack', params={'stream': 'any'},
    requires=[],
    ensures=['implies(old(len(self._stack)) == 0, len(self._stack) == 0 and forall_ref(k, AnySink, k.g_invoked == old(k.g_invoked), k.g_invoked))',
             'implies(old(len(self._stack)) > 0, len(self._stack) <= old(len(self._stack)) - 1)'],
    modifies=['deque[tuple[AnySink,any]]', 'AnySink.g_invoked'], allocates=True,
    props=['C01'],
  ),
  'ClientMessageSinkStack.AsyncProcessResponseMessage': dict(
    cls='ClientMessageSinkStack', params={'msg': 'any'},
    requires=[],
    ensures=['implies(old(len(self._stack)) == 0, len(self._stack) == 0 and forall_ref(k, AnySink, k.g_invoked == old(k.g_invoked), k.g_invoked))',
             'implies(old(len(self._stack)) > 0, len(self._stack) <= old(len(self._stack)) - 1)'],
    modifies=['deque[tuple[AnySink,any]]', 'AnySink.g_invoked'], allocates=True,
    props=['C01'],
  ),
  # ---- timeout sink (C01 / C12)
  'ClientTimeoutSink._TimeoutHelper': dict(
    cls='ClientTimeoutSink', params={'evt': 'Observable?', 'sink_stack': 'ClientMessageSinkStack'},
    requires=[], ensures=['implies(evt is not None, evt.value == True)'],
    modifies=['Observable.value', 'deque[tuple[AnySink,any]]', 'AnySink.g_invoked', 'MethodReturnMessage.error',
              'MethodReturnMessage.return_value', 'MethodReturnMessage.stack', '$cls'],
    allocates=True,
    ghost=[
      {'before': 'sink_stack.AsyncProcessResponseMessage(error_msg)', 'do': [
        # the timed-out flag is raised before the caller is handed TimeoutError
        'prove(implies(evt is not None, evt.value == True), "event-set-before-posting")',
        'prove(dyn_is(error_msg.error, TimeoutError), "posts-TimeoutError")',
        'g_posts = 1']},
      {'after': 'sink_stack.AsyncProcessResponseMessage(error_msg)', 'do': ['prove(g_posts == 1, "posts-exactly-one-message")']},
    ],
    props=['C01', 'C12'],
  ),
  'ClientTimeoutSink.AsyncProcessRequest': dict(
    cls='ClientTimeoutSink',
    params={'sink_stack': 'ClientMessageSinkStack', 'msg': 'Message', 'stream': 'any', 'headers': 'any'},
    requires=['self._next is not None', 'allocated(msg.properties)'],
    ensures=[],
    modifies=['*'],
    allocates='any',
    ghost=[
      # an already expired call is answered now and never forwarded (C12: not transmitted)
      {'before': 'self._TimeoutHelper(None, sink_stack)', 'do': ['prove(deadline < now, "expired-only")', 'g_expired = True']},
      {'before': 'cancel_timeout = GLOBAL_TIMER_QUEUE.Schedule(deadline, lambda: self._TimeoutHelper(evt, sink_stack))', 'do': [
        'prove(deadline == msg.properties["__Deadline"] and deadline >= now, "timer-armed-at-the-message-deadline")',
        'prove(("__Deadline_Event" in msg.properties) and msg.properties["__Deadline_Event"] == evt, "event-installed-before-forwarding")']},
      {'after': 'sink_stack.Push(self, cancel_timeout)', 'do': [
        'prove(sink_stack._stack[len(sink_stack._stack) - 1][0] == self and sink_stack._stack[len(sink_stack._stack) - 1][1] == cancel_timeout, "cancel-closure-pushed-with-the-sink")']},
    ],
    props=['C01', 'C12'],
  ),
  'ClientTimeoutSink.AsyncProcessResponse': dict(
    cls='ClientTimeoutSink',
    params={'sink_stack': 'ClientMessageSinkStack', 'context': 'Callable0', 'stream': 'any', 'msg': 'any'},
    requires=[], ensures=['context.g_calls == old(context.g_calls) + 1'],
    modifies=['Callable0.g_calls', 'deque[tuple[AnySink,any]]', 'AnySink.g_invoked', 'TimerEntry.cancelled', 'TimerEntry.action'],
    allocates=True,
    ghost=[{'before': 'sink_stack.AsyncProcessResponse(stream, msg)', 'do': ['g_fwd = 1', 'prove(context.g_calls == old(context.g_calls) + 1, "timer-cancelled-before-forwarding")']}],
    props=['C01'],
  ),
  'FailingMessageSink.__init__': dict(
    cls='FailingMessageSink', inline=True,
    # the sink calls self._ex() for every request: it must be given an exception *factory*
    ghost=[{'before': 'self._ex = ex', 'do': ['prove(callable(ex), "exception-factory-is-callable")']}]),
  'FailingMessageSink.AsyncProcessRequest': dict(
    cls='FailingMessageSink',
    params={'sink_stack': 'ClientMessageSinkStack', 'msg': 'Message', 'stream': 'any', 'headers': 'any'},
    requires=['callable(self._ex)'], ensures=[],
    modifies=['deque[tuple[AnySink,any]]', 'AnySink.g_invoked', 'MethodReturnMessage.error',
              'MethodReturnMessage.return_value', 'MethodReturnMessage.stack', '$cls'],
    allocates=True,
    ghost=[{'before': 'sink_stack.AsyncProcessResponseMessage(msg)', 'do': ['prove(msg.error is not None, "answers-with-an-error")']}],
    props=['C01', 'C03'],
  ),
  'SinkStack.Pop': dict(cls='SinkStack', inline=True),
  'SinkStack.Any': dict(cls='SinkStack', inline=True),
}

EXTERNS = {
  'MethodReturnMessage.__init__': dict(params=[('return_value', 'any'), ('error', 'any')], returns='MethodReturnMessage', fresh=True, allocates=True,
                                       modifies=['MethodReturnMessage.error', 'MethodReturnMessage.return_value', 'MethodReturnMessage.stack'],
                                       ensures=['result.error == error and result.return_value == return_value',
                                                # message.py: "if error:" captures the current stack -- the dispatcher wraps an error only when one was recorded
                                                'result.stack is not None if truthy(error) else result.stack is None',
                                                'forall_ref(m, MethodReturnMessage, implies(m != result, m.error == old(m.error) and m.return_value == old(m.return_value)), m.error)']),
  'TimeoutError.__init__': dict(params=[], returns='TimeoutError', fresh=True, allocates=True),
  '<call>': dict(params=[], varargs=True, returns='any', ensures=['result is not None'], allocates=True,
                 notes='calling an opaque callable value (exception factory): returns a new object'),
  'Callable0.__call__': dict(params=[], modifies=['Callable0.g_calls', 'TimerEntry.cancelled', 'TimerEntry.action'],
                             ensures=['self.g_calls == old(self.g_calls) + 1'],
                             notes='the context callable stored with a stack entry (timer cancel closure / balancer release closure)'),
  # the response entry point of the popped sink: it runs once (g_invoked) and usually continues the
  # drain of the same stack; it never pushes
  'AnySink.AsyncProcessResponse': dict(
    params=[('sink_stack', 'ClientMessageSinkStack'), ('context', 'any'), ('stream', 'any'), ('msg', 'any')],
    modifies=['deque[tuple[AnySink,any]]', 'AnySink.g_invoked'], allocates=True,
    ensures=['self.g_invoked >= old(self.g_invoked) + 1', 'len(sink_stack._stack) <= old(len(sink_stack._stack))'],
    notes='assumed: a sink\'s AsyncProcessResponse does not raise and does not push onto the stack it is handed'),
  'KeySelector.__call__': dict(params=[('properties', 'any')], returns='any'),
  'NextProvider.CreateSink': dict(params=[('properties', 'any')], returns='Channel', fresh=True, allocates=True),
  'Observable.__init__': dict(params=[], returns='Observable', fresh=True, allocates=True),
  'RLock': dict(params=[], returns='any'),
  'Observable.Get': dict(params=[], returns='any', ensures=['result == self.value']),
  'Observable.Set': dict(params=[('value', 'any')], modifies=['Observable.value'], allocates=True,
                         ensures=['self.value == value', 'forall_ref(o, Observable, implies(o != self, o.value == old(o.value)), o.value)'],
                         notes='sets the value and spawns the notification greenlet (callbacks run later)'),
  'Observable.Subscribe': dict(params=[('callback', 'any'), ('one_shot', 'bool')], requires=['callback is not None'], modifies=['Observable.g_nsubs'],
                               ensures=['self.g_nsubs == old(self.g_nsubs) + 1', 'forall_ref(o, Observable, implies(o != self, o.g_nsubs == old(o.g_nsubs)), o.g_nsubs)'],
                               notes='registers a callback; one-shot callbacks are delivered at most once (assumed)'),
  'Observable.Unsubscribe': dict(params=[('callback', 'any')], modifies=['Observable.g_nsubs'],
                                 ensures=['self.g_nsubs == old(self.g_nsubs) - 1', 'forall_ref(o, Observable, implies(o != self, o.g_nsubs == old(o.g_nsubs)), o.g_nsubs)'],
                                 notes='removes the callback from this observable only'),
  'time.time': dict(params=[], returns='real', ensures=['result > 0'],
                    notes='wall clock; monotonicity is stated where a proof needs it'),
}

FUNCTIONS.update({
  # a new wrapper is held by nobody and its underlying sink has not been opened through it
  'RefCountedSink.__init__': dict(
    cls='RefCountedSink', params={'next_sink': 'Channel'}, returns='none',
    requires=['next_sink is not None and allocated(next_sink)'],
    ensures=['RCInv(self)', 'self._ref_count == 0', 'self._next == next_sink'],
    modifies=['RefCountedSink._ref_count', 'RefCountedSink._open_lock', 'RefCountedSink._open_ar', 'RefCountedSink.g_opens', 'RefCountedSink.g_closes',
              'MessageSink._next', 'ClientMessageSink._on_faulted', 'Observable.value', 'Observable.g_nsubs', '$cls'],
    allocates=True,
    ghost=[{'after': 'self._ref_count = 0', 'do': ['self.g_opens = 0', 'self.g_closes = 0']}],
    props=['C16'],
  ),
})
