"""Contracts for scales/sink.py (C01, C12, C16)."""
FILE = 'scales/sink.py'

CLASSES = {
  'MessageSink': dict(path='MessageSink', bases=[], fields={'_next': 'Channel?'}),
  'ClientMessageSink': dict(path='ClientMessageSink', bases=['MessageSink'], fields={'_on_faulted': 'Observable'}),
  'Observable': dict(extern=True, path=None, fields={'value': 'any'}, bases=[]),
  'RefCountedSink': dict(path='RefCountedSink', bases=['ClientMessageSink'], fields={
    '_ref_count': 'int', '_open_ar': 'AsyncResult?', '_open_lock': 'any',
    # ghost: how often this wrapper opened / closed its underlying sink
    'g_opens': 'int', 'g_closes': 'int'}, ghost=['g_opens', 'g_closes']),
  'SinkProviderBase': dict(path='SinkProviderBase', bases=[], fields={'next_provider': 'NextProvider', 'sink_properties': 'any'}),
  'SharedSinkProvider': dict(path='SharedSinkProvider', bases=['SinkProviderBase'], fields={
    '_key_selector': 'KeySelector', '_cache': 'dict[any,RefCountedSink]'}),
  'KeySelector': dict(extern=True, path=None, fields={}, bases=[]),
  'NextProvider': dict(extern=True, path=None, fields={}, bases=[]),
  'SinkStack': dict(path='SinkStack', bases=[], fields={'_stack': 'deque[tuple[any,any]]', 'g_posted': 'int'}, ghost=['g_posted']),
  'ClientMessageSinkStack': dict(path='ClientMessageSinkStack', bases=['SinkStack'], fields={}),
  # a request/reply message: only its properties dictionary is visible to the sinks verified here
  'Message': dict(extern=True, path=None, fields={'properties': 'Props'}, bases=[]),
  # message.properties: a dict used as a record with a few well-known keys
  'Props': dict(extern=True, path=None, bases=[], dictlike={
    '__Tag': ('tag', 'int?'), '__Deadline': ('deadline', 'real?'),
    '__Deadline_Event': ('event', 'Observable?'), '__Endpoint': ('endpoint', 'any')}),
  'Deadline': dict(file='scales/message.py', path='Deadline', bases=[], fields={'_ts': 'int', '_timeout': 'int'}),
}
PREDICATES = {
  # underlying sink is open exactly while somebody holds the wrapper
  'RCInv': (['s'], 's._ref_count >= 0 and s._next is not None and '
                   's.g_opens - s.g_closes == (1 if s._ref_count > 0 else 0) and '
                   '(s._open_ar is not None) == (s._ref_count > 0)'),
}

FUNCTIONS = {
  'RefCountedSink.Open': dict(
    cls='RefCountedSink', returns='AsyncResult?',
    requires=['RCInv(self)'],
    ensures=['RCInv(self)', 'self._ref_count == old(self._ref_count) + 1',
             # the underlying sink is opened on the first Open only, and everybody gets the same result
             'self.g_opens == old(self.g_opens) + (1 if old(self._ref_count) == 0 else 0)',
             'self._next.g_opens == old(self._next.g_opens) + (1 if old(self._ref_count) == 0 else 0)',
             'self.g_closes == old(self.g_closes)', 'self._next.g_closes == old(self._next.g_closes)',
             'result == self._open_ar and result is not None',
             'implies(old(self._ref_count) > 0, result == old(self._open_ar))'],
    modifies=['RefCountedSink._ref_count', 'RefCountedSink._open_ar', 'RefCountedSink.g_opens', 'Channel.g_opens'],
    allocates=True,
    ghost=[{'after': 'self._open_ar = self.next_sink.Open()', 'do': ['self.g_opens = self.g_opens + 1']}],
    props=['C16'],
  ),
  'RefCountedSink.Close': dict(
    cls='RefCountedSink',
    requires=['RCInv(self)'],
    ensures=['RCInv(self)',
             # surplus closes are ignored
             'implies(old(self._ref_count) == 0, self._ref_count == 0 and self.g_closes == old(self.g_closes) and self._next.g_closes == old(self._next.g_closes))',
             'implies(old(self._ref_count) > 0, self._ref_count == old(self._ref_count) - 1)',
             # the underlying sink is closed by the last holder only
             'self.g_closes == old(self.g_closes) + (1 if old(self._ref_count) == 1 else 0)',
             'self._next.g_closes == old(self._next.g_closes) + (1 if old(self._ref_count) == 1 else 0)',
             'self.g_opens == old(self.g_opens)'],
    modifies=['RefCountedSink._ref_count', 'RefCountedSink._open_ar', 'RefCountedSink.g_closes', 'Channel.state', 'Channel.g_closes'],
    ghost=[{'after': 'self.next_sink.Close()', 'do': ['self.g_closes = self.g_closes + 1']}],
    props=['C16'],
  ),
  'SharedSinkProvider.CreateSink': dict(
    cls='SharedSinkProvider', params={'properties': 'any'}, returns='Channel',
    locals={'sink': 'RefCountedSink?'},
    requires=['forall(k, "any", implies(k in self._cache, allocated(self._cache[k]) and RCInv(self._cache[k])))'],
    ensures=[
      # same key -> same sink while it is cached; otherwise one new ref-counted wrapper, cached under the key
      'forall(k, "any", implies(old(k in self._cache), (k in self._cache) and self._cache[k] == old(self._cache[k])))',
      'forall(k, "any", implies(k in self._cache, allocated(self._cache[k]) and RCInv(self._cache[k])))',
    ],
    modifies=['dict[any,RefCountedSink]', 'RefCountedSink._ref_count', 'RefCountedSink._open_ar', 'RefCountedSink._open_lock',
              'RefCountedSink.g_opens', 'RefCountedSink.g_closes', 'MessageSink._next', 'ClientMessageSink._on_faulted', '$cls'],
    allocates='any',
    ghost=[
      {'after': 'key = self._key_selector(properties)', 'do': ['g_key = key']},
      {'after': 'sink = RefCountedSink(new_sink)', 'do': ['sink.g_opens = 0', 'sink.g_closes = 0',
         'prove(sink._ref_count == 0 and sink._next == new_sink and fresh(sink), "new-wrapper")']},
      {'before': 'return sink', 'do': [
         'prove(implies(old(g_key in self._cache), sink == old(self._cache[g_key])), "cached-sink-reused")',
         'prove((g_key in self._cache) and self._cache[g_key] == sink, "cached-under-key")']},
    ],
    props=['C16'],
  ),
  'SinkStack.Push': dict(
    cls='SinkStack', params={'sink': 'any', 'context': 'any'},
    requires=['sink is not None'],
    ensures=['len(self._stack) == old(len(self._stack)) + 1',
             'self._stack[len(self._stack) - 1][0] == sink', 'self._stack[len(self._stack) - 1][1] == context',
             'forall(k, 0, old(len(self._stack)), self._stack[k][0] == old(self._stack[k][0]) and self._stack[k][1] == old(self._stack[k][1]))'],
    modifies=['deque[tuple[any,any]]'],
    props=['C01', 'C04'],
  ),

  # response delivery into a call's stack.  g_posted (ghost) counts the messages posted into the
  # stack by its holders (transport, timer, pool, ...): 'exactly one message per request' is
  # stated with it.  The popped sink continues the drain, so only lower bounds are known after.
  'ClientMessageSinkStack.AsyncProcessResponse': dict(
    cls='ClientMessageSinkStack', params={'stream': 'any', 'msg': 'any'},
    requires=[], ensures=['self.g_posted == old(self.g_posted) + 1',
             'forall_ref(k, ClientMessageSinkStack, implies(k != self, k.g_posted == old(k.g_posted)), k.g_posted)'],
    modifies=['SinkStack.g_posted', 'deque[tuple[any,any]]'], allocates=True, trusted=True,
    notes='verified as a unit under C01 (pop at most one entry, invoke it once); callers in transports use this summary; '
          'assumed not to re-enter the calling transport synchronously',
  ),
  'ClientMessageSinkStack.AsyncProcessResponseStream': dict(
    cls='ClientMessageSinkStack', params={'stream': 'any'},
    requires=[], ensures=['self.g_posted == old(self.g_posted) + 1',
             'forall_ref(k, ClientMessageSinkStack, implies(k != self, k.g_posted == old(k.g_posted)), k.g_posted)'],
    modifies=['SinkStack.g_posted', 'deque[tuple[any,any]]'], allocates=True, trusted=True,
    notes='see ClientMessageSinkStack.AsyncProcessResponse',
  ),
  'ClientMessageSinkStack.AsyncProcessResponseMessage': dict(
    cls='ClientMessageSinkStack', params={'msg': 'any'},
    requires=[], ensures=['self.g_posted == old(self.g_posted) + 1',
             'forall_ref(k, ClientMessageSinkStack, implies(k != self, k.g_posted == old(k.g_posted)), k.g_posted)'],
    modifies=['SinkStack.g_posted', 'deque[tuple[any,any]]'], allocates=True, trusted=True,
    notes='see ClientMessageSinkStack.AsyncProcessResponse',
  ),
}

EXTERNS = {
  'KeySelector.__call__': dict(params=[('properties', 'any')], returns='any'),
  'NextProvider.CreateSink': dict(params=[('properties', 'any')], returns='Channel', fresh=True, allocates=True),
  'Observable.__init__': dict(params=[], returns='Observable', fresh=True, allocates=True),
  'RLock': dict(params=[], returns='any'),
  'Observable.Get': dict(params=[], returns='any', ensures=['result == self.value']),
  'Observable.Set': dict(params=[('value', 'any')], modifies=['Observable.value'], allocates=True,
                         ensures=['self.value == value', 'forall_ref(o, Observable, implies(o != self, o.value == old(o.value)), o.value)'],
                         notes='sets the value and spawns the notification greenlet (callbacks run later)'),
  'Observable.Subscribe': dict(params=[('callback', 'any'), ('one_shot', 'bool')], requires=['callback is not None'],
                               notes='registers a callback; one-shot callbacks are delivered at most once (assumed)'),
  'Observable.Unsubscribe': dict(params=[('callback', 'any')]),
  'time.time': dict(params=[], returns='real', ensures=['result > 0'],
                    notes='wall clock; monotonicity is stated where a proof needs it'),
}
