"""Contracts for scales/dispatch.py (C01, C18, C20)."""
FILE = 'scales/dispatch.py'

CLASSES = {
  'MessageDispatcher': dict(path='MessageDispatcher', bases=['ClientMessageSink'], fields={
    '_open_ar': 'AsyncResult?', '_dispatch_timeout': 'real?', '_service': 'any', '_name': 'any'}),
  '_AsyncResponseSink': dict(path='_AsyncResponseSink', bases=['ClientMessageSink'], fields={}),
  'ScalesError': dict(path='ScalesError', bases=[], fields={'inner_exception': 'any'}),
  # (source, start_time, ar, message properties): the context of the bottom stack entry
  'RespCtx': dict(extern=True, path=None, bases=[], listlike=['source', 'start_time', 'ar', 'props'],
                  fields={'source': 'Source?', 'start_time': 'real', 'ar': 'AsyncResult', 'props': 'Props'}),
  'Source': dict(file='scales/varz.py', path='Source', bases=[], fields={'method': 'any', 'service': 'any', 'endpoint': 'any', 'client_id': 'any'},
                 # dictionary keys by value: justified by lemma_source_value_equality / lemma_source_distinct (C18), which are
                 # obligations on the class's own __eq__ / __hash__
                 value_key=['method', 'service', 'endpoint', 'client_id']),
  'MethodCallMessage': dict(extern=True, path=None, bases=['Message'], fields={'method': 'any', 'args': 'any', 'kwargs': 'any', 'service': 'any'}),
  'InternalError': dict(path='InternalError', bases=[], fields={}),
}

FUNCTIONS = {
  # ---- exactly one completion of the caller's AsyncResult per invocation of the bottom entry
  # what the caller is handed for an error reply: a timeout as it is; any other error wrapped in the library's ScalesError
  # (carrying it as inner exception) exactly when a stack was recorded with it, else the error itself
  '_AsyncResponseSink._WrapException': dict(
    cls=None, params={'msg': 'MethodReturnMessage'}, returns='any',
    requires=['allocated(msg)', 'msg.error is not None'],
    ensures=['result is not None',
             'implies(dyn_is(msg.error, TimeoutError), result == msg.error)',
             'implies(not dyn_is(msg.error, TimeoutError) and truthy(msg.stack), tag_is(result, ScalesError) and cast(result, ScalesError).inner_exception == msg.error and fresh(result))',
             'implies(not dyn_is(msg.error, TimeoutError) and not truthy(msg.stack), result == msg.error)'],
    modifies=['ScalesError.inner_exception', '$cls'], allocates=True,
    props=['C14', 'C01'],
  ),
  'ScalesError.__init__': dict(cls='ScalesError', inline=True),
  '_AsyncResponseSink.AsyncProcessResponse': dict(
    cls='_AsyncResponseSink',
    params={'sink_stack': 'ClientMessageSinkStack', 'context': 'RespCtx', 'stream': 'any', 'msg': 'Message?'},
    locals={'host_source': 'Source?'},
    requires=['allocated(context)'],
    ensures=[
      # on every path exactly one of set / set_exception is called on the caller's result
      'context.ar.g_sets == old(context.ar.g_sets) + 1',
      'forall_ref(a, AsyncResult, implies(a != context.ar, a.g_sets == old(a.g_sets)), a.g_sets)',
    ],
    modifies=['ScalesError.inner_exception', 'AsyncResult.g_sets', 'AsyncResult.value', 'AsyncResult.exception', 'AsyncResult.g_ready', 'Source.method', 'Source.service', 'Source.endpoint', 'Source.client_id', '$cls'], allocates=True,
    props=['C01'],
  ),
  # ---- deadline arithmetic
  'MessageDispatcher.StaticDispatchMessage': dict(
    cls=None, params={'sink': 'Channel', 'source': 'Source?', 'start_time': 'real', 'deadline': 'real?', 'disp_msg': 'Message'},
    returns='AsyncResult',
    locals={'sink_stack': 'ClientMessageSinkStack'},
    literals={'(source, start_time, ar, disp_msg.properties)': 'RespCtx'},
    requires=['allocated(disp_msg.properties)'],
    ensures=[
      'fresh(result) and result.g_sets == 0',
      # the deadline travels on the message exactly when there is one
      'implies(truthy(deadline), ("__Deadline" in disp_msg.properties) and disp_msg.properties["__Deadline"] == deadline)',
      'implies(not truthy(deadline), ("__Deadline" in disp_msg.properties) == old("__Deadline" in disp_msg.properties))',
    ],
    modifies=['Props.endpoint', 'Props.has_endpoint', 'Props.deadline', 'Props.has_deadline', 'deque[tuple[AnySink,any]]',
              'SinkStack._stack', 'RespCtx.source', 'RespCtx.start_time', 'RespCtx.ar', 'RespCtx.props',
              'ClientMessageSink._on_faulted', 'MessageSink._next', 'AsyncResult.g_sets', 'AsyncResult.g_ready', 'AsyncResult.exception', 'AsyncResult.value', '$cls'],
    allocates='any',
    ghost=[
      {'before': 'gevent.spawn(sink.AsyncProcessRequest, sink_stack, disp_msg, None, {})', 'do': [
        # a fresh stack whose only entry is the response sink holding the fresh result
        'prove(fresh(sink_stack) and len(sink_stack._stack) == 1, "fresh-stack-with-one-entry")',
        'prove(sink_stack._stack[0][0] == repsonse_sink and fresh(repsonse_sink), "bottom-entry-is-the-response-sink")',
      ]},
    ],
    props=['C01'],
  ),
  'MessageDispatcher.DispatchMethodCall': dict(
    cls='MessageDispatcher',
    params={'method': 'any', 'args': 'any', 'kwargs': 'any', 'timeout': 'real?'},
    returns='AsyncResult',
    requires=['self._next is not None'],
    ensures=[],
    raises={'Exception': dict(when='self._open_ar is None')},
    modifies=['*'], allocates='any',
    ghost=[
      # the clock is read once, when the call is issued; the same reading is the start time whether
      # the dispatch happens now or is chained behind the pending open
      {'after': 'start_time = time.time()', 'do': ['g_t = start_time']},
      {'before': 'return self._DispatchMethod(method, args, kwargs, timeout, start_time)', 'do': [
        'prove(start_time == g_t and self._open_ar.g_ready, "start-time-is-issue-time")',
        'prove(implies(not truthy(old(timeout)), timeout == self._dispatch_timeout) and implies(truthy(old(timeout)), timeout == old(timeout)), "default-timeout-applied")']},
      {'before': 'return self._open_ar.ContinueWith(lambda ar: self._DispatchMethod(method, args, kwargs, timeout, start_time)).Unwrap()', 'do': [
        'prove(start_time == g_t and not self._open_ar.g_ready, "deferred-dispatch-keeps-the-issue-time")']},
    ],
    props=['C01'],
  ),
  'MessageDispatcher._DispatchMethod': dict(
    cls='MessageDispatcher',
    params={'method': 'any', 'args': 'any', 'kwargs': 'any', 'timeout': 'real?', 'start_time': 'real'},
    returns='AsyncResult',
    requires=['self._next is not None'],
    ensures=[],
    modifies=['Props.endpoint', 'Props.has_endpoint', 'Props.deadline', 'Props.has_deadline', 'deque[tuple[AnySink,any]]',
              'SinkStack._stack', 'RespCtx.source', 'RespCtx.start_time', 'RespCtx.ar', 'RespCtx.props',
              'ClientMessageSink._on_faulted', 'MessageSink._next', 'AsyncResult.g_sets', 'AsyncResult.g_ready', 'AsyncResult.exception', 'AsyncResult.value', '$cls',
              'Source.method', 'Source.service', 'Source.endpoint', 'Source.client_id'],
    allocates='any',
    ghost=[
      {'before': 'return self.StaticDispatchMessage(self.next_sink, source, start_time, deadline, disp_msg)', 'do': [
        # from the statement: a call with timeout T issued at t has the absolute deadline t + T
        # (not before t+T, not after t+T rounded up by the timer) -- however long the open took
        'prove(implies(truthy(timeout), not is_none(deadline) and deadline == start_time + timeout), "deadline-is-start-plus-timeout")',
        'prove(implies(not truthy(timeout), is_none(deadline)), "no-timeout-no-deadline")',
      ]},
    ],
    props=['C01'],
  ),
}

EXTERNS = {
  'AsyncResult.ContinueWith': dict(params=[('fn', 'any'), ('on_hub', 'bool')], returns='AsyncResult', fresh=True, allocates=True,
                                   notes='scales.asynchronous (C17): runs fn once when self completes'),
  'AsyncResult.Unwrap': dict(params=[], returns='AsyncResult', fresh=True, allocates=True, notes='scales.asynchronous (C17)'),
  'AsyncResult.__init__': dict(params=[], returns='AsyncResult', fresh=True, allocates=True,
                               modifies=['AsyncResult.g_sets', 'AsyncResult.g_ready', 'AsyncResult.exception', 'AsyncResult.value'],
                               ensures=['result.g_sets == 0', 'not result.g_ready and result.exception is None',
                                        'forall_ref(a, AsyncResult, implies(a != result, a.g_ready == old(a.g_ready) and a.exception == old(a.exception) and a.value == old(a.value)), a.g_ready)', 'forall_ref(a, AsyncResult, implies(a != result, a.g_sets == old(a.g_sets)), a.g_sets)']),
  # gevent semantics: set()/set_exception() store the outcome (overwriting an earlier one) and mark ready
  'AsyncResult.set': dict(params=[('value', 'any')],
                          modifies=['AsyncResult.g_sets', 'AsyncResult.value', 'AsyncResult.exception', 'AsyncResult.g_ready'],
                          ensures=['self.g_sets == old(self.g_sets) + 1', 'self.g_ready', 'self.value == value', 'self.exception is None',
                                   'forall_ref(a, AsyncResult, implies(a != self, a.g_sets == old(a.g_sets) and a.g_ready == old(a.g_ready) and a.value == old(a.value) and a.exception == old(a.exception)), a.g_sets)']),
  'AsyncResult.set_exception': dict(params=[('exc', 'any')],
                                    modifies=['AsyncResult.g_sets', 'AsyncResult.value', 'AsyncResult.exception', 'AsyncResult.g_ready'],
                                    ensures=['self.g_sets == old(self.g_sets) + 1', 'self.g_ready', 'self.exception == exc',
                                             'forall_ref(a, AsyncResult, implies(a != self, a.g_sets == old(a.g_sets) and a.g_ready == old(a.g_ready) and a.value == old(a.value) and a.exception == old(a.exception)), a.g_sets)']),
  'AsyncResult.successful': dict(params=[], returns='bool', ensures=['result == (self.g_ready and self.exception is None)']),
  'MethodCallMessage.__init__': dict(params=[('service', 'any'), ('method', 'any'), ('args', 'any'), ('kwargs', 'any')],
                                     returns='MethodCallMessage', fresh=True, allocates=True,
                                     ensures=['result.method == method and result.args == args and result.kwargs == kwargs', 'allocated(result.properties)']),
  'InternalError.__init__': dict(params=[('m', 'any')], returns='any'),
}
