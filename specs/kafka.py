"""Contracts for scales/kafka/protocol.py, scales/kafka/sink.py and scales/binary.py (C15)."""
FILE = 'scales/kafka/protocol.py'

CLASSES = {
  'KafkaProtocol': dict(path='KafkaProtocol', bases=[], fields={}),
  'MessageHelper': dict(path='MessageHelper', bases=[], fields={}),
  'MessageType_kafka': dict(path='MessageType', bases=[]),
  'BinaryWriter': dict(file='scales/binary.py', path='BinaryWriter', bases=[], fields={'_buf': 'Stream'}),
  'BinaryReader': dict(file='scales/binary.py', path='BinaryReader', bases=[], fields={'_buf': 'Stream'}),
  'Structs': dict(file='scales/binary.py', path='Structs', bases=[]),
  'KafkaEndpoint': dict(extern=True, path=None, bases=[], fields={'partition_id': 'int', 'host': 'any', 'port': 'int'}),
  'KafkaTransportSink': dict(file='scales/kafka/sink.py', path='KafkaTransportSink', bases=['MuxSocketTransportSink'], fields={}),
  'KafkaSerializerSink': dict(file='scales/kafka/sink.py', path='KafkaSerializerSink', bases=['ClientMessageSink'], fields={'_serializer': 'KafkaSerializer'}),
  'KafkaSerializer': dict(extern=True, path=None, bases=[], fields={}),
}

PREDICATES = {
  'i32_range': (['x'], '-2147483648 <= x and x <= 2147483647'),
}

FUNCTIONS = {
  'MessageHelper.GetPutArgs': dict(
    cls=None, params={'msg': 'Message'}, returns='tuple[bytes,list[bytes],int]', trusted=True,
    requires=[], ensures=['result[0] == msg.g_topic', 'result[1] == msg.g_payloads', 'result[2] == msg.g_acks', 'allocated(result[1])'],
    modifies=[],
    notes='argument unpacking through a local def with *args/**kwargs: (topic, payloads, acks=1); the three values are named by ghost fields of the message'),

  'KafkaProtocol._GetMessageHeader': dict(
    cls='KafkaProtocol', params={'payload': 'bytes'}, returns='bytes',
    requires=['blen(payload) <= 2147483647'],
    # magic 0, attributes 0, key length -1 (no key), value length
    ensures=['beq(result, bcat(bi8(0), bi8(0), bi32(-1), bi32(blen(payload))))'],
    modifies=[], allocates=True,
    props=['C15'],
  ),

  # request header: size of what follows, api key, api version 0, correlation id, client id
  'KafkaTransportSink._BuildHeader': dict(
    file='scales/kafka/sink.py', cls='KafkaTransportSink',
    params={'tag': 'int', 'msg_type': 'int', 'data_len': 'int'}, returns='bytes',
    requires=['i32_range(tag)', '-32768 <= msg_type and msg_type <= 32767', '0 <= data_len and data_len <= 2147483000'],
    ensures=['beq(result, bcat(bi32(2 + 2 + 4 + 2 + 6 + data_len), bi16(msg_type), bi16(0), bi32(tag), bi16(6), bu8(115), bu8(99), bu8(97), bu8(108), bu8(101), bu8(115)))'],
    modifies=[], allocates=True,
    props=['C15'],
  ),

  'KafkaProtocol._SerializeProduceRequest': dict(
    cls='KafkaProtocol', params={'msg': 'Message', 'buf': 'Stream', 'headers': 'HeadersRec'},
    locals={'payloads': 'list[bytes]'},
    requires=['allocated(msg.properties)', '"__Endpoint" in msg.properties', 'msg.properties["__Endpoint"] is not None',
              '-32768 <= msg.g_acks and msg.g_acks <= 32767', 'blen(msg.g_topic) <= 32767',
              'i32_range(msg.properties["__Endpoint"].partition_id)',
              'forall(k, 0, len(msg.g_payloads), blen(msg.g_payloads[k]) <= 2147483000)',
              # the total fits the 32-bit size field
              'forall(x, "int", i32_range(sum_of(x)))'],
    ensures=['headers["__MessageType"] == 0'],
    modifies=['HeadersRec.msgtype', 'HeadersRec.has_msgtype', 'BinaryWriter._buf', '$cls'], allocates='any',
    loops={0: dict(invariant=['writer._buf == buf'], modifies=[])},
    ghost=[
      {'before': 'writer.WriteStruct(self.PRODUCE_HEADER, acks, 1000, 1)', 'do': ['g_m = bmark(buf)']},
      {'after': 'writer.WriteInt32(msg_set_len)', 'do': [
        # acks, timeout 1000 ms, one topic; the topic name; one partition, its id; the declared message-set size
        'prove(beq(since(buf, g_m), bcat(bi16(acks), bi32(1000), bi32(1), bi16(blen(topic)), topic, bi32(1), '
        '          bi32(msg.properties["__Endpoint"].partition_id), bi32(msg_set_len))), "produce-request-preamble")',
        # the declared set size is the sum, over the payloads in order, of 8+4+4+len(p)+10
        'prove(len(summands(msg_set_len)) == len(payloads) and forall(k, 0, len(payloads), summands(msg_set_len)[k] == 8 + 4 + 4 + blen(payloads[k]) + 10), "declared-set-size-sums-the-per-message-sizes")']},
      {'before': 'header = self._GetMessageHeader(p)', 'do': ['g_m = bmark(buf)']},
      {'after': 'writer.WriteRaw(p)', 'do': [
        # offset 0, message size, CRC32 over everything after the crc field, then magic/attributes/key/value
        'prove(beq(since(buf, g_m), bcat(bi64(0), bi32(4 + 10 + blen(p)), bu32(crc_of(bcat(bi8(0), bi8(0), bi32(-1), bi32(blen(p)), p))), '
        '          bi8(0), bi8(0), bi32(-1), bi32(blen(p)), p)), "message-entry-with-matching-size-and-crc")',
        # the summand used for the declared set size is exactly what was written for this message
        'prove(blen(since(buf, g_m)) == 8 + 4 + 4 + blen(p) + 10, "summand-equals-bytes-written")']},
    ],
    props=['C15'],
  ),
}

EXTERNS = {}

CLASSES.update({
  'ProduceResponse': dict(extern=True, path=None, bases=[], listlike=['topic', 'partition', 'error', 'offset'],
                          fields={'topic': 'bytes', 'partition': 'int', 'error': 'int', 'offset': 'int'}),
})

FUNCTIONS.update({
  'BinaryReader.ReadInt32': dict(file='scales/binary.py', cls='BinaryReader', inline=True),
  'BinaryReader.ReadInt16': dict(file='scales/binary.py', cls='BinaryReader', inline=True),
  'BinaryReader.ReadInt64': dict(file='scales/binary.py', cls='BinaryReader', inline=True),
  'BinaryReader.ReadString': dict(file='scales/binary.py', cls='BinaryReader', inline=True),

  # produce response: [topic, [partition, error, offset]*]* -- decoded entry by entry; the stream is
  # the broker's encoding, unfolded one element per loop iteration (stream_front)
  'KafkaProtocol._DeserializeProduceResponse': dict(
    cls='KafkaProtocol', params={'buf': 'Stream'}, returns='MethodReturnMessage',
    locals={'responses': 'list[ProduceResponse]'},
    captures={'g_ntopics': 'int', 'g_topic': 'bytes', 'g_nparts': 'int', 'g_part': 'int', 'g_err': 'int', 'g_off': 'int',
              'g_rest': 'int', 'g_restlen': 'int'},
    buffers={'buf': 'bcat(bi32(g_ntopics), braw(g_rest, g_restlen))'},
    requires=['i32_range(g_ntopics) and i32_range(g_nparts) and i32_range(g_part)', '-32768 <= g_err and g_err <= 32767',
              '-9223372036854775808 <= g_off and g_off <= 9223372036854775807', 'blen(g_topic) <= 32767', 'g_restlen >= 0'],
    ensures=[],
    modifies=['list[ProduceResponse]', 'ProduceResponse.topic', 'ProduceResponse.partition', 'ProduceResponse.error', 'ProduceResponse.offset',
              'BinaryReader._buf', 'MethodReturnMessage.return_value', 'MethodReturnMessage.error', 'MethodReturnMessage.stack', '$cls'],
    allocates='any',
    loops={
      0: dict(invariant=['reader._buf == buf', 'allocated(responses)', 'num_topics == g_ntopics'], modifies=['list[ProduceResponse]', 'ProduceResponse.topic', 'ProduceResponse.partition', 'ProduceResponse.error', 'ProduceResponse.offset', '$cls'], allocates='any'),
      1: dict(invariant=['reader._buf == buf', 'allocated(responses)', 'beq(topic, g_topic)', 'num_partitions == g_nparts'], modifies=['list[ProduceResponse]', 'ProduceResponse.topic', 'ProduceResponse.partition', 'ProduceResponse.error', 'ProduceResponse.offset', '$cls'], allocates='any'),
    },
    ghost=[
      {'after': 'num_topics = reader.ReadInt32()', 'do': ['prove(num_topics == g_ntopics, "topic-count")']},
      {'before': 'topic = reader.ReadString()', 'do': ['stream_front(buf, bcat(bi16(blen(g_topic)), g_topic, bi32(g_nparts)))']},
      {'after': 'num_partitions = reader.ReadInt32()', 'do': ['prove(beq(topic, g_topic) and num_partitions == g_nparts, "topic-name-and-partition-count")']},
      {'before': 'partition = reader.ReadInt32()', 'do': ['stream_front(buf, bcat(bi32(g_part), bi16(g_err), bi64(g_off)))', 'g_n = len(responses)']},
      {'after': 'responses.append(ProduceResponse(topic, partition, error_code, offset))', 'do': [
        'prove(len(responses) == g_n + 1 and beq(responses[g_n].topic, g_topic) and responses[g_n].partition == g_part and '
        '      responses[g_n].error == g_err and responses[g_n].offset == g_off, "entry-decodes-to-what-was-encoded")']},
    ],
    props=['C15'],
  ),
})

FUNCTIONS.update({
  # a reply is delivered to the request with the same correlation id (the mux tag)
  'KafkaTransportSink._ProcessReply': dict(
    file='scales/kafka/sink.py', cls='KafkaTransportSink', params={'stream': 'Stream'},
    captures={'g_corr': 'int', 'g_rest': 'int', 'g_restlen': 'int'},
    buffers={'stream': 'bcat(bi32(g_corr), braw(g_rest, g_restlen))'},
    requires=['i32_range(g_corr)', 'g_restlen >= 0', 'MuxInv(self)'],
    ensures=['MuxInv(self)'],
    modifies=['dict[int,tuple[ClientMessageSinkStack,real,Props]]', 'set[int]', 'deque[tuple[AnySink,any]]', 'AnySink.g_invoked', 'Props.tag', 'Props.has_tag'],
    allocates=True,
    ghost=[{'before': 'self._ProcessTaggedReply(tag, stream)', 'do': ['prove(tag == g_corr, "routed-by-the-correlation-id-in-the-first-four-bytes")']}],
    props=['C15', 'C11'],
  ),
})


FUNCTIONS.update({
  # the serializer sink: every request is written into a buffer created for it, and that buffer -- holding exactly
  # what the protocol wrote -- is what the transport gets (it frames stream.getvalue()); a serialization failure is
  # answered as an error and nothing is forwarded
  'KafkaSerializerSink.AsyncProcessRequest': dict(
    file='scales/kafka/sink.py', cls='KafkaSerializerSink',
    params={'sink_stack': 'ClientMessageSinkStack', 'msg': 'Message', 'stream': 'any', 'headers': 'any'},
    locals={'buf': 'Stream', 'ex': 'any'}, literals={'{}': 'dict[any,any]'},
    requires=['allocated(self._serializer)', 'allocated(sink_stack)', 'self._next is not None'], ensures=[],
    modifies=['*'], allocates='any',
    ghost=[
      {'after': 'buf = BytesIO()', 'do': ['prove(fresh(buf), "a-buffer-of-its-own-for-every-request")', 'g_m = bmark(buf)']},
      {'before': 'self.next_sink.AsyncProcessRequest(sink_stack, msg, buf, headers)', 'do': [
        'prove(fresh(buf), "forwards-the-request-own-buffer")',
        'prove(beq(content(buf), since(buf, g_m)), "the-forwarded-stream-holds-exactly-this-request")']},
    ],
    props=['C15'],
  ),
})

EXTERNS.update({
  'KafkaSerializer.SerializeMessage': dict(params=[('msg', 'Message'), ('buf', 'Stream'), ('headers', 'any')], returns='any', may_raise=['Exception'],
                                           writes={'buf': 'braw(msg.g_thrift, msg.g_thrift_len)'},
                                           notes='KafkaProtocol.SerializeMessage: appends the request body to the stream (its produce branch is the unit _SerializeProduceRequest)'),
})
