"""Contracts for scales/timer_queue.py (C10)."""
FILE = 'scales/timer_queue.py'

CLASSES = {
  # [deadline, seq, cancelled, action]: a python list used as a mutable record
  'TimerEntry': dict(extern=True, path=None, bases=[], final=True,
                     listlike=['deadline', 'seq', 'cancelled', 'action'],
                     fields={'deadline': 'real', 'seq': 'int', 'cancelled': 'bool', 'action': 'any'}),
  # self._queue: a list kept as a heap by heapq -- abstracted to the set of entries it holds;
  # heapq keeps the minimum of python's list order (here: (deadline, seq)) at index 0 (assumed)
  'HeapQ': dict(extern=True, path=None, bases=[], fields={'g_mem': 'set[TimerEntry]'}, ghost=['g_mem'], abstracts_list=['g_mem'],
                truthy_expr='not set_eq(self.g_mem, empty_set("TimerEntry"))'),
  'LowResTime': dict(extern=True, path=None, bases=[], fields={'now': 'real'}),
  'TimeSource': dict(extern=True, path=None, bases=[], fields={}),
  'TimerQueue': dict(path='TimerQueue', bases=[], fields={
    '_queue': 'HeapQ', '_event': 'Event', '_seq': 'int', '_resolution': 'real', '_time_source': 'TimeSource',
    '_worker': 'any',
    # ghost: the queue's clock; the entries whose action has been started
    'g_clock': 'real', 'g_ran': 'set[any]', 'g_spawned': 'int'}, ghost=['g_clock', 'g_ran', 'g_spawned']),
}

GLOBALS = {
  'LOW_RESOLUTION_TIMER_QUEUE': dict(type='TimerQueue', assume=[
    'allocated(LOW_RESOLUTION_TIMER_QUEUE._queue) and allocated(LOW_RESOLUTION_TIMER_QUEUE._event) and LOW_RESOLUTION_TIMER_QUEUE._queue.g_mem != LOW_RESOLUTION_TIMER_QUEUE.g_ran']),
  'LOW_RESOLUTION_TIME_SOURCE': dict(type='LowResTime', assume=[]),
  'GLOBAL_TIMER_QUEUE': dict(type='TimerQueue', assume=[
    'allocated(GLOBAL_TIMER_QUEUE._queue) and allocated(GLOBAL_TIMER_QUEUE._event) and GLOBAL_TIMER_QUEUE._queue.g_mem != GLOBAL_TIMER_QUEUE.g_ran']),
}

PREDICATES = {
  # python's list comparison on entries; seq values are unique, so later components never decide
  'qle': (['a', 'b'], 'a.deadline < b.deadline or (a.deadline == b.deadline and a.seq <= b.seq)'),
  'TQInv': (['s'],
     'forall_ref(e, TimerEntry, implies(e in s._queue.g_mem, allocated(e) and e.seq <= s._seq), e.seq) and '
     'forall_ref((e1, e2), TimerEntry, implies(e1 in s._queue.g_mem and e2 in s._queue.g_mem and e1.seq == e2.seq, e1 == e2)) and '
     # an entry whose action was started has left the queue for good
     'forall_ref(e, TimerEntry, implies(e in s.g_ran, not (e in s._queue.g_mem) and allocated(e))) and '
     's._resolution >= 0'),
}

_TQ_INV = ['TQInv(self)',
           # the event is only ever set together with a push, and the worker removes at most one
           # entry per clearing of the event: a set event means there is something to peek
           'implies(self._event.flag, not set_eq(self._queue.g_mem, empty_set("TimerEntry")))']

CONCURRENCY = {
  'TimerShared': dict(invariant=_TQ_INV),
  # what Schedule()/cancel() (the only other writers) may do while the worker is descheduled
  'TimerClients': dict(
    state=['set[TimerEntry]', 'TimerEntry.cancelled', 'TimerEntry.action', 'TimerEntry.deadline', 'TimerEntry.seq',
           'TimerQueue._seq', 'Event.flag', 'TimerQueue.g_clock', '$cls'],
    allocates_final=True,
    invariant=_TQ_INV,
    guarantee=[
      'self.g_clock >= old(self.g_clock)',                      # the clock does not run backwards
      'subset(old(setof(self._queue.g_mem)), self._queue.g_mem)',  # only the worker removes entries
      'set_eq(self.g_ran, old(setof(self.g_ran)))',
      'implies(old(self._event.flag), self._event.flag)',        # only the worker clears the event
      'forall_ref(e, TimerEntry, implies(old(allocated(e)), e.deadline == old(e.deadline) and e.seq == old(e.seq)), e.seq)',
      # no lost wake-up: unless the event is (now) set, every entry added meanwhile sorts after
      # every entry that was already there with a deadline no later than its own... precisely:
      # an added entry whose deadline is <= the earliest old deadline sets the event
      'self._event.flag or forall_ref((e, m), TimerEntry, implies(e in self._queue.g_mem and not old(e in self._queue.g_mem) and old(m in self._queue.g_mem) and '
      '   old(forall_ref(o, TimerEntry, implies(o in self._queue.g_mem, qle(m, o)))), m.deadline < e.deadline))',
      'self._event.flag or not old(set_eq(self._queue.g_mem, empty_set("TimerEntry"))) or set_eq(self._queue.g_mem, empty_set("TimerEntry"))',
      # the event is newly set only together with a push
      'implies(self._event.flag and not old(self._event.flag), not subset(self._queue.g_mem, old(setof(self._queue.g_mem))))',
    ],
  ),
}

FUNCTIONS = {
  'TimerQueue.Schedule': dict(
    cls='TimerQueue', params={'deadline': 'real', 'action': 'any'}, returns='fn',
    locals={'timeout_args': 'TimerEntry'},
    guar=['TimerClients'],
    requires=['allocated(self._queue)', 'allocated(self._event)', 'self._queue.g_mem != self.g_ran'],
    # on every normal exit the action has been queued (nothing runs, and nothing is dropped, outside the queue)
    ensures=['not subset(self._queue.g_mem, old(setof(self._queue.g_mem)))', 'subset(old(setof(self._queue.g_mem)), self._queue.g_mem)',
             'self.g_spawned == old(self.g_spawned)',
             # frame: the one event that may get set is this queue's own
             'forall_ref(v, Event, implies(v != self._event, v.flag == old(v.flag)), v.flag)',
             # what is created is a timer entry and its cancel closure -- in particular no load-balancer node
             'forall_ref(r, Node, allocated(r) == old(allocated(r)), r.index)'],
    raises={'Exception': dict(when='action is None', ensures=['unchanged("set[TimerEntry]")', 'unchanged("TimerQueue._seq")', 'unchanged("Event.flag")'])},
    modifies=['set[TimerEntry]', 'TimerEntry.cancelled', 'TimerEntry.action', 'TimerEntry.deadline', 'TimerEntry.seq',
              'TimerQueue._seq', 'Event.flag', '$cls'],
    allocates='any',
    ghost=[
      {'after': 'timeout_args = [deadline, self._seq, False, action]', 'do': [
        # rounding: never earlier than asked, later by less than one resolution step, a multiple of it
        'prove(timeout_args.deadline >= old(deadline), "not-early")',
        'prove(implies(self._resolution > 0, timeout_args.deadline < old(deadline) + self._resolution), "rounded-up-by-less-than-resolution")',
        'prove(implies(self._resolution == 0, timeout_args.deadline == old(deadline)), "unrounded-without-resolution")',
        # the stored key is the *rounded* deadline: a whole number of resolution steps (so that entries of one tick tie
        # and run in scheduling order)
        'prove(implies(self._resolution > 0, exists(k, "int", timeout_args.deadline == k * self._resolution)), "stored-deadline-is-a-whole-number-of-ticks")',
        'prove(timeout_args.seq == old(self._seq) + 1 and self._seq == old(self._seq) + 1, "seq-strictly-increases")',
        'prove(not timeout_args.cancelled and timeout_args.action == action, "armed")',
      ]},
      {'after': 'heapq.heappush(self._queue, timeout_args)', 'do': [
        'prove(set_eq(self._queue.g_mem, set_add(old(setof(self._queue.g_mem)), timeout_args)) and fresh(timeout_args), "pushes-exactly-one-new-entry")',
      ]},
      {'before': 'return cancel', 'do': [
        # the worker is woken whenever the new entry is due no later than everything else
        'prove(implies(forall_ref(o, TimerEntry, implies(o in self._queue.g_mem, timeout_args.deadline <= o.deadline)), self._event.flag), "wakes-worker-for-new-earliest")',
      ]},
    ],
    props=['C10', 'C01', 'C12'],
  ),

  'TimerQueue.Schedule.cancel': dict(
    captures={'timeout_args': 'TimerEntry', 'self': 'TimerQueue'},
    guar=['TimerClients'],
    requires=['allocated(timeout_args)'],
    ensures=['timeout_args.cancelled', 'timeout_args.action is None',
             # cancelling never affects any other action, nor the queue
             'forall_ref(e, TimerEntry, implies(e != timeout_args, e.cancelled == old(e.cancelled) and e.action == old(e.action)), e.cancelled)'],
    modifies=['TimerEntry.cancelled', 'TimerEntry.action'],
    props=['C10', 'C01'],
  ),
}

FUNCTIONS.update({
  # a new queue holds nothing, has started nothing, its event is clear and its worker is the one greenlet spawned here
  'TimerQueue.__init__': dict(
    cls='TimerQueue', params={'time_source': 'TimeSource', 'resolution': 'real'}, returns='none',
    requires=['resolution >= 0', 'allocated(self.g_ran)', 'set_eq(self.g_ran, empty_set("any"))'],
    ensures=['TQInv(self)', 'fresh(self._queue) and fresh(self._event)', 'set_eq(self._queue.g_mem, empty_set("TimerEntry"))',
             'not self._event.flag', 'self._seq == 0', 'self._resolution == resolution', 'self._time_source == time_source',
             'self._queue.g_mem != self.g_ran'],
    modifies=['TimerQueue._queue', 'TimerQueue._event', 'TimerQueue._seq', 'TimerQueue._resolution', 'TimerQueue._time_source',
              'TimerQueue._worker', 'HeapQ.g_mem', 'set[TimerEntry]', 'Event.flag', '$cls'],
    allocates=True,
    ghost=[
      {'after': 'self._worker = gevent.spawn(self._TimerWorker)', 'do': [
        'prove(_last_result is not None, "worker-spawned")',
      ]},
    ],
    props=['C10'],
  ),
  'TimerQueue._PeekNext': dict(cls='TimerQueue', inline=True),
  'TimerQueue._TimerWorker': dict(
    cls='TimerQueue', conc='TimerClients', guar=['TimerShared'], no_exit=True,
    requires=['allocated(self._queue)', 'allocated(self._event)'],
    ensures=[],
    modifies=['set[TimerEntry]', 'set[any]', 'Event.flag', 'TimerQueue.g_clock', 'TimerQueue.g_spawned', 'TimerEntry.cancelled', 'TimerEntry.action',
              'TimerEntry.deadline', 'TimerEntry.seq', 'TimerQueue._seq', '$cls'],
    allocates='any',
    locals={'action': 'any'},
    loops={0: dict(
      invariant=_TQ_INV + ['self.g_clock >= old(self.g_clock)'],
      modifies=['set[TimerEntry]', 'set[any]', 'Event.flag', 'TimerQueue.g_clock', 'TimerQueue.g_spawned', 'TimerEntry.cancelled', 'TimerEntry.action',
                'TimerEntry.deadline', 'TimerEntry.seq', 'TimerQueue._seq', '$cls'],
      allocates='any')},
    yields=[
      # Y1: blocks without a timeout only while the queue is empty
      {'at': 'self._event.wait()', 'assert': ['set_eq(self._queue.g_mem, empty_set("TimerEntry"))']},
      # Y2
      {'at': 'gevent.sleep(0)'},
      # Y3: sleeps until the earliest stored deadline, or until the event is set
      {'at': 'self._event.wait(to_wait)', 'assert': [
        'forall_ref(o, TimerEntry, implies(o in self._queue.g_mem, at <= o.deadline))',
        'to_wait == at - self.g_clock']},
    ],
    ghost=[
      {'after': 'to_wait = at - self._time_source()', 'do': ['assume(at - to_wait == self.g_clock)']},
      {'before': 'wait_timed_out = not self._event.wait(to_wait)', 'do': ['g_clock_y3 = self.g_clock']},
      {'after': 'wait_timed_out = not self._event.wait(to_wait)', 'do': [
        'assume(implies(wait_timed_out, self.g_clock >= g_clock_y3 + to_wait))']},
      {'after': 'at, seq, cancelled, action = heapq.heappop(self._queue)', 'do': ['g_popped = _last_result']},
      {'before': 'gevent.spawn(action)', 'do': [
        'prove(self.g_clock >= g_popped.deadline and at == g_popped.deadline, "never-before-rounded-deadline")',
        'prove(not g_popped.cancelled, "cancelled-never-runs")',
        'prove(not (g_popped in self.g_ran), "at-most-once")',
        'prove(forall_ref(o, TimerEntry, implies(o in self._queue.g_mem, qle(g_popped, o))), "in-deadline-then-schedule-order")',
        'self.g_ran.add(g_popped)', 'self.g_spawned = self.g_spawned + 1',
      ]},
    ],
    props=['C10'],
  ),
})

EXTERNS = {
  'TimeSource.__call__': dict(params=[], returns='real', notes='the clock of this queue (time.time or the low-resolution source)'),
  'gevent.spawn': dict(params=[('fn', 'any')], varargs=True, returns='Greenlet', fresh=True, allocates=True,
                       notes='starts a greenlet later; greenlets start in spawn order (assumed)'),
  'gevent.sleep': dict(params=[('seconds', 'real')], yields=True),
  'Event.wait': dict(params=[('timeout', 'real?')], returns='bool', yields=True,
                     ensures=['implies(is_none(timeout), self.flag)', 'implies(not result, not self.flag)', 'implies(self.flag, result)'],
                     notes='returns the flag; False only after the timeout elapsed on the waiter clock with the flag unset'),
  'math.ceil': dict(params=[('x', 'real')], returns='int', ensures=['result - 1 < x and x <= result'],
                    notes='mathematical ceiling (floats treated as reals)'),
  'heapq.heappush': dict(params=[('q', 'HeapQ'), ('x', 'TimerEntry')], modifies=['set[TimerEntry]'],
                         ensures=['set_eq(q.g_mem, set_add(old(setof(q.g_mem)), x))'],
                         notes='heapq keeps the queue a permutation of its entries with the minimum at index 0'),
  'heapq.heappop': dict(params=[('q', 'HeapQ')], returns='TimerEntry', modifies=['set[TimerEntry]'],
                        requires=['not set_eq(q.g_mem, empty_set("TimerEntry"))'],
                        ensures=['old(result in q.g_mem)', 'set_eq(q.g_mem, set_del(old(setof(q.g_mem)), result))',
                                 'forall_ref(o, TimerEntry, implies(old(o in q.g_mem), qle(result, o)))']),
  'HeapQ.__getitem__': dict(params=[('idx', 'int')], returns='TimerEntry',
                            requires=['idx == 0', 'not set_eq(self.g_mem, empty_set("TimerEntry"))'],
                            ensures=['result in self.g_mem', 'forall_ref(o, TimerEntry, implies(o in self.g_mem, qle(result, o)))']),
  'Event.set': dict(params=[], modifies=['Event.flag'],
                    ensures=['self.flag', 'forall_ref(v, Event, implies(v != self, v.flag == old(v.flag)), v.flag)']),
  'Event.clear': dict(params=[], modifies=['Event.flag'],
                      ensures=['not self.flag', 'forall_ref(v, Event, implies(v != self, v.flag == old(v.flag)), v.flag)']),
  'Event.is_set': dict(params=[], returns='bool', ensures=['result == self.flag']),
}
