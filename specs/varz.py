"""Contracts for scales/varz.py (C18, parts of C06/C14)."""
FILE = 'scales/varz.py'

CLASSES = {
  'VarzAggregator': dict(path='VarzAggregator', bases=[], fields={}),
  # metric name -> (source -> value): defaultdict(lambda: defaultdict(int)); missing entries read as 0
  'VarzReceiver': dict(path='VarzReceiver', bases=[], fields={}, static_fields={'VARZ_DATA': 'ddict[any,ddict[Source,int]]'}),
}

PREDICATES = {
  # the value of one series, 0 when absent (what a read through the defaultdicts returns)
  'series_value': (['m', 's'], 'ite((m in VarzReceiver.VARZ_DATA) and (s in VarzReceiver.VARZ_DATA[m]), VarzReceiver.VARZ_DATA[m][s], 0)'),
  'same_source_fields': (['a', 'b'], 'a.method == b.method and a.service == b.service and a.endpoint == b.endpoint and a.client_id == b.client_id'),
  'sorted_reals': (['xs'], 'forall((i, j), implies(0 <= i and i <= j and j < len(xs), xs[i] <= xs[j]))'),
}

FUNCTIONS = {
  'Source.__hash__': dict(cls='Source', pure=True),
  'Source.__eq__': dict(cls='Source', pure=True, params={'other': 'any'}),
  'Source.to_tuple': dict(cls='Source', pure=True),
  # value semantics of Source as a dictionary key: '==' and hash() are resolved from the class source
  # (identity when the class defines no __eq__), so this is an obligation on the real class
  'lemma_source_value_equality': dict(
    ghost_fn='''
def lemma_source_value_equality(a, b):
  same = (a == b)
  same_hash = (hash(a) == hash(b))
  return same and same_hash
''',
    params={'a': 'Source', 'b': 'Source'}, returns='bool',
    requires=['allocated(a) and allocated(b)', 'same_source_fields(a, b)'],
    ensures=['result'],
    modifies=[],
    props=['C18'],
  ),
  'lemma_source_distinct': dict(
    ghost_fn='''
def lemma_source_distinct(a, b):
  return a == b
''',
    params={'a': 'Source', 'b': 'Source'}, returns='bool',
    requires=['allocated(a) and allocated(b)', 'not same_source_fields(a, b)'],
    ensures=['not result'],
    modifies=[],
    props=['C18'],
  ),

  'VerifySource': dict(inline=True),
  # a counter series is the exact running sum of its increments: one series (metric, source-by-value) changes by
  # exactly `amount` (negative amounts included), every other series keeps its value
  'VarzReceiver.IncrementVarz': dict(
    params={'source': 'Source', 'metric': 'any', 'amount': 'int'}, returns='none',
    requires=['allocated(source)', 'allocated(VarzReceiver.VARZ_DATA)',
              'forall(m, "any", implies(m in VarzReceiver.VARZ_DATA, allocated(VarzReceiver.VARZ_DATA[m])))'],
    ensures=['(metric in VarzReceiver.VARZ_DATA) and (source in VarzReceiver.VARZ_DATA[metric])',
             'VarzReceiver.VARZ_DATA[metric][source] == old(series_value(metric, source)) + amount',
             'forall_ref(s2, Source, implies(allocated(s2) and not same_source_fields(s2, source), series_value(metric, s2) == old(series_value(metric, s2))))',
             'forall(m, "any", implies(m != metric and old(m in VarzReceiver.VARZ_DATA), VarzReceiver.VARZ_DATA[m] == old(VarzReceiver.VARZ_DATA[m])))'],
    modifies=['ddict[any,ddict[Source,int]]', 'ddict[Source,int]', '$cls'], allocates=True,
    props=['C18'],
  ),
  'VarzReceiver.SetVarz': dict(
    params={'source': 'Source', 'metric': 'any', 'value': 'int'}, returns='none',
    requires=['allocated(source)', 'allocated(VarzReceiver.VARZ_DATA)',
              'forall(m, "any", implies(m in VarzReceiver.VARZ_DATA, allocated(VarzReceiver.VARZ_DATA[m])))'],
    ensures=['(metric in VarzReceiver.VARZ_DATA) and (source in VarzReceiver.VARZ_DATA[metric])',
             'VarzReceiver.VARZ_DATA[metric][source] == value',
             'forall_ref(s2, Source, implies(allocated(s2) and not same_source_fields(s2, source), series_value(metric, s2) == old(series_value(metric, s2))))'],
    modifies=['ddict[any,ddict[Source,int]]', 'ddict[Source,int]', '$cls'], allocates=True,
    props=['C18'],
  ),

  'VarzAggregator.CalculatePercentile': dict(
    cls=None, params={'values': 'list[real]', 'pct': 'real'}, returns='real',
    requires=['sorted_reals(values)', '0 <= pct and pct <= 1'],
    ensures=['implies(len(values) == 0, result == 0)',
             'implies(len(values) > 0, values[0] <= result and result <= values[len(values) - 1])'],
    modifies=[],
    props=['C18'],
  ),
}

EXTERNS = {
  'math.floor': dict(params=[('x', 'real')], returns='int', ensures=['result <= x and x < result + 1']),
}
