"""Contracts for scales/varz.py (C18, parts of C06/C14)."""
FILE = 'scales/varz.py'

CLASSES = {
  'VarzAggregator': dict(path='VarzAggregator', bases=[], fields={}),
}

PREDICATES = {
  'same_source_fields': (['a', 'b'], 'a.method == b.method and a.service == b.service and a.endpoint == b.endpoint and a.client_id == b.client_id'),
  'sorted_reals': (['xs'], 'forall((i, j), implies(0 <= i and i <= j and j < len(xs), xs[i] <= xs[j]))'),
}

FUNCTIONS = {
  'Source.__hash__': dict(cls='Source', pure=True),
  'Source.__eq__': dict(cls='Source', pure=True, params={'other': 'any'}),
  'Source.to_tuple': dict(cls='Source', pure=True),
  # value semantics of Source as a dictionary key: '==' and hash() are resolved from the class source
  # (identity when the class defines no __eq__), so this is an obligation on the real class
  'lemma_source_value_equality': dict(
    ghost_fn='''
def lemma_source_value_equality(a, b):
  same = (a == b)
  same_hash = (hash(a) == hash(b))
  return same and same_hash
''',
    params={'a': 'Source', 'b': 'Source'}, returns='bool',
    requires=['allocated(a) and allocated(b)', 'same_source_fields(a, b)'],
    ensures=['result'],
    modifies=[],
    props=['C18'],
  ),
  'lemma_source_distinct': dict(
    ghost_fn='''
def lemma_source_distinct(a, b):
  return a == b
''',
    params={'a': 'Source', 'b': 'Source'}, returns='bool',
    requires=['allocated(a) and allocated(b)', 'not same_source_fields(a, b)'],
    ensures=['not result'],
    modifies=[],
    props=['C18'],
  ),

  'VarzAggregator.CalculatePercentile': dict(
    cls=None, params={'values': 'list[real]', 'pct': 'real'}, returns='real',
    requires=['sorted_reals(values)', '0 <= pct and pct <= 1'],
    ensures=['implies(len(values) == 0, result == 0)',
             'implies(len(values) > 0, values[0] <= result and result <= values[len(values) - 1])'],
    modifies=[],
    props=['C18'],
  ),
}

EXTERNS = {
  'math.floor': dict(params=[('x', 'real')], returns='int', ensures=['result <= x and x < result + 1']),
}
