"""Contracts for scales/thriftmux/sink.py and serializer.py (C13, parts of C08/C11/C12)."""
FILE = 'scales/thriftmux/sink.py'

CLASSES = {
  'SocketTransportSink_mux': dict(path='SocketTransportSink', bases=['MuxSocketTransportSink'], fields={
    '_ping_timeout': 'real', '_ping_msg': 'any', '_last_ping_start': 'real', '_ping_ar': 'AsyncResult?'}),
  'ThriftMuxMessageSerializerSink': dict(path='ThriftMuxMessageSerializerSink', bases=['ClientMessageSink'], fields={'_serializer': 'MuxMarshaller'}),
  'MuxMarshaller': dict(extern=True, path=None, bases=[], fields={}),
  'MessageType': dict(file='scales/thriftmux/protocol.py', path='MessageType'),
}

FUNCTIONS = {
  'SocketTransportSink_mux._EncodeTag': dict(path='SocketTransportSink._EncodeTag', inline=True),
  'Tag.Encode': dict(file='scales/mux/sink.py', cls='Tag', inline=True),

  # frame header: 4-byte big-endian length of (type byte + 3 tag bytes + body), signed type byte, 24-bit tag
  'SocketTransportSink_mux._BuildHeader': dict(
    path='SocketTransportSink._BuildHeader', cls='SocketTransportSink_mux',
    params={'tag': 'int', 'msg_type': 'int', 'data_len': 'int'}, returns='bytes',
    requires=['0 <= tag and tag < 16777216', '-128 <= msg_type and msg_type <= 127', '0 <= data_len and data_len <= 2147483643'],
    ensures=['beq(result, bcat(bi32(4 + data_len), bi8(msg_type), bu24(tag)))', 'blen(result) == 8'],
    modifies=[], allocates=True,
    props=['C13', 'C02'],
  ),

  # the reply-header reader inverts the header writer for every reply type and tag
  'ThriftMuxMessageSerializerSink.ReadHeader': dict(
    cls=None, params={'stream': 'Stream'}, returns='tuple[int,int]',
    captures={'g_t': 'int', 'g_tag': 'int', 'g_rest': 'int', 'g_restlen': 'int'},
    buffers={'stream': 'bcat(bi8(g_t), bu24(g_tag), braw(g_rest, g_restlen))'},
    requires=['-128 <= g_t and g_t <= 127', '0 <= g_tag and g_tag < 16777216', 'g_restlen >= 0'],
    ensures=['result[0] == g_t', 'result[1] == g_tag'],
    modifies=[],
    props=['C13', 'C02'],
  ),
}

EXTERNS = {}

CLASSES.update({
  'MessageSerializer_mux': dict(file='scales/thriftmux/serializer.py', path='MessageSerializer', bases=[], fields={}),
  'MethodDiscardMessage': dict(extern=True, path=None, bases=['Message'], fields={'which': 'int', 'reason': 'str'}),
  'TransportHeaders': dict(file='scales/constants.py', path='TransportHeaders'),
  'HeadersRec': dict(extern=True, path=None, bases=[], dictlike={'__MessageType': ('msgtype', 'int?')}),
})

FUNCTIONS.update({
  # discard body: the 24-bit tag being discarded, then the reason as UTF-8
  'MessageSerializer_mux._Marshal_Tdiscarded': dict(
    file='scales/thriftmux/serializer.py', path='MessageSerializer._Marshal_Tdiscarded', cls=None,
    params={'msg': 'MethodDiscardMessage', 'buf': 'Stream', 'headers': 'HeadersRec'},
    requires=['0 <= msg.which and msg.which < 16777216'],
    ensures=['beq(since(buf, g_m0), bcat(bu24(msg.which), utf8(msg.reason)))',
             'headers["__MessageType"] == 66'],
    modifies=['HeadersRec.msgtype', 'HeadersRec.has_msgtype', 'Tag._tag', '$cls'], allocates='any',
    ghost=[{'before': 'headers[TransportHeaders.MessageType] = MessageType.Tdiscarded', 'do': ['g_m0 = bmark(buf)']}],
    props=['C13', 'C12'],
  ),

  # context block: entry count, then per entry key and value, each preceded by its exact byte length
  'MessageSerializer_mux._WriteContext': dict(
    file='scales/thriftmux/serializer.py', path='MessageSerializer._WriteContext', cls=None,
    params={'ctx': 'dict[str,any]', 'buf': 'Stream'},
    requires=['card(ctx) <= 32767',
              # sizes within the 16-bit length fields (stated range)
              'forall(s, "str", utf8len_of(s) <= 32767)',
              'forall_ref(d, Deadline, -9223372036854775808 <= d._ts and d._ts <= 9223372036854775807 and -9223372036854775808 <= d._timeout and d._timeout <= 9223372036854775807, d._ts)'],
    ensures=[],
    raises={'NotImplementedError': dict()},
    modifies=[], allocates=True,
    loops={0: dict(invariant=['True'], modifies=[])},
    
    ghost=[
      {'after': "buf.write(pack('!h', len(ctx)))", 'do': ['prove(beq(since(buf, g_m0), bi16(card(ctx))), "entry-count-first")']},
      {'before': "buf.write(pack('!h', len(ctx)))", 'do': ['g_m0 = bmark(buf)']},
      {'before': 'if not isinstance(k, string_types):', 'do': ['g_m = bmark(buf)']},
      {'before': "k = k.encode('utf-8')", 'do': ['g_k = k']},
      {'after': "buf.write(pack('!h%ds' % k_len, k_len, k))", 'do': [
        'prove(beq(since(buf, g_m), bcat(bi16(blen(utf8(g_k))), utf8(g_k))), "key-preceded-by-its-exact-byte-length")', 'g_m = bmark(buf)']},
      {'after': "buf.write(pack('!qq', v._ts, v._timeout))", 'do': [
        'prove(beq(since(buf, g_m), bcat(bi16(16), bi64(v._ts), bi64(v._timeout))), "deadline-as-two-int64")']},
      {'before': "v = v.encode('utf-8')", 'do': ['g_v = v']},
      {'after': "buf.write(pack('!h%ds' % v_len, v_len, v))", 'do': [
        'prove(beq(since(buf, g_m), bcat(bi16(blen(utf8(g_v))), utf8(g_v))), "value-preceded-by-its-exact-byte-length")']},
    ],
    props=['C13'],
  ),
})

PREDICATES = {
  'utf8len_of': (['s'], 'blen(utf8(s))'),
}

CLASSES.update({
  'ThriftSerializer': dict(extern=True, path=None, bases=[], fields={}),
})
CLASSES['MessageSerializer_mux']['fields'] = {'_thrift_serializer': 'ThriftSerializer'}

FUNCTIONS.update({
  # dispatch body: context block, empty destination, empty delegation table, then the thrift call
  'MessageSerializer_mux._Marshal_Tdispatch': dict(
    file='scales/thriftmux/serializer.py', path='MessageSerializer._Marshal_Tdispatch', cls='MessageSerializer_mux',
    params={'msg': 'Message', 'buf': 'Stream', 'headers': 'dict[str,any]'},
    locals={'ctx': 'dict[str,any]'},
    requires=['allocated(msg.public_properties)', 'msg.public_properties != headers',
              'card(msg.public_properties) + card(headers) <= 32767',
              'forall(s, "str", utf8len_of(s) <= 32767)',
              'forall_ref(d, Deadline, -9223372036854775808 <= d._ts and d._ts <= 9223372036854775807 and -9223372036854775808 <= d._timeout and d._timeout <= 9223372036854775807, d._ts)'],
    ensures=['has_key(headers, "__MessageType") and headers["__MessageType"] == 2'],
    raises={'NotImplementedError': dict(), 'Exception': dict()},
    modifies=['dict[str,any]'], allocates=True,
    ghost=[
      {'before': 'MessageSerializer._WriteContext(ctx, buf)', 'do': [
        # the context entries are the caller's public properties overlaid with the transport headers (client id, deadline)
        'prove(forall(k, "str", has_key(ctx, k) == (has_key(msg.public_properties, k) or has_key(headers, k))), "context-keys")',
        'prove(forall(k, "str", implies(has_key(headers, k), ctx[k] == headers[k])), "headers-override")',
        'prove(forall(k, "str", implies(has_key(msg.public_properties, k) and not has_key(headers, k), ctx[k] == msg.public_properties[k])), "public-properties-carried")']},
      {'after': 'MessageSerializer._WriteContext(ctx, buf)', 'do': ['g_m = bmark(buf)']},
      {'after': 'self._thrift_serializer.SerializeThriftCall(msg, buf)', 'do': [
        'prove(beq(since(buf, g_m), bcat(bi16(0), bi16(0), braw(thrift_call_of(msg), thrift_len_of(msg)))), "empty-dst-and-dtab-then-the-thrift-call")']},
    ],
    props=['C13'],
  ),
})
FUNCTIONS['MessageSerializer_mux._WriteContext']['trusted_callers'] = True

PREDICATES.update({
  'thrift_call_of': (['m'], 'm.g_thrift'),
  'thrift_len_of': (['m'], 'm.g_thrift_len'),
})

EXTERNS.update({
  'ThriftSerializer.SerializeThriftCall': dict(
    params=[('msg', 'Message'), ('buf', 'Stream')], may_raise=['Exception'],
    writes={'buf': 'braw(msg.g_thrift, msg.g_thrift_len)'},
    notes='scales.thrift.serializer (C14): appends the binary-protocol call for msg; the payload is opaque here'),
})

# ---------------------------------------------------------------------------- pings, replies, shutdown (C08, C11)
FUNCTIONS.update({
  # a ping goes through the send queue like every other frame (the send loop is the only writer)
  'SocketTransportSink_mux._SendPingMessage': dict(
    path='SocketTransportSink._SendPingMessage', cls='SocketTransportSink_mux', returns='AsyncResult',
    requires=['allocated(self._send_queue)'],
    ensures=['result == self._ping_ar and fresh(result) and not result.g_ready',
             'self._socket.g_written == old(self._socket.g_written)'],
    modifies=['SocketTransportSink_mux._ping_ar', 'SocketTransportSink_mux._last_ping_start', 'AsyncResult.g_sets', 'AsyncResult.g_ready',
              'AsyncResult.exception', 'AsyncResult.value', '$cls'],
    allocates=True,
    props=['C08', 'C13'],
  ),
  # liveness probe: every round that finds the transport active sends a ping -- unconditionally, whatever is queued --
  # so that a silent peer is always noticed by the ping timeout
  'SocketTransportSink_mux._PingLoop': dict(
    path='SocketTransportSink._PingLoop', cls='SocketTransportSink_mux', conc='Mux', guar=[],
    requires=['allocated(self._send_queue)'], ensures=[],
    modifies=['*'], allocates=True,
    yields=[{'at': 'gevent.sleep(random.randint(30, 40))', 'rely': ['allocated(self._send_queue)']}],
    loops={0: dict(invariant=['not g_due', 'allocated(self._send_queue)'], modifies=['*'], allocates=True)},
    ghost=[
      {'before': 'while self.isActive:', 'do': ['g_due = False']},
      {'after': 'gevent.sleep(random.randint(30, 40))', 'do': ['g_due = True']},
      {'after': 'self._SendPingMessage()', 'do': ['g_due = False']},
      {'before': 'break', 'do': ['prove(not self.isActive, "stops-only-when-the-transport-is-no-longer-active")', 'g_due = False']},
    ],
    props=['C08'],
  ),
  # no successful ping reply within the timeout: the connection is shut down (closed, faulted, in-flight requests failed)
  'SocketTransportSink_mux._PingTimeoutHelper': dict(
    path='SocketTransportSink._PingTimeoutHelper', cls='SocketTransportSink_mux', conc='Mux', guar=[],
    locals={'ar': 'AsyncResult?'},
    requires=['MuxInv(self)', 'allocated(self._on_faulted) and allocated(self._socket)', 'self._ping_ar is not None'],
    ensures=['MuxInv(self)'],
    modifies=['*'], allocates=True,
    yields=[{'at': 'ar.wait(self._ping_timeout)', 'rely': ['allocated(self._on_faulted) and allocated(self._socket)', 'allocated(ar)']}],
    ghost=[
      {'before': "self._Shutdown('Ping Timeout')", 'do': ['prove(not (ar.g_ready and ar.exception is None), "shutdown-only-without-a-successful-ping-reply")', 'g_shut = True']},
    ],
    props=['C08'],
  ),
  'SocketTransportSink_mux._OnPingResponse': dict(
    path='SocketTransportSink._OnPingResponse', cls='SocketTransportSink_mux', params={'msg_type': 'int', 'stream': 'Stream'},
    locals={'ar': 'AsyncResult?'},
    requires=['self._ping_ar is not None'],
    ensures=['self._ping_ar is None',
             'implies(msg_type == -65, old(self._ping_ar).g_ready and old(self._ping_ar).exception is None)',
             'implies(msg_type != -65, old(self._ping_ar).g_ready and old(self._ping_ar).exception is not None)'],
    modifies=['SocketTransportSink_mux._ping_ar', 'AsyncResult.g_sets', 'AsyncResult.g_ready', 'AsyncResult.exception', 'AsyncResult.value', '$cls'],
    allocates=True,
    props=['C08'],
  ),
  # replies are routed by the tag read from the header; tag 0 and stray frames on the ping tag reach nobody
  'SocketTransportSink_mux._ProcessReply': dict(
    path='SocketTransportSink._ProcessReply', cls='SocketTransportSink_mux', params={'stream': 'Stream'},
    inline_calls=['ThriftMuxMessageSerializerSink.ReadHeader'],
    captures={'g_t': 'int', 'g_tag': 'int', 'g_rest': 'int', 'g_restlen': 'int'},
    buffers={'stream': 'bcat(bi8(g_t), bu24(g_tag), braw(g_rest, g_restlen))'},
    requires=['-128 <= g_t and g_t <= 127', '0 <= g_tag and g_tag < 16777216', 'g_restlen >= 0', 'MuxInv(self)',
              'implies(g_tag == 1 and g_t == -65, self._ping_ar is not None)'],
    ensures=['MuxInv(self)',
             # whatever the peer sends, only the tag it names can be released -- and only if it awaits an answer
             'forall(t, "int", implies(t != g_tag, (t in self._tag_map) == old(t in self._tag_map)))',
             'implies(not old(g_tag in self._tag_map), unchanged("set[int]") and unchanged("TagPool._next"))'],
    modifies=['dict[int,tuple[ClientMessageSinkStack,real,Props]]', 'set[int]', 'deque[tuple[AnySink,any]]', 'AnySink.g_invoked', 'Props.tag', 'Props.has_tag',
              'SocketTransportSink_mux._ping_ar', 'AsyncResult.g_sets', 'AsyncResult.g_ready', 'AsyncResult.exception', 'AsyncResult.value', '$cls'],
    allocates=True,
    ghost=[
      {'before': 'self._ProcessTaggedReply(tag, stream)', 'do': ['prove(tag == g_tag and tag != 0, "routed-by-the-tag-in-the-header")']},
      {'before': 'self._OnPingResponse(msg_type, stream)', 'do': ['prove(g_tag == 1 and g_t == -65, "only-an-Rping-on-tag-1-is-a-ping-reply")']},
    ],
    props=['C11', 'C02', 'C08'],
  ),
})

EXTERNS.update({
  'AsyncResult.wait': dict(params=[('timeout', 'real?')], yields=True, returns='bool', notes='blocks the calling greenlet (gevent)'),
})

# ---------------------------------------------------------------------------- message properties (C13: which entries travel)
CLASSES.update({
  # scales.message.Message as it is for its own methods: a lazily created plain dictionary
  'MessageObj': dict(file='scales/message.py', path='Message', bases=[], fields={'_properties': 'dict[str,any]?'}),
})
FUNCTIONS.update({
  'MessageObj.properties': dict(
    file='scales/message.py', path='Message.properties', cls='MessageObj', returns='dict[str,any]',
    requires=['allocated(self._properties)'],
    ensures=['result == self._properties', 'implies(old(self._properties is not None and card(self._properties) > 0), result == old(self._properties))'],
    modifies=['MessageObj._properties', 'dict[str,any]'], allocates=True,
    literals={'{}': 'dict[str,any]'},
    props=['C13'],
  ),
  # the context entries of a dispatch: every property whose key does not start with '__', with its
  # value, whatever that value is (empty strings included) -- and nothing else
  'MessageObj.public_properties': dict(
    file='scales/message.py', path='Message.public_properties', cls='MessageObj', returns='dict[str,any]',
    requires=['self._properties is not None and card(self._properties) > 0', 'allocated(self._properties)'],
    ensures=['forall(k, "str", has_key(result, k) == (has_key(old(self._properties), k) and not starts_dunder(k)))',
             'forall(k, "str", implies(has_key(result, k), result[k] == old(self._properties)[k]))'],
    modifies=['dict[str,any]', 'MessageObj._properties'], allocates=True,
    inline_calls=['MessageObj.properties'],
    props=['C13'],
  ),
})
PREDICATES['starts_dunder'] = (['k'], 'k.startswith("__")')


FUNCTIONS.update({
  # each call is marshalled into a buffer of its own, and that buffer -- holding exactly this call's bytes -- travels
  # down the chain: the transport may keep it (a request parked while the connection opens) and read it later, so a
  # buffer shared between calls would let one call's bytes go out under another call's tag
  'ThriftMuxMessageSerializerSink.AsyncProcessRequest': dict(
    cls='ThriftMuxMessageSerializerSink',
    params={'sink_stack': 'ClientMessageSinkStack', 'msg': 'Message', 'stream': 'any', 'headers': 'any'},
    locals={'buf': 'Stream', 'ex': 'any'}, literals={'{}': 'dict[str,any]'},
    requires=['allocated(self._serializer)', 'allocated(sink_stack)', 'allocated(msg.properties)', 'self._next is not None'], ensures=[],
    modifies=['*'], allocates='any',
    ghost=[
      {'after': 'buf = BytesIO()', 'do': ['prove(fresh(buf), "a-buffer-of-its-own-for-every-call")', 'g_m = bmark(buf)']},
      {'before': 'self.next_sink.AsyncProcessRequest(sink_stack, msg, buf, headers)', 'do': [
        'prove(fresh(buf), "forwards-the-call-own-buffer")',
        'prove(beq(content(buf), since(buf, g_m)), "the-forwarded-stream-holds-exactly-this-call")']},
    ],
    props=['C02', 'C13'],
  ),
})

EXTERNS.update({
  'Deadline.__init__': dict(params=[('timeout', 'any')], returns='Deadline', fresh=True, allocates=True, ensures=['result is not None'],
                            notes='message.Deadline(timeout): timestamp + timeout in nanoseconds (encoded by _Marshal_Tdispatch)'),
  'MuxMarshaller.Marshal': dict(params=[('msg', 'Message'), ('buf', 'Stream'), ('headers', 'any')], may_raise=['Exception'],
                                writes={'buf': 'braw(msg.g_thrift, msg.g_thrift_len)'},
                                notes='thriftmux MessageSerializer.Marshal: appends the Tdispatch / Tdiscarded body (units _Marshal_Tdispatch, _Marshal_Tdiscarded)'),
})
